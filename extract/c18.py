"""Translator for C18 (and reused by C05): regenerates, from the working tree's source, the facts about
tween / view-deriver ordering that the theorems rest on.

Robustness round: every fact is now OBSERVED by RUNNING the code of the tree under test (child interpreter whose
sys.path starts with `src_root`, with a timeout); no AST / source-text matching is left:

 * default deriver chain       a Configurator subclass records the `add_view_deriver(name, under, over)` calls that
                               `add_default_view_derivers` makes (`defaultDerivers`), and the state of the resulting
                               `IViewDerivers` sorter (names, name2after, name2before, req_after, req_before, order) is
                               emitted as `defaultSorterState` / `defaultSorterOrder`
 * sorter constructor args     read from the sorter objects the configurator / `Tweens()` create
                               (`default_before`, `default_after`, `first`, `last`)
 * `add_view_deriver`          a table of 24 probe calls (defaults, single hints, unsorted tuples, duplicates, VIEW /
   normalisation               INGRESS / mapped_view inside tuples, reserved names): for each the `after` / `before` that
                               reached the sorter, or "rejected" (`normProbes`); the under/over -> after/before mapping
                               and the two defaults are read off that table
 * `_apply_view_derivers`      two logging user derivers: the one earlier in `sorted()` is entered first (`applyReversed`);
                               `sys.setprofile` while a view is derived: the module-level `(view, info)` functions of
                               pyramid.viewderivers / pyramid.config.views called (not nested), in order; the ones after the sorted chain are
                               the fixed outer wrappers (`outerDerivers`)
 * Tweens                      `add_implicit` under/over mapping from the order `implicit()` returns for two tweens
                               added in both orders; `__call__` on 8 (explicit, implicit) combinations with logging
                               factories: the observed enter/exit traces (`tweenCallProbes`); `add_default_tweens`
                               from the implicit names of a fresh Configurator

Fail closed: an exception, a timeout, pyramid imported from another tree, an observation that is incomplete or
fits no expected pattern -> "unknown" / false / empty table, which makes the `decide`d obligations in
Props/C18.lean (and C05) fail.
"""
import json, os, subprocess, sys

summary = {}

_PROBE = r'''
import sys, os, json, warnings, inspect
src = sys.argv[1]
sys.path.insert(0, src)
warnings.simplefilter('ignore')
out = {}


def guard(key, fn):
    try:
        out[key] = fn()
    except BaseException as e:          # fail closed, whatever it is
        out[key] = {'error': '%s: %s' % (type(e).__name__, str(e)[:200])}


import pyramid
out['pyramid_file'] = os.path.realpath(pyramid.__file__)


def hint(x):
    if x is None:
        return None
    if isinstance(x, str):
        return [x]
    return [str(y) for y in x]


def ctor(s):
    return {'default_before': s.default_before, 'default_after': s.default_after, 'first': s.first, 'last': s.last}


def sorter_state(s):
    return {'names': list(s.names),
            'after': {n: hint(v) for n, v in s.name2after.items()},
            'before': {n: hint(v) for n, v in s.name2before.items()},
            'req_after': sorted(s.req_after), 'req_before': sorted(s.req_before),
            'order': [[a, b] for a, b in s.order], 'ctor': ctor(s)}


def probe_default_derivers():
    from pyramid.config import Configurator
    from pyramid.interfaces import IViewDerivers
    calls = []

    class Recording(Configurator):
        def add_view_deriver(self, deriver, name=None, under=None, over=None):
            calls.append({'name': name if name is not None else getattr(deriver, '__name__', None),
                          'under': hint(under), 'over': hint(over)})
            return Configurator.add_view_deriver(self, deriver, name=name, under=under, over=over)
    config = Recording(autocommit=True)          # setup_registry -> add_default_view_derivers
    n_init = len(calls)
    s = config.registry.getUtility(IViewDerivers)
    state = sorter_state(s)
    sorted_names = [n for n, _ in s.sorted()]
    # calling the directive again re-adds the same chain: same calls, same state (add() replaces)
    config.add_default_view_derivers()
    if calls[n_init:] != calls[:n_init] or sorter_state(s)['names'] != state['names']:
        raise ValueError('add_default_view_derivers is not repeatable')
    return {'calls': calls[:n_init], 'state': state, 'sorted': sorted_names}


def probe_normalisation():
    from pyramid.config import Configurator
    from pyramid.interfaces import IViewDerivers
    from pyramid.exceptions import ConfigurationError
    from pyramid.viewderivers import INGRESS, VIEW
    rows = [
        ('p', None, None), ('p', 'a', 'b'), ('p', None, 'b'), ('p', 'a', None),
        ('p', ('z', 'a'), ('y', 'b')), ('p', ['z', 'a', 'm'], ['y', 'b', 'n']), ('p', ('a', 'a'), ('b', 'b')),
        ('p', 'a', VIEW), ('p', 'a', ('x', VIEW)), ('p', 'a', (VIEW, 'mapped_view')), ('p', None, (VIEW, 'a', 'z')),
        ('mapped_view', 'rendered_view', VIEW), ('mapped_view', 'rendered_view', ('x', VIEW)),
        ('p', INGRESS, 'b'), ('p', (INGRESS, 'x'), 'b'), ('p', ('x', INGRESS, 'a'), (VIEW, 'b')),
        ('p', 'a', INGRESS), ('p', 'a', ('b', INGRESS)), ('p', VIEW, 'b'), ('p', ('a', VIEW), 'b'),
        ('p', 'mapped_view', 'b'), ('p', ('a', 'mapped_view'), None), (INGRESS, None, None), (VIEW, None, None),
    ]
    res = []
    for name, under, over in rows:
        config = Configurator(autocommit=True)
        s = config.registry.getUtility(IViewDerivers)
        before_names = list(s.names)
        try:
            config.add_view_deriver(lambda view, info: view, name=name, under=under, over=over)
        except ConfigurationError:
            if list(s.names) != before_names:
                raise ValueError('a rejected deriver changed the sorter')
            res.append({'name': name, 'under': hint(under), 'over': hint(over), 'rejected': True, 'after': [], 'before': []})
            continue
        if name not in s.names:
            raise ValueError('accepted deriver %r is not in the sorter' % (name,))
        res.append({'name': name, 'under': hint(under), 'over': hint(over), 'rejected': False,
                    'after': hint(s.name2after.get(name, ())), 'before': hint(s.name2before.get(name, ()))})
    return res


def probe_apply():
    from pyramid.config import Configurator
    from pyramid.interfaces import IViewDerivers
    from pyramid.request import Request
    from pyramid.response import Response
    import pyramid.viewderivers as vd
    log = []

    def mk(tag):
        def deriver(view, info):
            def wrapped(context, request):
                log.append(['enter', tag])
                try:
                    return view(context, request)
                finally:
                    log.append(['exit', tag])
            return wrapped
        deriver.__name__ = tag
        return deriver
    config = Configurator(autocommit=True)
    config.add_view_deriver(mk('u1'), name='u1')
    config.add_view_deriver(mk('u2'), name='u2', under='u1', over='rendered_view')
    config.add_view(lambda context, request: (log.append(['core']), Response('ok'))[1], name='')
    app = config.make_wsgi_app()
    Request.blank('/').get_response(app)
    s = config.registry.getUtility(IViewDerivers)
    users = [n for n, _ in s.sorted() if n in ('u1', 'u2')]

    # which deriver-shaped functions of pyramid.viewderivers are applied, in which order, when a view is derived
    import pyramid.config.views as cv
    codes = {}
    for mod in (vd, cv):
        for fn in vars(mod).values():
            if inspect.isfunction(fn) and fn.__module__ in (vd.__name__, cv.__name__):
                co = fn.__code__
                if co.co_argcount == 2 and co.co_varnames[:2] == ('view', 'info'):
                    codes[co] = fn.__name__
    config2 = Configurator(autocommit=True)
    s2 = config2.registry.getUtility(IViewDerivers)
    sorted2 = [n for n, _ in s2.sorted()]
    applied = []

    def prof(frame, event, arg):
        if event == 'call' and frame.f_code in codes:
            f = frame.f_back
            while f is not None:
                if f.f_code in codes:
                    return
                f = f.f_back
            applied.append(codes[frame.f_code])
    sys.setprofile(prof)
    try:
        config2.add_view(lambda context, request: Response('ok'), name='c18probe')
    finally:
        sys.setprofile(None)
    return {'users_sorted': users, 'log': log, 'sorted': sorted2, 'applied': applied}


def probe_tweens():
    from pyramid.config import Configurator
    from pyramid.config.tweens import Tweens
    from pyramid.interfaces import ITweens
    import pyramid.tweens as pt
    res = {'ctor': ctor(Tweens().sorter)}
    f = lambda handler, registry: handler

    def order(adds):
        t = Tweens()
        for name, kw in adds:
            t.add_implicit(name, f, **kw)
        return [n for n, _ in t.implicit()]
    res['mapping'] = [order([('x', {}), ('y', {'over': 'x'})]), order([('y', {'over': 'x'}), ('x', {})]),
                      order([('x', {}), ('y', {'under': 'x'})]), order([('y', {'under': 'x'}), ('x', {})])]

    def call(explicit, implicit):
        log = []

        def mk(n):
            def factory(handler, registry):
                def tween(request):
                    log.append(n)
                    try:
                        return handler(request)
                    finally:
                        log.append(-(n + 1))
                return tween
            return factory
        t = Tweens()
        last = None
        for n in implicit:
            t.add_implicit('t%d' % n, mk(n), **({} if last is None else {'under': 't%d' % last}))
            last = n
        for n in explicit:
            t.add_explicit('t%d' % n, mk(n))
        imp = [int(name[1:]) for name, _ in t.implicit()]
        handler = t(lambda request: (log.append(1000000), 'response')[1], None)
        if handler('request') != 'response':
            raise ValueError('composed handler lost the response')
        return {'explicit': list(explicit), 'implicit': imp, 'trace': log}
    res['calls'] = [call(e, i) for e, i in (([], []), ([], [2]), ([], [2, 3]), ([], [4, 2, 3]), ([3], [2]),
                                             ([3, 2], [2, 3, 4]), ([4, 2], []), ([2, 3, 4], [3]))]
    config = Configurator(autocommit=True)
    tw = config.registry.getUtility(ITweens)
    names = [n for n, _ in tw.implicit()]
    consts = {getattr(pt, k): k for k in ('EXCVIEW', 'MAIN', 'INGRESS') if isinstance(getattr(pt, k, None), str)}
    res['default_tweens'] = [consts.get(n, 'unknown') for n in names]
    res['default_explicit'] = [n for n, _ in tw.explicit]
    return res


guard('default_derivers', probe_default_derivers)
guard('normalisation', probe_normalisation)
guard('apply', probe_apply)
guard('tweens', probe_tweens)
sys.stdout.write('\nC18PROBE ' + json.dumps(out) + '\n')
'''


def run_probe(src_root, timeout=120):
    try:
        p = subprocess.run([sys.executable, '-c', _PROBE, src_root], stdout=subprocess.PIPE, stderr=subprocess.PIPE,
                           timeout=timeout, cwd=src_root)
        lines = [l for l in p.stdout.decode(errors='replace').splitlines() if l.startswith('C18PROBE ')]
        if not lines:
            return {'error': 'probe produced no result (rc=%s): %s' % (p.returncode, p.stderr.decode(errors='replace')[-400:])}
        obs = json.loads(lines[-1][len('C18PROBE '):])
    except Exception as e:
        return {'error': 'probe failed: %s: %s' % (type(e).__name__, str(e)[:300])}
    want = os.path.realpath(os.path.join(src_root, 'pyramid')) + os.sep
    if not str(obs.get('pyramid_file', '')).startswith(want):
        return {'error': 'probe imported pyramid from %s, not from %s' % (obs.get('pyramid_file'), want)}
    return obs


def _bad(v):
    return v is None or (isinstance(v, dict) and 'error' in v)


def _err(v):
    return v.get('error') if isinstance(v, dict) else 'missing'


_SENT = {'INGRESS': 'INGRESS', 'VIEW': 'VIEW', 'MAIN': 'MAIN'}


def _ident(s):
    return isinstance(s, str) and s != '' and all(c.isalnum() or c in '_.' for c in s)


def _hint_ok(h):
    return h is None or (isinstance(h, list) and all(_ident(x) for x in h))


def _sim_trace(explicit, implicit):
    use = explicit if explicit else implicit
    return list(use) + [1000000] + [-(n + 1) for n in reversed(use)]


def facts(src_root):
    obs = run_probe(src_root)
    unknown = []
    if 'error' in obs:
        unknown.append(obs['error'])
        obs = {}
    out = {}
    UNK_D = [{'name': 'unknown', 'under': ['unknown'], 'over': ['unknown']}]

    # --- default deriver chain: the recorded calls and the resulting sorter
    dd = obs.get('default_derivers')
    out['default_derivers'], out['deriver_sorter'] = UNK_D, 'unknown'
    out['default_sorter_state'], out['default_sorter_order'] = [], []
    if _bad(dd):
        unknown.append('default deriver probe: %s' % _err(dd))
    else:
        calls, st = dd['calls'], dd['state']
        ok = (calls and all(_ident(c['name']) and _hint_ok(c['under']) and _hint_ok(c['over']) for c in calls)
              and [c['name'] for c in calls] == st['names'] and len(set(st['names'])) == len(st['names'])
              and all(_hint_ok(v) for v in list(st['after'].values()) + list(st['before'].values()))
              and all(_ident(a) and _ident(b) for a, b in st['order']))
        if not ok:
            unknown.append('default deriver probe: recorded calls and sorter names disagree / unexpected values')
        else:
            out['default_derivers'] = calls
            out['deriver_sorter'] = st['ctor']
            out['default_sorter_state'] = [{'name': n, 'after': st['after'].get(n), 'before': st['before'].get(n),
                                            'req_after': n in st['req_after'], 'req_before': n in st['req_before']}
                                           for n in st['names']]
            out['default_sorter_order'] = st['order']
            if set(st['req_after']) - set(st['names']) or set(st['req_before']) - set(st['names']):
                unknown.append('default deriver sorter: requirement recorded for a name that is not there')
                out['default_sorter_state'] = []
    out['deriver_names'] = [d['name'] for d in out['default_derivers']]
    # compatibility view for the harness (harness/c18.py models single-string hints of the default chain)
    for d in out['default_derivers']:
        for k in ('under', 'over'):
            if isinstance(d[k], list) and len(d[k]) != 1:
                unknown.append('default deriver %s has a %s hint that is not a single name' % (d['name'], k))
    if any('not a single name' in u for u in unknown):
        out['default_derivers'] = UNK_D
        out['deriver_names'] = ['unknown']

    # --- add_view_deriver normalisation table
    nm = obs.get('normalisation')
    out['norm_probes'] = []
    out['deriver_default_under'] = out['deriver_default_over'] = out['deriver_add_mapping'] = 'unknown'
    out['deriver_mapped_rule'] = out['deriver_sorted_tuples'] = False
    if _bad(nm) or len(nm) != 24:
        unknown.append('add_view_deriver probe: %s' % _err(nm))
    elif not all(_ident(r['name']) and _hint_ok(r['under']) and _hint_ok(r['over']) and _hint_ok(r['after'])
                 and _hint_ok(r['before']) and r['after'] is not None and r['before'] is not None for r in nm):
        unknown.append('add_view_deriver probe: unexpected values')
    else:
        out['norm_probes'] = nm
        by = {(r['name'], json.dumps(r['under']), json.dumps(r['over'])): r for r in nm}

        def row(name, under, over):
            return by[(name, json.dumps(under), json.dumps(over))]
        r0, r1 = row('p', None, None), row('p', ['a'], ['b'])
        if not r1['rejected'] and (r1['after'], r1['before']) == (['a'], ['b']):
            out['deriver_add_mapping'] = 'before=over,after=under'
            if not r0['rejected'] and len(r0['after']) == 1 and len(r0['before']) == 1:
                out['deriver_default_under'], out['deriver_default_over'] = r0['after'][0], r0['before'][0]
        elif not r1['rejected'] and (r1['after'], r1['before']) == (['b'], ['a']):
            out['deriver_add_mapping'] = 'before=under,after=over'
            if not r0['rejected'] and len(r0['after']) == 1 and len(r0['before']) == 1:
                out['deriver_default_under'], out['deriver_default_over'] = r0['before'][0], r0['after'][0]
        r2, r3 = row('p', ['z', 'a', 'm'], ['y', 'b', 'n']), row('p', ['a'], ['VIEW'])
        r4 = row('mapped_view', ['rendered_view'], ['VIEW'])
        out['deriver_sorted_tuples'] = (not r2['rejected'] and sorted([r2['after'], r2['before']]) == [['a', 'm', 'z'], ['b', 'n', 'y']])
        out['deriver_mapped_rule'] = (not r3['rejected'] and ['VIEW', 'mapped_view'] in (r3['after'], r3['before'])
                                      and not r4['rejected'] and ['VIEW'] in (r4['after'], r4['before']))

    # --- _apply_view_derivers
    ap = obs.get('apply')
    out['outer_derivers'], out['apply_reversed'] = ['unknown'], False
    if _bad(ap):
        unknown.append('_apply_view_derivers probe: %s' % _err(ap))
    else:
        users, log = ap['users_sorted'], ap['log']
        first_outermost = [['enter', users[0]], ['enter', users[1]], ['core'], ['exit', users[1]], ['exit', users[0]]] \
            if len(users) == 2 else None
        if log == first_outermost:
            out['apply_reversed'] = True
            srt, applied = ap['sorted'], ap['applied']
            k = len(srt)
            if (srt and applied[:k] == list(reversed(srt)) and len(applied) > k
                    and not (set(applied[k:]) & set(srt)) and all(_ident(x) for x in applied)
                    and len(set(applied)) == len(applied)):
                out['outer_derivers'] = list(reversed(applied[k:]))
            else:
                unknown.append('_apply_view_derivers probe: applied functions %r do not end the reversed sorted chain' % (applied,))
        else:
            unknown.append('_apply_view_derivers probe: the deriver earlier in sorted() is not the outer one: %r' % (log,))

    # --- Tweens
    tw = obs.get('tweens')
    out['tween_sorter'] = 'unknown'
    out['tween_add_mapping'] = out['tween_call'] = 'unknown'
    out['default_tweens'], out['tween_call_probes'] = ['unknown'], []
    if _bad(tw):
        unknown.append('Tweens probe: %s' % _err(tw))
    else:
        out['tween_sorter'] = tw['ctor']
        m = tw['mapping']
        if m == [['y', 'x'], ['y', 'x'], ['x', 'y'], ['x', 'y']]:
            out['tween_add_mapping'] = 'after=under,before=over'
        elif m == [['x', 'y'], ['x', 'y'], ['y', 'x'], ['y', 'x']]:
            out['tween_add_mapping'] = 'after=over,before=under'
        else:
            unknown.append('Tweens.add_implicit probe: %r' % (m,))
        calls = tw['calls']
        shape_ok = (len(calls) == 8 and all(isinstance(c['explicit'], list) and isinstance(c['implicit'], list)
                                            and all(isinstance(x, int) and not isinstance(x, bool) for x in c['explicit'] + c['implicit'] + c['trace'])
                                            for c in calls))
        if shape_ok:
            out['tween_call_probes'] = calls
            if all(c['trace'] == _sim_trace(c['explicit'], c['implicit']) for c in calls):
                out['tween_call'] = 'explicit-else-implicit,reversed-fold'
            else:
                unknown.append('Tweens.__call__ probe: a trace is not the first-is-outermost composition of explicit-or-implicit')
        else:
            unknown.append('Tweens.__call__ probe: unexpected values')
        if tw['default_tweens'] and not tw['default_explicit'] and all(_ident(x) for x in tw['default_tweens']):
            out['default_tweens'] = tw['default_tweens']
        else:
            unknown.append('default tweens probe: %r / %r' % (tw['default_tweens'], tw['default_explicit']))
    out['unknown'] = unknown
    # single-name view of the default chain, as the harness and earlier consumers read it
    out['default_derivers'] = [{'name': d['name'], 'under': (d['under'][0] if d['under'] else None),
                                'over': (d['over'][0] if d['over'] else None),
                                'under_list': d['under'], 'over_list': d['over']} for d in out['default_derivers']]
    summary.clear()
    summary.update({k: out[k] for k in ('deriver_names', 'outer_derivers', 'deriver_sorter', 'tween_sorter', 'tween_call',
                                        'deriver_add_mapping', 'tween_add_mapping', 'apply_reversed', 'default_tweens', 'unknown')})
    summary['how'] = 'probed by running the tree under test (extract/c18.py child interpreter)'
    summary['norm_probe_rows'] = len(out['norm_probes'])
    summary['tween_call_probe_rows'] = len(out['tween_call_probes'])
    return out


def _lstr(s):
    return '"' + str(s).replace('\\', '\\\\').replace('"', '\\"') + '"'


def _lopt(v):
    return 'none' if v is None else 'some ' + _lstr(v)


def _llist(v):
    return '[' + ', '.join(_lstr(x) for x in v) + ']'


def _loptlist(v):
    return 'none' if v is None else '(some ' + _llist(v) + ')'


def _lbool(b):
    return 'true' if b else 'false'


def _lint(i):
    return '(%d)' % i if i < 0 else str(i)


def _ctor(c):
    if c == 'unknown' or not isinstance(c, dict) or not all(k in c for k in ('default_before', 'default_after', 'first', 'last')) \
            or not all(c[k] is None or isinstance(c[k], str) for k in ('default_before', 'default_after')) \
            or not all(isinstance(c[k], str) for k in ('first', 'last')):
        return '{ defaultBefore := some "unknown", defaultAfter := some "unknown", first := "unknown", last := "unknown" }'
    return '{ defaultBefore := %s, defaultAfter := %s, first := %s, last := %s }' % (
        _lopt(c['default_before']), _lopt(c['default_after']), _lstr(c['first']), _lstr(c['last']))


def generate(src_root):
    f = facts(src_root)
    L = ['/-! GENERATED by extract/c18.py by RUNNING src/pyramid (config/views.py, config/tweens.py, util.py) on probe inputs — do not edit.',
         '"unknown" / false / empty tables mean a probe failed or was inconsistent. -/',
         'namespace Pyr.Gen.C18', '',
         '/-- one `add_view_deriver(d, name=…, under=…, over=…)` call; a hint is `none` (not given) or the list of names given',
         '(a single string is the one-element list) -/',
         'structure RawDeriver where', '  name : String', '  under : Option (List String)', '  over : Option (List String)', 'deriving Repr, DecidableEq', '',
         'structure SorterCtor where', '  defaultBefore : Option String', '  defaultAfter : Option String', '  first : String', '  last : String', 'deriving Repr, DecidableEq', '',
         '/-- one probe call of `add_view_deriver` and what reached the sorter (`name2after[name]`, `name2before[name]`) -/',
         'structure NormProbe where', '  raw : RawDeriver', '  rejected : Bool', '  after : List String', '  before : List String', 'deriving Repr, DecidableEq', '',
         '/-- one name of the real default sorter: `name2after.get`, `name2before.get`, `in req_after`, `in req_before` -/',
         'structure SorterEntry where', '  name : String', '  after : Option (List String)', '  before : Option (List String)',
         '  reqAfter : Bool', '  reqBefore : Bool', 'deriving Repr, DecidableEq', '',
         '/-- the calls `add_default_view_derivers` was observed to make, in order -/',
         'def defaultDerivers : List RawDeriver := [']
    L += ['  ⟨%s, %s, %s⟩,' % (_lstr(d['name']), _loptlist(d['under_list']), _loptlist(d['over_list'])) for d in f['default_derivers']]
    L[-1] = L[-1].rstrip(',')
    L += [']', '',
          '/-- the state of the real `IViewDerivers` sorter after those calls, per name in `names` order -/',
          'def defaultSorterState : List SorterEntry := [']
    ent = ['  ⟨%s, %s, %s, %s, %s⟩' % (_lstr(e['name']), _loptlist(e['after']), _loptlist(e['before']), _lbool(e['req_after']), _lbool(e['req_before']))
           for e in f['default_sorter_state']]
    L += [',\n'.join(ent)] if ent else []
    L += [']', '/-- its `order` attribute (the arcs) -/',
          'def defaultSorterOrder : List (String × String) := [' + ', '.join('(%s, %s)' % (_lstr(a), _lstr(b)) for a, b in f['default_sorter_order']) + ']', '',
          'def deriverSorter : SorterCtor := ' + _ctor(f['deriver_sorter']),
          'def deriverDefaultUnder : String := ' + _lstr(f['deriver_default_under']),
          'def deriverDefaultOver : String := ' + _lstr(f['deriver_default_over']),
          '/-- `under` reaches the sorter as `after`, `over` as `before` (observed) -/',
          'def deriverAddMapping : String := ' + _lstr(f['deriver_add_mapping']),
          'def deriverMappedRule : Bool := ' + _lbool(f['deriver_mapped_rule']),
          'def deriverSortedTuples : Bool := ' + _lbool(f['deriver_sorted_tuples']),
          '/-- probe calls of `add_view_deriver` on a fresh configurator each -/',
          'def normProbes : List NormProbe := [']
    rows = ['  ⟨⟨%s, %s, %s⟩, %s, %s, %s⟩' % (_lstr(r['name']), _loptlist(r['under']), _loptlist(r['over']), _lbool(r['rejected']),
                                              _llist(r['after']), _llist(r['before'])) for r in f['norm_probes']]
    L += [',\n'.join(rows)] if rows else []
    L += [']',
          '/-- the fixed wrappers applied outside the sorted chain (observed while a view was derived), outermost first -/',
          'def outerDerivers : List String := ' + _llist(f['outer_derivers']),
          '/-- of two logging derivers the one earlier in `sorted()` is entered first -/',
          'def applyReversed : Bool := ' + _lbool(f['apply_reversed']), '',
          'def tweenSorter : SorterCtor := ' + _ctor(f['tween_sorter']),
          '/-- `add_implicit`: `under` reaches the sorter as `after`, `over` as `before` (observed through `implicit()`) -/',
          'def tweenAddMapping : String := ' + _lstr(f['tween_add_mapping']),
          'def tweenCall : String := ' + _lstr(f['tween_call']),
          '/-- `Tweens.__call__` observed: (explicit list, `implicit()` list, trace of one call of the composed handler;',
          'n ≥ 0: tween n entered, −(n+1): tween n left, 1000000: the innermost handler ran) -/',
          'def tweenCallProbes : List (List Nat × List Nat × List Int) := [']
    tc = ['  ([%s], [%s], [%s])' % (', '.join(map(str, c['explicit'])), ', '.join(map(str, c['implicit'])), ', '.join(_lint(x) for x in c['trace']))
          for c in f['tween_call_probes'] if all(x >= 0 for x in c['explicit'] + c['implicit'])]
    L += [',\n'.join(tc)] if tc else []
    L += [']',
          'def defaultTweens : List String := ' + _llist(f['default_tweens']),
          '', 'end Pyr.Gen.C18', '']
    return {'PyramidModel/Gen/C18.lean': '\n'.join(L)}


if __name__ == '__main__':
    root = sys.argv[1] if len(sys.argv) > 1 else '/repo/src'
    print(json.dumps(facts(root), indent=1))
    print(generate(root)['PyramidModel/Gen/C18.lean'])
