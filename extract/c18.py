"""Translator for C18 (and reused by C05): regenerates, from the working tree's source, the facts about
tween / view-deriver ordering that the theorems rest on.

 * config/views.py  add_default_view_derivers : the default chain (name, under, over) in source order,
                    and the trailing csrf_view call
 * config/views.py  add_view_deriver          : constructor arguments of the TopologicalSorter, the defaults
                    for under/over, the `derivers.add(name, deriver, before=over, after=under)` keyword mapping,
                    the mapped_view rule
 * config/views.py  _apply_view_derivers      : outer_derivers list and `reversed(outer_derivers + derivers.sorted())`
 * config/tweens.py Tweens.__init__/add_implicit/__call__ : sorter constructor arguments, keyword mapping,
                    `use[::-1]`, explicit-over-implicit selection
Anything that does not have the expected shape is emitted as the string "unknown", which makes the
`decide`d obligations in Props/C18.lean (and C05) fail.
"""
import ast, os

summary = {}


def _src(tree_src, node):
    return ast.get_source_segment(tree_src, node)


def _find_func(tree, cls, name):
    for n in ast.walk(tree):
        if isinstance(n, ast.ClassDef) and (cls is None or n.name == cls):
            for f in n.body:
                if isinstance(f, ast.FunctionDef) and f.name == name:
                    return f
    return None


def _const_or_name(node):
    if isinstance(node, ast.Constant):
        return node.value if isinstance(node.value, str) else 'unknown'
    if isinstance(node, ast.Name):
        return node.id            # INGRESS / VIEW / MAIN / last
    return 'unknown'


def _sorter_ctor(func, src):
    """keyword arguments of the TopologicalSorter(...) call inside func"""
    for n in ast.walk(func):
        if isinstance(n, ast.Call) and getattr(n.func, 'id', None) == 'TopologicalSorter':
            return {k.arg: _const_or_name(k.value) if not (isinstance(k.value, ast.Constant) and k.value.value is None) else None
                    for k in n.keywords}
    return 'unknown'


def facts(src_root):
    vpath = os.path.join(src_root, 'pyramid', 'config', 'views.py')
    tpath = os.path.join(src_root, 'pyramid', 'config', 'tweens.py')
    vsrc, tsrc = open(vpath).read(), open(tpath).read()
    vt, tt = ast.parse(vsrc), ast.parse(tsrc)
    out = {}

    # --- default deriver chain
    f = _find_func(vt, 'ViewsConfiguratorMixin', 'add_default_view_derivers')
    chain, loop_ok, last_init, tail = [], False, None, []
    if f is not None:
        for st in f.body:
            if isinstance(st, ast.Assign) and getattr(st.targets[0], 'id', None) == 'derivers' and isinstance(st.value, ast.List):
                for el in st.value.elts:
                    if isinstance(el, ast.Tuple) and isinstance(el.elts[0], ast.Constant):
                        chain.append(el.elts[0].value)
                    else:
                        chain.append('unknown')
            elif isinstance(st, ast.Assign) and getattr(st.targets[0], 'id', None) == 'last':
                last_init = _const_or_name(st.value)
            elif isinstance(st, ast.For):
                # for name, deriver in derivers: self.add_view_deriver(deriver, name=name, under=last, over=VIEW); last = name
                body_src = [_src(vsrc, b).replace(' ', '').replace('\n', '') for b in st.body]
                loop_ok = (body_src == ['self.add_view_deriver(deriver,name=name,under=last,over=VIEW)', 'last=name']
                           and _src(vsrc, st.target) == 'name, deriver' and _src(vsrc, st.iter) == 'derivers')
            elif isinstance(st, ast.Expr) and isinstance(st.value, ast.Call) and getattr(st.value.func, 'attr', None) == 'add_view_deriver':
                c = st.value
                kw = {k.arg: _const_or_name(k.value) for k in c.keywords}
                nm = kw.get('name') or (_const_or_name(c.args[1]) if len(c.args) > 1 else 'unknown')
                tail.append({'name': nm, 'under': kw.get('under', None), 'over': kw.get('over', None)})
    default = []
    if f is None or not loop_ok or last_init is None or not chain:
        default = [{'name': 'unknown', 'under': 'unknown', 'over': 'unknown'}]
    else:
        last = last_init
        for nm in chain:
            default.append({'name': nm, 'under': last, 'over': 'VIEW'})
            last = nm
        default += tail
    out['default_derivers'] = default
    out['deriver_names'] = [d['name'] for d in default]

    # --- add_view_deriver: defaults, sorter ctor, keyword mapping, mapped_view rule
    f = _find_func(vt, 'ViewsConfiguratorMixin', 'add_view_deriver')
    s = _src(vsrc, f).replace(' ', '').replace('\n', '') if f else ''
    out['deriver_sorter'] = _sorter_ctor(f, vsrc) if f else 'unknown'
    out['deriver_default_under'] = 'decorated_view' if "ifunderisNone:under='decorated_view'" in s else 'unknown'
    out['deriver_default_over'] = 'rendered_view' if "ifoverisNone:over='rendered_view'" in s else 'unknown'
    out['deriver_add_mapping'] = 'before=over,after=under' if 'derivers.add(name,deriver,before=over,after=under)' in s else 'unknown'
    out['deriver_mapped_rule'] = ("ifVIEWinoverandname!='mapped_view':over=as_sorted_tuple(over+('mapped_view',))" in s)
    out['deriver_sorted_tuples'] = ('over=as_sorted_tuple(over)under=as_sorted_tuple(under)' in s)

    # --- _apply_view_derivers
    f = _find_func(vt, 'ViewsConfiguratorMixin', '_apply_view_derivers')
    s = _src(vsrc, f).replace(' ', '').replace('\n', '') if f else ''
    outer = []
    if f:
        for st in f.body:
            if isinstance(st, ast.Assign) and getattr(st.targets[0], 'id', None) == 'outer_derivers' and isinstance(st.value, ast.List):
                outer = [el.elts[0].value if isinstance(el, ast.Tuple) and isinstance(el.elts[0], ast.Constant) else 'unknown' for el in st.value.elts]
    out['outer_derivers'] = outer or ['unknown']
    out['apply_reversed'] = ('forname,deriverinreversed(outer_derivers+derivers.sorted()):view=wraps_view(deriver)(view,info)' in s
                             and 'view=info.original_view' in s)

    # --- Tweens
    f = _find_func(tt, 'Tweens', '__init__')
    out['tween_sorter'] = _sorter_ctor(f, tsrc) if f else 'unknown'
    f = _find_func(tt, 'Tweens', 'add_implicit')
    s = _src(tsrc, f).replace(' ', '').replace('\n', '') if f else ''
    out['tween_add_mapping'] = 'after=under,before=over' if 'self.sorter.add(name,factory,after=under,before=over)' in s else 'unknown'
    f = _find_func(tt, 'Tweens', '__call__')
    s = _src(tsrc, f).replace(' ', '').replace('\n', '') if f else ''
    out['tween_call'] = ('explicit-else-implicit,reversed-fold'
                         if 'ifself.explicit:use=self.explicitelse:use=self.implicit()forname,factoryinuse[::-1]:handler=factory(handler,registry)returnhandler' in s
                         else 'unknown')
    f = _find_func(tt, None, 'add_default_tweens')
    s = _src(tsrc, f).replace(' ', '').replace('\n', '') if f else ''
    out['default_tweens'] = ['EXCVIEW'] if s.endswith('self.add_tween(EXCVIEW)') else ['unknown']
    summary.clear(); summary.update({k: out[k] for k in ('deriver_names', 'outer_derivers', 'deriver_sorter', 'tween_sorter', 'tween_call')})
    return out


def _lstr(s):
    return '"' + str(s).replace('\\', '\\\\').replace('"', '\\"') + '"'


def _lopt(v):
    return 'none' if v is None else 'some ' + _lstr(v)


def _ctor(c):
    if c == 'unknown' or not isinstance(c, dict):
        return '{ defaultBefore := some "unknown", defaultAfter := some "unknown", first := "unknown", last := "unknown" }'
    return '{ defaultBefore := %s, defaultAfter := %s, first := %s, last := %s }' % (
        _lopt(c.get('default_before', 'LAST')), _lopt(c.get('default_after')), _lstr(c.get('first', 'FIRST')), _lstr(c.get('last', 'LAST')))


def generate(src_root):
    f = facts(src_root)
    L = ['/-! GENERATED by extract/c18.py from src/pyramid/config/views.py and config/tweens.py — do not edit. -/',
         'namespace Pyr.Gen.C18', '',
         'structure RawDeriver where', '  name : String', '  under : Option String', '  over : Option String', 'deriving Repr, DecidableEq', '',
         'structure SorterCtor where', '  defaultBefore : Option String', '  defaultAfter : Option String', '  first : String', '  last : String', 'deriving Repr, DecidableEq', '',
         '/-- the calls `add_default_view_derivers` makes, in order: `add_view_deriver(d, name=…, under=…, over=…)` -/',
         'def defaultDerivers : List RawDeriver := [']
    L += ['  ⟨%s, %s, %s⟩,' % (_lstr(d['name']), _lopt(d['under']), _lopt(d['over'])) for d in f['default_derivers']]
    L[-1] = L[-1].rstrip(',')
    L += [']', '',
          'def deriverSorter : SorterCtor := ' + _ctor(f['deriver_sorter']),
          'def deriverDefaultUnder : String := ' + _lstr(f['deriver_default_under']),
          'def deriverDefaultOver : String := ' + _lstr(f['deriver_default_over']),
          '/-- `derivers.add(name, deriver, before=over, after=under)` -/',
          'def deriverAddMapping : String := ' + _lstr(f['deriver_add_mapping']),
          'def deriverMappedRule : Bool := ' + ('true' if f['deriver_mapped_rule'] else 'false'),
          'def deriverSortedTuples : Bool := ' + ('true' if f['deriver_sorted_tuples'] else 'false'),
          'def outerDerivers : List String := [' + ', '.join(_lstr(x) for x in f['outer_derivers']) + ']',
          '/-- `for name, deriver in reversed(outer_derivers + derivers.sorted()): view = wraps_view(deriver)(view, info)` -/',
          'def applyReversed : Bool := ' + ('true' if f['apply_reversed'] else 'false'), '',
          'def tweenSorter : SorterCtor := ' + _ctor(f['tween_sorter']),
          '/-- `self.sorter.add(name, factory, after=under, before=over)` -/',
          'def tweenAddMapping : String := ' + _lstr(f['tween_add_mapping']),
          'def tweenCall : String := ' + _lstr(f['tween_call']),
          'def defaultTweens : List String := [' + ', '.join(_lstr(x) for x in f['default_tweens']) + ']',
          '', 'end Pyr.Gen.C18', '']
    return {'PyramidModel/Gen/C18.lean': '\n'.join(L)}


if __name__ == '__main__':
    import sys, json
    print(json.dumps(facts(sys.argv[1] if len(sys.argv) > 1 else '/repo/src'), indent=1))
    print(generate(sys.argv[1] if len(sys.argv) > 1 else '/repo/src')['PyramidModel/Gen/C18.lean'])
