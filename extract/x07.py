"""Translator for X07: regenerates, by RUNNING the code of the tree under test (src/pyramid/request.py
call_app_with_subpath_as_path_info, src/pyramid/wsgi.py wsgiapp / wsgiapp2, and a real Configurator + Router with
`*subpath` routes; fresh interpreter with `src_root` first on the path), the behavioural tables the mounting model is
checked against.  No AST matching: a refactoring that keeps the behaviour leaves the tables unchanged, a change of
behaviour inside the probed domain changes them and the `decide`d obligations of Props/X07.lean fail.

Probed facts (Lean data in Gen/X07.lean):
 * rewriteCube   (SCRIPT_NAME | absent, PATH_INFO | absent, subpath | attribute absent, outcome) of
                 call_app_with_subpath_as_path_info with a real Request and a reporting WSGI application,
                 over 7 x 15 x 9 values (slashes, empty / '.' / '..' elements, UTF-8 and non-UTF-8 bytes, a non-latin-1 character)
 * decoratorCube (wsgiapp | wsgiapp2, SCRIPT_NAME, PATH_INFO, subpath, outcome) through the decorators of pyramid.wsgi
 * routeCube     (prefix, PATH_INFO, outcome) through a real Router with add_route(prefix + '*subpath') and a wsgiapp2 view:
                 error before the view | no match | (request.subpath, outcome of the mounted call); SCRIPT_NAME '/s'
 * splitProbe    (text, text.split('/')) for every text of length <= 4 over {'/', 'a', '.'}          (CPython's str.split)
 * decodeProbe   (WSGI string, its reading latin-1 -> UTF-8 | error) for all 256 one-character strings and a list of
                 multi-byte sequences (overlong, surrogate, truncated, 4-byte, > U+10FFFF)           (CPython's codecs)
Fail closed: any exception, inconsistency or time-out makes `probeStatus` an "unknown: …" string and empties the tables.
"""
import json, os, subprocess, sys

summary = {}

SNS = [None, '', '/s', '/s/', 's', '/s//t', '/\xff']
PIS = [None, '', '/', '//', '/a', '/a/', '/a/b', '/a/b/', '/a//b', '/a/./b', '/a/b/..', 'a/b', '/\xc3\xa9/b', '/a/\xff', '/a/λ']
SPS = [None, [], ['a'], ['b'], ['a', 'b'], ['\xe9'], [''], ['a/b'], ['b', 'b']]
PRES = ['/mnt', '/mnt/', '/', '', 'mnt', '/a/b', '/\xe9', '/m.n']
RPIS = ['', '/', '/mnt', '/mnt/', '/mnt/a', '/mnt/a/b/', '/mntxyz/a', '/mnt/a/./b', '/mnt/a/b/..', '/a/b/c', '/mnt//a', '/mnt/\xff', '/m.n/a', '/mXn/a',
        '/\xc3\xa9/q', '/mnt/λ']
MULTI = ['\xc3\xa9', '\xc3', '\xc3\x28', '\xc0\xaf', '\xe0\x80\x80', '\xe0\xa0\x80', '\xed\xa0\x80', '\xed\x9f\xbf', '\xe2\x82\xac', '\xe2\x82',
         '\xf0\x9f\x98\x80', '\xf0\x8f\xbf\xbf', '\xf4\x8f\xbf\xbf', '\xf4\x90\x80\x80', '\xf5\x80\x80\x80', 'a\xc3\xa9b', 'λ', 'a€']


def _probe():
    out = {}
    try:
        import io, warnings
        warnings.simplefilter('ignore')
        import pyramid.request as R
        import pyramid.wsgi as W
        import pyramid.urldispatch as U
        from pyramid.config import Configurator
        out['module'] = [os.path.realpath(m.__file__) for m in (R, W, U)]

        def app(environ, start_response):
            environ['x07.sink'].append([environ.get('SCRIPT_NAME'), environ.get('PATH_INFO')])
            start_response('200 OK', [('Content-Type', 'text/plain'), ('Content-Length', '2')])
            return [b'ok']

        def environ(sn, pi):
            env = {'REQUEST_METHOD': 'GET', 'SERVER_NAME': 'localhost', 'SERVER_PORT': '80', 'SERVER_PROTOCOL': 'HTTP/1.1',
                   'wsgi.url_scheme': 'http', 'wsgi.version': (1, 0), 'wsgi.input': io.BytesIO(b''), 'wsgi.errors': io.StringIO(),
                   'wsgi.multithread': False, 'wsgi.multiprocess': False, 'wsgi.run_once': False, 'CONTENT_LENGTH': '0',
                   'QUERY_STRING': '', 'x07.sink': [], 'x07.obs': []}
            if sn is not None: env['SCRIPT_NAME'] = sn
            if pi is not None: env['PATH_INFO'] = pi
            return env

        def outcome(env, f):
            keep = (env.get('SCRIPT_NAME'), env.get('PATH_INFO'))
            try:
                resp = f()
            except (UnicodeDecodeError, UnicodeEncodeError) as e:
                if (env.get('SCRIPT_NAME'), env.get('PATH_INFO')) != keep:
                    raise RuntimeError('the original environ was modified')
                return {'err': type(e).__name__}
            if (env.get('SCRIPT_NAME'), env.get('PATH_INFO')) != keep:
                raise RuntimeError('the original environ was modified')
            sink = env['x07.sink']
            if len(sink) != 1 or resp.status_int != 200 or not all(isinstance(x, str) for x in sink[0]):
                raise RuntimeError('unexpected response / mounted application not called exactly once')
            return {'ok': sink[0]}

        def direct(sn, pi, sp, call):
            env = environ(sn, pi)
            req = R.Request(env)
            if sp is not None:
                req.subpath = tuple(sp)
            return outcome(env, lambda: call(req))
        out['rewrite'] = [[sn, pi, sp, direct(sn, pi, sp, lambda req: R.call_app_with_subpath_as_path_info(req, app))]
                          for sn in SNS for pi in PIS for sp in SPS]
        deco = []
        for kind in ('wsgiapp', 'wsgiapp2'):
            view = getattr(W, kind)(app)
            for sn in ('', '/s', '/s/'):
                for pi in ('/a/b', '/a/b/', '/', '/a/./b'):
                    for sp in ([], ['b'], ['a', 'b']):
                        deco.append([kind, sn, pi, sp, direct(sn, pi, sp, lambda req: view(None, req))])
        out['decorator'] = deco
        routes = []
        for pre in PRES:
            inner = W.wsgiapp2(app)

            def view(context, request, inner=inner):
                request.environ['x07.obs'].append([str(x) for x in request.subpath])
                return inner(context, request)
            config = Configurator()
            config.add_route('m', pre + '*subpath')
            config.add_view(view, route_name='m')
            router = config.make_wsgi_app()
            for pi in RPIS:
                env = environ('/s', pi)
                status = []
                try:
                    b''.join(router(env, lambda s, h, exc_info=None: status.append(s)))
                    err = None
                except (UnicodeDecodeError, UnicodeEncodeError) as e:
                    err = type(e).__name__
                obs = env['x07.obs']
                if not obs:
                    if err:
                        r = {'err': err}
                    elif status and status[0].startswith('404'):
                        r = {'match': False}
                    else:
                        raise RuntimeError('route probe: status %r without the view' % (status,))
                elif len(obs) != 1:
                    raise RuntimeError('view called more than once')
                elif err:
                    r = {'match': True, 'sp': obs[0], 'res': {'err': err}}
                else:
                    if len(env['x07.sink']) != 1 or not status[0].startswith('200'):
                        raise RuntimeError('route probe: mounted application not called exactly once')
                    r = {'match': True, 'sp': obs[0], 'res': {'ok': env['x07.sink'][0]}}
                routes.append([pre, pi, r])
        out['route'] = routes
        # interpreter facts
        import itertools
        out['split'] = [[''.join(t), ''.join(t).split('/')] for L in range(5) for t in itertools.product('/a.', repeat=L)]

        def dec(w):
            try:
                return {'ok': w.encode('latin-1').decode('utf-8')}
            except UnicodeDecodeError:
                return {'err': 'UnicodeDecodeError'}
            except UnicodeEncodeError:
                return {'err': 'UnicodeEncodeError'}
        out['decode'] = [[w, dec(w)] for w in [chr(c) for c in range(256)] + MULTI]
        out['status'] = 'ok'
    except BaseException as e:      # noqa — fail closed
        out = {'status': 'unknown: %s: %s' % (type(e).__name__, str(e)[:200])}
    return out


def facts(src_root):
    py = '/venv/bin/python' if os.path.exists('/venv/bin/python') else sys.executable
    env = dict(os.environ, PYTHONPATH=src_root, PYTHONWARNINGS='ignore')
    try:
        p = subprocess.run([py, os.path.abspath(__file__), '--probe', src_root], env=env, stdout=subprocess.PIPE, stderr=subprocess.PIPE,
                           timeout=300)
        f = json.loads(p.stdout.decode().strip().splitlines()[-1])
    except Exception as e:          # noqa
        return {'status': 'unknown: probe did not answer: %s' % type(e).__name__}
    if f.get('status') == 'ok':
        want = [os.path.realpath(os.path.join(src_root, 'pyramid', n)) for n in ('request.py', 'wsgi.py', 'urldispatch.py')]
        if f.get('module') != want:
            return {'status': 'unknown: the probe imported %s, not the tree under test' % f.get('module')}
        for k in ('rewrite', 'decorator', 'route', 'split', 'decode'):
            if not isinstance(f.get(k), list):
                return {'status': 'unknown: probe answer lacks %s' % k}
    return f


def _txt(s):
    return 'T [' + ', '.join(str(ord(c)) for c in s) + ']'


def _otxt(s):
    return 'none' if s is None else '(some (%s))' % _txt(s)


def _txts(xs):
    return '[' + ', '.join(_txt(x) for x in xs) + ']'


def _otxts(xs):
    return 'none' if xs is None else '(some %s)' % _txts(xs)


ERR = {'UnicodeDecodeError': '.unicodeDecode', 'UnicodeEncodeError': '.unicodeEncode', 'URLDecodeError': '.urlDecode'}


def _out(r):
    if 'err' in r:
        return '(.err %s)' % ERR[r['err']]
    return '(.ok (%s) (%s))' % (_txt(r['ok'][0]), _txt(r['ok'][1]))


def _route(r):
    if 'err' in r:
        return '(.raised %s)' % ERR[r['err']]
    if not r['match']:
        return '.noMatch'
    return '(.mounted %s %s)' % (_txts(r['sp']), _out(r['res']))


def _dec(r):
    return '(.inl %s)' % ERR[r['err']] if 'err' in r else '(.inr (%s))' % _txt(r['ok'])


def generate(src_root):
    f = facts(src_root)
    ok = f.get('status') == 'ok'
    status = f.get('status', 'unknown: no status')
    summary.clear()
    summary.update({'status': status, 'rewrite_rows': len(f.get('rewrite', [])), 'decorator_rows': len(f.get('decorator', [])),
                    'route_rows': len(f.get('route', [])), 'split_rows': len(f.get('split', [])), 'decode_rows': len(f.get('decode', []))})
    g = (lambda k: f[k]) if ok else (lambda k: [])
    rw = g('rewrite')
    chunks = [rw[i:i + 189] for i in range(0, len(rw), 189)] or [[]]
    L = ['/- GENERATED by extract/x07.py by probing the running code of src/pyramid/request.py (call_app_with_subpath_as_path_info),',
         '   src/pyramid/wsgi.py and a real Router with *subpath routes — do not edit. -/',
         'import PyramidModel.Mount',
         'namespace Pyr.Mount.Gen', '',
         'def T (cs : List Nat) : Text := cs.map Char.ofNat', '',
         '/-- "ok", or why the probe of the tree under test could not be trusted -/',
         'def probeStatus : Text := %s' % _txt(status.replace('\n', ' ')), '']
    for i, ch in enumerate(chunks):
        L += ['/-- (SCRIPT_NAME, PATH_INFO, subpath, what the mounted application saw) — part %d -/' % i,
              'def rewriteCube%d : List (Option Text × Option Text × Option (List Text) × Out) := [' % i,
              ',\n'.join('  (%s, %s, %s, %s)' % (_otxt(sn), _otxt(pi), _otxts(sp), _out(r)) for sn, pi, sp, r in ch), ']', '']
    L += ['def rewriteCubes : List (List (Option Text × Option Text × Option (List Text) × Out)) := [%s]' % ', '.join('rewriteCube%d' % i for i in range(len(chunks))), '',
          '/-- (decorator is wsgiapp2, SCRIPT_NAME, PATH_INFO, subpath, what the mounted application saw) -/',
          'def decoratorCube : List (Bool × Text × Text × List Text × Out) := [',
          ',\n'.join('  (%s, %s, %s, %s, %s)' % ('true' if k == 'wsgiapp2' else 'false', _txt(sn), _txt(pi), _txts(sp), _out(r)) for k, sn, pi, sp, r in g('decorator')), ']', '',
          '/-- (route prefix, PATH_INFO, outcome through a real Router; SCRIPT_NAME is "/s") -/',
          'def routeCube : List (Text × Text × RouteObs) := [',
          ',\n'.join('  (%s, %s, %s)' % (_txt(pre), _txt(pi), _route(r)) for pre, pi, r in g('route')), ']', '',
          "/-- (text, text.split('/')) -/",
          'def splitProbe : List (Text × List Text) := [',
          ',\n'.join('  (%s, %s)' % (_txt(t), _txts(xs)) for t, xs in g('split')), ']', '',
          "/-- (WSGI string w, w.encode('latin-1').decode('utf-8')) -/",
          'def decodeProbe : List (Text × (Err ⊕ Text)) := [',
          ',\n'.join('  (%s, %s)' % (_txt(w), _dec(r)) for w, r in g('decode')), ']', '',
          'end Pyr.Mount.Gen', '']
    return {'PyramidModel/Gen/X07.lean': '\n'.join(L)}


if __name__ == '__main__':
    if len(sys.argv) > 2 and sys.argv[1] == '--probe':
        print(json.dumps(_probe()))
    else:
        print(generate(sys.argv[1] if len(sys.argv) > 1 else '/repo/src')['PyramidModel/Gen/X07.lean'])
