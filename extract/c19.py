"""Translator for C19: regenerates, from the working tree's src/pyramid/httpexceptions.py, the table-like facts
the C19 theorems rest on.

 * every class of the module that descends from HTTPException, with `code`, `title`, `explanation`, `empty_body`
   and the texts of `body_template_obj` / `html_template_obj` / `plain_template_obj`, resolved along the (single
   inheritance) base chain; `custom` = the body template is not the one defined on HTTPException itself
 * HTTPException.prepare: the guard, the list offered to `acceptable_offers`, the `match == …` ladder (per branch:
   content type, escape function, `br`, page template, the `html_comment` expression), the `args = {…}` dict (per
   key: `br` / `html_comment` / `escape(<expr>)` / anything else = raw), the two loops that add environ and header
   values for custom templates, the two `substitute` calls, `_json_formatter`'s dict and `json.dumps`
 * `_no_escape`

Anything that does not have the expected shape is reported in `problems` (and `translatorOk := false`) and/or
emitted as an `unknown`/`raw` entry; the `decide`d obligations of Props/C19.lean then fail.
"""
import ast, os

summary = {}


def _u(node):
    return ast.unparse(node) if node is not None else None


def _const_str(node):
    return node.value if isinstance(node, ast.Constant) and isinstance(node.value, str) else None


def _template_text(node):
    """Template('…') -> text"""
    if (isinstance(node, ast.Call) and isinstance(node.func, ast.Name) and node.func.id == 'Template'
            and len(node.args) == 1 and not node.keywords):
        return _const_str(node.args[0])
    return None


CLASS_ATTRS = ('code', 'title', 'explanation', 'empty_body', 'body_template_obj', 'html_template_obj', 'plain_template_obj')


def class_table(tree, problems):
    own, bases, order = {}, {}, []
    for n in tree.body:
        if not isinstance(n, ast.ClassDef):
            continue
        attrs = {}
        for st in n.body:
            if isinstance(st, ast.Assign) and len(st.targets) == 1 and isinstance(st.targets[0], ast.Name):
                k = st.targets[0].id
                if k in CLASS_ATTRS:
                    attrs[k] = st.value
        own[n.name] = attrs
        bases[n.name] = [b.id for b in n.bases if isinstance(b, ast.Name)]
        order.append(n.name)
    if 'HTTPException' not in own:
        problems.append('class HTTPException not found')
        return []

    def descends(c, seen=()):
        if c == 'HTTPException':
            return True
        return any(b in own and b not in seen and descends(b, seen + (c,)) for b in bases.get(c, []))

    def resolve(c, k):
        """(value node, defining class) along the first in-module base chain"""
        cur, hops = c, 0
        while cur in own and hops < 50:
            if k in own[cur]:
                return own[cur][k], cur
            nxt = [b for b in bases[cur] if b in own]
            if len(nxt) > 1:
                problems.append('class %s has several in-module bases' % cur)
            if not nxt:
                return None, None
            cur, hops = nxt[0], hops + 1
        return None, None

    out = []
    for c in order:
        if not descends(c):
            continue
        rec = {'name': c}
        v, _ = resolve(c, 'code')
        rec['code'] = v.value if isinstance(v, ast.Constant) and isinstance(v.value, int) and not isinstance(v.value, bool) else None
        for k in ('title', 'explanation'):
            v, _ = resolve(c, k)
            rec[k] = _const_str(v)
        v, _ = resolve(c, 'empty_body')
        rec['empty_body'] = v.value if isinstance(v, ast.Constant) and isinstance(v.value, bool) else None
        for k, key in (('body_template_obj', 'body'), ('html_template_obj', 'html'), ('plain_template_obj', 'plain')):
            v, where = resolve(c, k)
            rec[key] = _template_text(v)
            if k == 'body_template_obj':
                rec['custom'] = where != 'HTTPException'
        bad = [k for k in ('code', 'title', 'explanation', 'empty_body', 'body', 'html', 'plain') if rec[k] is None]
        if bad:
            problems.append('class %s: cannot read %s' % (c, ','.join(bad)))
            for k in bad:
                rec[k] = 0 if k == 'code' else False if k == 'empty_body' else '$'   # '$' is an invalid template
        out.append(rec)
    return out


def _find_method(tree, cls, name):
    for n in tree.body:
        if isinstance(n, ast.ClassDef) and n.name == cls:
            for f in n.body:
                if isinstance(f, ast.FunctionDef) and f.name == name:
                    return f
    return None


def _assigns(stmts):
    """{target source: value node} of the simple assignments directly in stmts"""
    d = {}
    for st in stmts:
        if isinstance(st, ast.Assign) and len(st.targets) == 1:
            d[_u(st.targets[0])] = st.value
    return d


def prepare_facts(tree, problems):
    f = _find_method(tree, 'HTTPException', 'prepare')
    out = {'guard': 'unknown', 'offered': ['unknown'], 'match_expr': 'unknown', 'branches': [], 'args': [],
           'custom_test': 'unknown', 'loops': [], 'body_subst': 'unknown', 'page_subst': 'unknown', 'encode': 'unknown'}
    if f is None or len(f.body) != 1 or not isinstance(f.body[0], ast.If) or f.body[0].orelse:
        problems.append('prepare: expected a single guarded block')
        return out
    top = f.body[0]
    out['guard'] = _u(top.test)
    body = top.body
    top_as = _assigns(body)
    # comment = self.comment or '' ; html_comment = ''
    out['comment_init'] = _u(top_as.get('comment'))
    out['html_comment_init'] = _u(top_as.get('html_comment'))
    # offers
    offers = None
    for n in ast.walk(top):
        if isinstance(n, ast.Call) and isinstance(n.func, ast.Attribute) and n.func.attr == 'acceptable_offers':
            if len(n.args) == 1 and isinstance(n.args[0], ast.List) and all(_const_str(e) is not None for e in n.args[0].elts):
                offers = [e.value for e in n.args[0].elts]
    if offers is None:
        problems.append('prepare: acceptable_offers([...]) call not found')
    else:
        out['offered'] = offers
    out['acceptable_expr'] = _u([st.value for st in body if isinstance(st, ast.Assign) and _u(st.targets[0]) == 'acceptable'][-1]) \
        if any(isinstance(st, ast.Assign) and _u(st.targets[0]) == 'acceptable' for st in body) else 'unknown'
    out['match_expr'] = _u(top_as.get('match'))
    # the ladder
    ladder = [st for st in body if isinstance(st, ast.If) and isinstance(st.test, ast.Compare) and _u(st.test.left) == 'match']
    if len(ladder) != 1:
        problems.append('prepare: match ladder not found')
    else:
        cur = ladder[0]
        while True:
            br = _branch(cur.body, _u(cur.test))
            out['branches'].append(br)
            if len(cur.orelse) == 1 and isinstance(cur.orelse[0], ast.If):
                cur = cur.orelse[0]
            else:
                out['branches'].append(_branch(cur.orelse, 'else'))
                break
    # args dict
    a = top_as.get('args')
    if not isinstance(a, ast.Dict):
        problems.append('prepare: args = {...} not found')
    else:
        for k, v in zip(a.keys, a.values):
            key = _const_str(k)
            if key is None:
                out['args'].append(('unknown', 'unknown', _u(k)))
            elif isinstance(v, ast.Name) and v.id in ('br', 'html_comment'):
                out['args'].append((key, v.id, ''))
            elif isinstance(v, ast.Call) and _u(v.func) == 'escape' and len(v.args) == 1 and not v.keywords:
                out['args'].append((key, 'escaped', _u(v.args[0])))
            else:
                out['args'].append((key, 'raw', _u(v)))
    # custom-template block
    out['body_tmpl_expr'] = _u(top_as.get('body_tmpl'))
    cust = [st for st in body if isinstance(st, ast.If) and 'body_template_obj' in _u(st.test)]
    if len(cust) != 1 or cust[0].orelse:
        problems.append('prepare: custom-template block not found')
    else:
        out['custom_test'] = _u(cust[0].test)
        for st in cust[0].body:
            if not isinstance(st, ast.For):
                out['loops'].append(('unknown', _u(st), '', '', ''))
                continue
            skip, assign = '', None
            for s in st.body:
                if isinstance(s, ast.If) and len(s.body) == 1 and isinstance(s.body[0], ast.Continue) and not s.orelse:
                    skip = _u(s.test)
                elif isinstance(s, ast.Assign) and assign is None:
                    assign = s
                else:
                    assign = 'bad'
            if not isinstance(assign, ast.Assign):
                out['loops'].append(('unknown', _u(st.iter), '', '', ''))
                continue
            tgt, val = assign.targets[0], assign.value
            kind = 'escaped' if (isinstance(val, ast.Call) and _u(val.func) == 'escape' and len(val.args) == 1) else 'raw'
            out['loops'].append((_u(st.iter), _u(st.target), skip, _u(tgt), kind + ':' + (_u(val.args[0]) if kind == 'escaped' else _u(val))))
    out['body_subst'] = _u(top_as.get('body'))
    out['page_subst'] = _u(top_as.get('page'))
    enc = [st for st in body if isinstance(st, ast.If) and 'isinstance(page' in _u(st.test)]
    out['encode'] = _u(enc[0].body[0]) if len(enc) == 1 and len(enc[0].body) == 1 else 'unknown'
    # statement order of the tail: args, body_tmpl, custom block, body, page
    names = []
    for st in body:
        if isinstance(st, ast.Assign):
            names.append(_u(st.targets[0]))
        elif isinstance(st, ast.If):
            names.append('if:' + ('match' if st in ladder else 'custom' if st in cust else 'encode' if st in enc else 'other'))
        else:
            names.append(type(st).__name__)
    keep = {'args', 'body_tmpl', 'body', 'page', 'match', 'if:match', 'if:custom', 'if:encode', 'if:other', 'self.app_iter', 'self.body'}
    out['order'] = [n for n in names if n in keep or not n.replace('_', '').replace('.', '').isalnum()]
    return out


def _branch(stmts, test):
    a = _assigns(stmts)
    hc = 'none'
    for st in stmts:
        if isinstance(st, ast.If) and _u(st.test) == 'comment' and len(st.body) == 1 and not st.orelse:
            hc = _u(_assigns(st.body).get('html_comment'))
        elif isinstance(st, ast.If):
            hc = 'unknown'
    pt = a.get('page_template')
    return {'test': test, 'content_type': _const_str(a.get('self.content_type')) or 'unknown',
            'charset': _u(a.get('self.charset')) if 'self.charset' in a else '',
            'escape': _u(a.get('escape')) or 'unknown', 'br': _const_str(a.get('br')) if _const_str(a.get('br')) is not None else 'unknown',
            'page': _u(pt) or 'unknown', 'html_comment': hc or 'unknown',
            'json_page': _json_page(stmts)}


def _json_page(stmts):
    """the JsonPageTemplate class of the JSON branch: substitute returns json.dumps(self.excobj._json_formatter(...))"""
    for st in stmts:
        if isinstance(st, ast.ClassDef):
            for f in st.body:
                if isinstance(f, ast.FunctionDef) and f.name == 'substitute':
                    return ' ; '.join(_u(s) for s in f.body)
    return ''


def facts(src_root):
    path = os.path.join(src_root, 'pyramid', 'httpexceptions.py')
    src = open(path).read()
    tree = ast.parse(src)
    problems = []
    out = {'classes': class_table(tree, problems)}
    out.update(prepare_facts(tree, problems))
    f = _find_method(tree, 'HTTPException', '_json_formatter')
    jf = 'unknown'
    if f is not None and len(f.body) == 1 and isinstance(f.body[0], ast.Return):
        jf = _u(f.body[0].value)
    out['json_formatter'] = jf
    ne = [n for n in tree.body if isinstance(n, ast.FunctionDef) and n.name == '_no_escape']
    out['no_escape'] = ' ; '.join(_u(s) for s in ne[0].body) if ne else 'unknown'
    imp = 'unknown'
    for n in tree.body:
        if isinstance(n, ast.ImportFrom):
            for al in n.names:
                if (al.asname or al.name) == '_html_escape':
                    imp = '%s.%s' % (n.module, al.name)
    out['html_escape_import'] = imp
    # __call__ must prepare before delegating
    f = _find_method(tree, 'HTTPException', '__call__')
    out['call'] = ' ; '.join(_u(s) for s in f.body) if f else 'unknown'
    out['problems'] = problems
    summary.clear()
    summary.update({'classes': len(out['classes']), 'offered': out['offered'], 'args': [a[:2] for a in out['args']],
                    'branches': [(b['test'], b['content_type'], b['escape']) for b in out['branches']], 'problems': problems})
    return out


# ---- Lean emission ----------------------------------------------------------------------------------------

def _lchar(ch):
    o = ord(ch)
    if ch == '\n':
        return "'\\n'"
    if ch == "'":
        return "'\\''"
    if ch == '\\':
        return "'\\\\'"
    if 32 <= o < 127:
        return "'%s'" % ch
    return "Char.ofNat %d" % o


def _ltext(s):
    return '[' + ', '.join(_lchar(c) for c in s) + ']'


def _lstr(s):
    out = ['"']
    for ch in str(s):
        o = ord(ch)
        if ch == '"':
            out.append('\\"')
        elif ch == '\\':
            out.append('\\\\')
        elif ch == '\n':
            out.append('\\n')
        elif 32 <= o < 127:
            out.append(ch)
        else:
            out.append('\\u{%x}' % o)
    out.append('"')
    return ''.join(out)


def _lbool(b):
    return 'true' if b else 'false'


def generate(src_root):
    f = facts(src_root)
    L = ['import PyramidModel.HttpExc',
         '/-! GENERATED by extract/c19.py from src/pyramid/httpexceptions.py — do not edit. -/',
         'namespace Pyr.Gen.C19',
         'open Pyr Pyr.HttpExc', '',
         '/-- false when the translator met a shape it does not understand -/',
         'def translatorOk : Bool := ' + _lbool(not f['problems']),
         'def problems : List String := [' + ', '.join(_lstr(p) for p in f['problems']) + ']', '']
    # distinct template texts get names, so the class table stays readable
    texts = {}
    for c in f['classes']:
        for k in ('body', 'html', 'plain'):
            texts.setdefault(c[k], 'tmpl%d' % len(texts))
    for t, nm in texts.items():
        L += ['/-- %s -/' % _lstr(t).replace('-/', '- /'), 'def %s : Text := %s' % (nm, _ltext(t)), '']
    base = [c for c in f['classes'] if c['name'] == 'HTTPException']
    if base:
        L += ['/-- the templates defined on HTTPException itself -/',
              'def defaultBodyTmpl : Text := ' + texts[base[0]['body']],
              'def defaultHtmlTmpl : Text := ' + texts[base[0]['html']],
              'def defaultPlainTmpl : Text := ' + texts[base[0]['plain']], '']
    L += ['/-- every class of the module that descends from HTTPException (attributes resolved along the base chain) -/',
          'def classes : List ClassInfo := [']
    for c in f['classes']:
        L.append('  { name := %s, code := %d, title := %s, explanation := %s,\n    bodyTmpl := %s, custom := %s, emptyBody := %s, htmlTmpl := %s, plainTmpl := %s },' % (
            _lstr(c['name']), c['code'], _ltext(c['title']), _ltext(c['explanation']), texts[c['body']],
            _lbool(c['custom']), _lbool(c['empty_body']), texts[c['html']], texts[c['plain']]))
    if f['classes']:
        L[-1] = L[-1].rstrip(',')
    L += [']', '',
          '/-- `if <guard>:` around the whole of prepare -/',
          'def guard : String := ' + _lstr(f['guard']),
          '/-- the list passed to `accept.acceptable_offers` -/',
          'def offered : List Text := [' + ', '.join(_ltext(o) for o in f['offered']) + ']',
          'def acceptableExpr : String := ' + _lstr(f.get('acceptable_expr', 'unknown')),
          'def matchExpr : String := ' + _lstr(f['match_expr']),
          'def commentInit : String := ' + _lstr(f.get('comment_init')),
          'def htmlCommentInit : String := ' + _lstr(f.get('html_comment_init')), '',
          'structure Branch where', '  test : String', '  contentType : String', '  contentTypeT : Text', '  charset : String',
          '  escape : String', '  br : String', '  brT : Text', '  page : String', '  htmlComment : String', '  jsonPage : String',
          'deriving Repr, DecidableEq', '',
          '/-- the `if match == … elif … else` ladder, in source order -/',
          'def branches : List Branch := [']
    for b in f['branches']:
        L.append('  ⟨%s, %s, %s, %s, %s, %s, %s, %s, %s, %s⟩,' % (
            _lstr(b['test']), _lstr(b['content_type']), _ltext(b['content_type']), _lstr(b['charset']), _lstr(b['escape']),
            _lstr(b['br']), _ltext(b['br']), _lstr(b['page']), _lstr(b['html_comment']), _lstr(b['json_page'])))
    if f['branches']:
        L[-1] = L[-1].rstrip(',')
    L += [']', '',
          'inductive ArgSrc where', '  | br', '  | htmlComment', '  | escaped (expr : String)', '  | raw (expr : String)',
          '  | unknown (src : String)', 'deriving Repr, DecidableEq', '',
          '/-- the `args = {…}` dict literal, in source order -/',
          'def argsTable : List (String × ArgSrc) := [']
    for key, kind, expr in f['args']:
        src = {'br': '.br', 'html_comment': '.htmlComment', 'escaped': '.escaped ' + _lstr(expr), 'raw': '.raw ' + _lstr(expr),
               'unknown': '.unknown ' + _lstr(expr)}[kind]
        L.append('  (%s, %s),' % (_lstr(key), src))
    if f['args']:
        L[-1] = L[-1].rstrip(',')
    L += [']', '',
          'def bodyTmplExpr : String := ' + _lstr(f.get('body_tmpl_expr')),
          'def customTest : String := ' + _lstr(f['custom_test']),
          '/-- the loops of the custom-template block: (iterable, loop target, skip condition, assigned target, value) -/',
          'def customLoops : List (String × String × String × String × String) := [' +
          ', '.join('(%s, %s, %s, %s, %s)' % tuple(_lstr(x) for x in l) for l in f['loops']) + ']',
          'def bodySubst : String := ' + _lstr(f['body_subst']),
          'def pageSubst : String := ' + _lstr(f['page_subst']),
          'def encodeStmt : String := ' + _lstr(f['encode']),
          'def stmtOrder : List String := [' + ', '.join(_lstr(x) for x in f.get('order', ['unknown'])) + ']',
          'def jsonFormatter : String := ' + _lstr(f['json_formatter']),
          'def noEscapeBody : String := ' + _lstr(f['no_escape']),
          'def htmlEscapeImport : String := ' + _lstr(f['html_escape_import']),
          'def callBody : String := ' + _lstr(f['call']),
          '', 'end Pyr.Gen.C19', '']
    return {'PyramidModel/Gen/C19.lean': '\n'.join(L)}


if __name__ == '__main__':
    import sys, json
    root = sys.argv[1] if len(sys.argv) > 1 else '/repo/src'
    fx = facts(root)
    print(json.dumps({k: v for k, v in fx.items() if k != 'classes'}, indent=1))
    print(len(fx['classes']), 'classes')
    print(generate(root)['PyramidModel/Gen/C19.lean'][:3000])
