"""Translator for C19: regenerates the facts the C19 theorems rest on by RUNNING pyramid.httpexceptions of the tree
under test (imported from `src_root`) and probing it over finite domains — nothing is pattern-matched from the AST,
so any refactoring that preserves behaviour gives the same tables and any that does not changes them.

 * class table: every class of the module that descends from HTTPException, attributes read from the class object
   (`code`, `title`, `explanation`, `empty_body`, the three template texts; `custom` = `cls.body_template_obj is not
   HTTPException.body_template_obj`); `prepareShared` = every class uses HTTPException's `prepare` and `__call__`
 * render probes (each = a complete model input + what the real code did), decided in Lean against the model:
     class    every class x {html, json, plain}: hostile sentinel for every substitution variable the class's own
              body template can see (detail, comment, Location header, REQUEST_METHOD)
     ascii    one variable per render (explanation, detail, comment, html_comment, br, an environ value, a header
              value) x 3 forms x inputs {all 128 ASCII characters in one text, each metacharacter alone, `$`-syntax,
              character references, non-ASCII incl. astral}: the escape each variable receives, exhaustively over ASCII
     neg      Accept headers: q(html), q(json), q(plain) in {absent, 0, 0.3, 0.5, 1}^3 plus a fixed list (absent,
              empty, wildcards, single ranges with parameters, malformed): which form is chosen
     guard    has_body x empty_body
     custom   custom templates: override order base < environ < headers, header-name lower-casing, default template
              ignores the extras, page templates used per form, `$`-syntax in values at both substitution levels,
              missing key, ill-formed placeholder
     wsgi     calling the exception as a WSGI application; router404 = the Router's own 404 for sentinel paths
 * environ-key filter (not observable in the output because dotted names cannot be placeholders): values whose
   `__str__` logs the call, over a domain of key shapes

Fails closed: an unexpected exception or value becomes `Observed.unknown` / `translatorOk := false`, and the decided
obligations of Props/C19.lean fail.
"""
import io, json, os, sys

summary = {}

FORMS = ['text/html', 'application/json', 'text/plain']
FORM_LEAN = {'text/html': '.html', 'application/json': '.json', 'text/plain': '.plain'}

ALL_ASCII = ''.join(chr(i) for i in range(128))
PRINTABLE = ''.join(chr(i) for i in range(32, 127))
INPUTS = [ALL_ASCII, '<', '>', '&', '"', "'", '$', '$$', '${br}', '$detail', '${detail}', '${status}', '${body}', '$body', '&amp;', '&#60;',
          '<script>alert(1)</script>', '-->', 'é', ' ', '\U0001f600', '￿', '\x7f\x80', '']
HOSTILE = '<&>"\'$$${br}$x'


def _load(src_root):
    src_root = os.path.realpath(src_root)
    if src_root not in [os.path.realpath(p) for p in sys.path[:1]]:
        sys.path.insert(0, src_root)
    from pyramid import httpexceptions as HX
    if not os.path.realpath(HX.__file__).startswith(src_root + os.sep):
        raise RuntimeError('pyramid.httpexceptions was imported from %s, not from %s' % (HX.__file__, src_root))
    return HX


def _q(accept):
    from webob.acceptparse import create_accept_header
    offers = dict(create_accept_header(accept if accept is not None else '').acceptable_offers(FORMS))
    return [int(round(offers.get(m, 0) * 1000)) for m in FORMS]


def _class_record(HX, cls, name=None):
    rec = {'name': name or cls.__name__}
    problems = []
    for k, typ in (('code', int), ('title', str), ('explanation', str), ('empty_body', bool)):
        v = getattr(cls, k, None)
        if not isinstance(v, typ) or (typ is int and isinstance(v, bool)):
            problems.append('class %s: %s is %r' % (rec['name'], k, v))
            v = 0 if typ is int else False if typ is bool else '$'
        rec[k] = v
    for k, key in (('body_template_obj', 'body'), ('html_template_obj', 'html'), ('plain_template_obj', 'plain')):
        t = getattr(getattr(cls, k, None), 'template', None)
        if not isinstance(t, str):
            problems.append('class %s: %s has no template text' % (rec['name'], k))
            t = '$'            # an invalid template
        rec[key] = t
    rec['custom'] = cls.body_template_obj is not HX.HTTPException.body_template_obj
    return rec, problems


def _environ(accept, extra=()):
    env = {'REQUEST_METHOD': 'GET', 'SCRIPT_NAME': '', 'PATH_INFO': '/', 'QUERY_STRING': '', 'SERVER_NAME': 'localhost',
           'SERVER_PORT': '80', 'HTTP_HOST': 'localhost:80', 'SERVER_PROTOCOL': 'HTTP/1.0'}
    for k, v in extra:
        env[k] = v
    if accept is not None:
        env['HTTP_ACCEPT'] = accept
    return env


def _observe(fn):
    """run a rendering, canonicalise what happened"""
    try:
        ctype, header, body, empty = fn()
    except KeyError as e:
        return ('key', e.args[0]) if e.args and isinstance(e.args[0], str) else ('unknown', 'KeyError %r' % (e.args,))
    except ValueError as e:
        return ('invalid',) if 'Invalid placeholder' in str(e) else ('unknown', 'ValueError %s' % e)
    except Exception as e:
        return ('unknown', '%s: %s' % (type(e).__name__, str(e)[:80]))
    if empty:
        return ('untouched',) if not body else ('unknown', 'untouched response has a body')
    try:
        if not isinstance(ctype, str) or not isinstance(header, str):
            return ('unknown', 'content type %r / header %r' % (ctype, header))
        return ('ok', ctype, header, body.decode('utf-8'))
    except Exception as e:
        return ('unknown', 'body: %s' % e)


class Prober:
    def __init__(self, HX):
        self.HX = HX
        self.probes = []
        self.problems = []
        self.adhoc = 0

    def subclass(self, base, **attrs):
        from string import Template
        d = {}
        for k, v in attrs.items():
            d[k] = Template(v) if k.endswith('_template_obj') else v
        self.adhoc += 1
        return type('Probe%d' % self.adhoc, (base,), d)

    def probe(self, kind, cls, accept, detail=None, comment=None, explanation=None, body_template=None, headers=(), environ=(),
              has_body=False, location=None, mode='prepare', cls_name=None, q=None, ctor_kw=None, after=(), via_code=None):
        HX = self.HX
        rec, pr = _class_record(HX, cls, cls_name)
        self.problems += pr
        kw = {}
        if location is not None:
            kw['location'] = location
        if body_template is not None:
            kw['body_template'] = body_template
        kw.update(ctor_kw or {})
        try:
            if via_code is not None:
                exc = HX.exception_response(via_code, detail=detail, comment=comment, headers=[tuple(h) for h in headers] or None, **kw)
                if type(exc) is not cls:
                    raise RuntimeError('exception_response(%r) gave %s' % (via_code, type(exc).__name__))
            else:
                exc = cls(detail=detail, comment=comment, headers=[tuple(h) for h in headers] or None, **kw)
            if explanation is not None:
                exc.explanation = explanation
            if has_body:
                exc.body = b'already there'
            for attr, val in after:
                if val == '<del>':
                    delattr(exc, attr)
                else:
                    setattr(exc, attr, val)
            hdrs = [[k, v] for k, v in exc.headers.items()]
            has_body = bool(exc.has_body)
        except Exception as e:
            self.problems.append('probe %s/%s: cannot construct: %s' % (kind, rec['name'], e))
            return None
        env = _environ(accept, environ)
        before_iter = exc.app_iter
        before_copy = list(before_iter) if isinstance(before_iter, list) else None

        def run():
            if mode == 'prepare':
                exc.prepare(env)
                body = b'' if has_body else exc.body
            else:
                e2 = dict(env)
                e2.update({'wsgi.version': (1, 0), 'wsgi.url_scheme': 'http', 'wsgi.input': io.BytesIO(b''), 'wsgi.errors': sys.stderr,
                           'wsgi.multithread': False, 'wsgi.multiprocess': False, 'wsgi.run_once': False})
                body = b''.join(exc(e2, lambda *a, **k: None))
            if has_body:
                same = (exc.app_iter is before_iter and (before_copy is None or list(exc.app_iter) == before_copy)
                        and [[k, v] for k, v in exc.headers.items()] == hdrs) if mode == 'prepare' else True
                return None, None, b'' if same else b'changed', True
            if exc.empty_body:
                return None, None, body, True
            return exc.content_type, exc.headers.get('Content-Type'), body, False
        obs = _observe(run)
        for attr, val in after:
            if attr == 'detail': detail = val
            if attr == 'comment': comment = val
        def _split(v):
            if v is not None and hasattr(v, '__html__'):
                return str.__str__(v) if isinstance(v, str) else str(v), v.__html__()
            return v, None
        detail, detail_html = _split(detail)
        comment, comment_html = _split(comment)
        explanation, explanation_html = _split(explanation)
        p = {'detail_html': detail_html, 'comment_html': comment_html, 'explanation_html': explanation_html, 'kind': kind, 'cls': rec, 'named': cls_name is None and cls.__module__ == HX.__name__ and getattr(HX, cls.__name__, None) is cls,
             'detail': detail, 'comment': comment, 'explanation': explanation, 'body_template': kw.get('body_template', body_template), 'has_body': has_body,
             'headers': hdrs, 'environ': [[k, v] for k, v in environ] + ([['HTTP_ACCEPT', accept]] if accept is not None else []),
             'q': q if q is not None else _q(accept),
             'observed': obs, 'accept': accept}
        self.probes.append(p)
        return p


def _probe_all(HX, classes):
    P = Prober(HX)
    E = HX.HTTPException
    move = getattr(HX, '_HTTPMove', None)
    # --- every class x every form, hostile sentinels
    for cls in classes:
        for acc in FORMS:
            kw = {}
            if move is not None and issubclass(cls, move):
                kw['location'] = 'http://e.com/L' + HOSTILE
            P.probe('class', cls, acc, detail='D' + HOSTILE, comment='C' + HOSTILE + '-->', environ=[('REQUEST_METHOD', 'M' + HOSTILE)], **kw)
            if acc == 'text/html':
                P.probe('class', cls, acc, detail=None, comment=None, **kw)
    # --- which escape each variable receives, one variable per render
    ident = dict(html_template_obj='${body}', plain_template_obj='${body}')
    for var, tmpl in (('explanation', '${explanation}'), ('detail', '${detail}'), ('comment', '${comment}'), ('html_comment', '${html_comment}'),
                      ('br', '${br}|${detail}'), ('env', '${REQUEST_METHOD}'), ('hdr', '${x_hdr}')):
        cls = P.subclass(E, body_template_obj=tmpl, **ident)
        for acc in FORMS:
            for s in INPUTS:
                if var == 'hdr' and s == ALL_ASCII:
                    s = PRINTABLE
                a = dict(detail='d', comment=None)
                if var == 'explanation': a['explanation'] = s
                elif var == 'detail' or var == 'br': a['detail'] = s
                elif var in ('comment', 'html_comment'): a['comment'] = s
                elif var == 'env': a['environ'] = [('REQUEST_METHOD', s)]
                elif var == 'hdr': a['headers'] = [('X_Hdr', s)]
                P.probe('ascii:' + var, cls, acc, cls_name='P_' + var, **a)
    # --- negotiation
    qs = [None, '0', '0.3', '0.5', '1']
    nf = HX.HTTPNotFound
    tiny = P.subclass(E, body_template_obj='${detail}', **ident)
    for a in qs:
        for b in qs:
            for c in qs:
                parts = [m if q == '1' and m != 'text/plain' else '%s;q=%s' % (m, q) for m, q in zip(FORMS, (a, b, c)) if q is not None]
                for order in (parts, parts[::-1]):
                    P.probe('neg', tiny, ', '.join(order), detail='x', cls_name='P_tiny')
    for acc in [None, '', '*/*', 'text/*', 'application/*', 'text/html', 'application/json', 'text/plain', 'text/html;q=0', 'application/json;q=0',
                'text/plain;q=0', 'text/html;level=1', 'application/json;q=1.5', 'text/plain;q=abc', 'TEXT/HTML', ' text/plain ', 'text/html;q=0, */*',
                '*/*;q=0.1, text/plain', 'text/plain, text/html;q=0.5', 'text/*;q=0.5, application/json;q=0.5', 'image/png', 'garbage;;', ',', 'q=1',
                '*/*;q=0', 'text/html; q=0.5', 'application/json;q=0.001', 'text/*, text/html;q=0.2', 'text/html;q=0.5, text/plain;q=0.5',
                'application/*;q=0.9, text/*;q=0.8', 'text/plain;level=2, application/json']:
        P.probe('neg', tiny, acc, detail='x', cls_name='P_tiny')
    for acc in (None, '', '*/*', 'text/plain, text/html;q=0.5', 'application/json;q=0'):
        P.probe('neg', nf, acc, detail='x')
    # --- guard
    for base_empty in (False, True):
        cls = P.subclass(E, empty_body=base_empty)
        for hb in (False, True):
            if base_empty and hb:
                continue            # an empty_body class deletes content_length; setting a body there is not the guard's business
            P.probe('guard', cls, 'text/html', detail='x', has_body=hb, cls_name='P_guard_%s' % base_empty)
    # --- custom templates: extras, override order, lower-casing, page templates, both substitution levels, errors
    c_det = P.subclass(E, body_template_obj='[${detail}]')
    P.probe('custom', c_det, 'text/html', detail='B<', cls_name='P_det')
    P.probe('custom', c_det, 'text/html', detail='B<', environ=[('detail', 'E<')], cls_name='P_det')
    P.probe('custom', c_det, 'text/html', detail='B<', headers=[('Detail', 'H<')], cls_name='P_det')
    P.probe('custom', c_det, 'text/html', detail='B<', environ=[('detail', 'E<')], headers=[('Detail', 'H<'), ('DETAIL', 'H2<')], cls_name='P_det')
    P.probe('custom', nf, 'text/html', detail='B<', environ=[('detail', 'E<'), ('br', 'X')], headers=[('Detail', 'H<')])       # default template ignores extras
    P.probe('custom', nf, 'text/html', detail='B<', body_template='${detail}|${br}|$html_comment', comment='c>', environ=[('br', '<E>')])
    c_hdr = P.subclass(E, body_template_obj='${x_hdr}')
    P.probe('custom', c_hdr, 'text/plain', headers=[('X_Hdr', 'v')], cls_name='P_hdr')
    c_hdr2 = P.subclass(E, body_template_obj='${X_Hdr}')
    P.probe('custom', c_hdr2, 'text/plain', headers=[('X_Hdr', 'v')], cls_name='P_hdr2')
    c_page = P.subclass(E, body_template_obj='${detail}|$$|$detail', html_template_obj='H[$status|${body}|$$|${body}]',
                        plain_template_obj='P[${status}|$body]')
    for acc in FORMS:
        P.probe('custom', c_page, acc, detail='<${body}$status$$${detail}>', cls_name='P_page')
    c_bad = P.subclass(E, html_template_obj='${body}${nope}', plain_template_obj='${body} $')
    for acc in FORMS:
        P.probe('custom', c_bad, acc, detail='x', cls_name='P_bad')
    for t in ('${nope}', '${detail} $ 5', '$', '${detail', '$1', '${}', '$ſ', '${K}', '$dEtail', '$_x', '${detail}$$$detail'):
        P.probe('custom', nf, 'text/html', detail='x', body_template=t)
    # --- the caller-visible constructor surface that survives into prepare()
    br_cls = HX.HTTPBadRequest
    settings = [dict(ctor_kw={'content_type': x}) for x in ('text/html', 'application/json', 'text/plain', 'image/png', 'application/xml',
                                                           'text/plain; charset=latin-1', 'application/json; charset=utf-8', 'TEXT/HTML')]
    settings += [dict(ctor_kw={'charset': 'latin-1'}), dict(ctor_kw={'charset': None}), dict(ctor_kw={'content_type': 'application/json', 'charset': 'utf-8'}),
                 dict(headers=[('Content-Type', 'application/json')]), dict(headers=[('content-type', 'image/png; x=1'), ('CONTENT-TYPE', 'text/plain')]),
                 dict(after=[('content_type', 'application/json')]), dict(after=[('content_type', 'text/plain')]), dict(after=[('charset', 'latin-1')]),
                 dict(after=[('content_type', '<del>')]), dict(after=[('content_type', 'image/png'), ('charset', 'utf-16')]),
                 dict(ctor_kw={'body': b'given'}), dict(ctor_kw={'text': 'given'}), dict(ctor_kw={'app_iter': [b'given']}), dict(ctor_kw={'body': b''}),
                 dict(ctor_kw={'json_body': {'a': 1}}), dict(ctor_kw={'body': b'given', 'content_type': 'application/json'}),
                 dict(via_code=400, ctor_kw={'content_type': 'text/plain'}), dict(via_code=400, ctor_kw={'content_type': 'application/json'}),
                 dict(via_code=400), dict(after=[('detail', 'late<'), ('comment', 'late-->')])]
    for st in settings:
        for acc in FORMS + ['*/*']:
            P.probe('ctor', br_cls, acc, detail='D<&', **st)
    for cls, code, kw in ((nf, 404, {}), (HX.HTTPFound, 302, {'location': '/L<'})):
        for st in (dict(ctor_kw={'content_type': 'application/json'}), dict(ctor_kw={'content_type': 'text/plain'}),
                   dict(after=[('content_type', 'application/json')]), dict(via_code=code, ctor_kw={'content_type': 'application/json'}),
                   dict(headers=[('Content-Type', 'text/plain')])):
            for acc in FORMS + ['*/*']:
                P.probe('ctor', cls, acc, detail='D<&', **dict(kw, **st))
    # --- values that are markup objects (a str subclass with __html__, like markupsafe.Markup): html_escape returns __html__() verbatim
    class M(str):
        def __new__(cls, text, html):
            self = str.__new__(cls, text)
            self._h = html
            return self

        def __html__(self):
            return self._h
    c_m = P.subclass(E, body_template_obj='${explanation}|${detail}|${comment}|${html_comment}')
    for acc in FORMS:
        P.probe('markup', c_m, acc, detail=M('d<', '<i>D</i>&'), comment=M('c<', '<u>C</u>'), explanation=M('e<', '<b>E</b>'), cls_name='P_markup')
        P.probe('markup', c_m, acc, detail=M('', '<i>empty text is falsy</i>'), comment=M('', '<u>C</u>'), explanation=M('', '<b>E</b>'), cls_name='P_markup')
        P.probe('markup', c_m, acc, detail=M('d<', '<i>D</i>'), comment='plain<', cls_name='P_markup')
        P.probe('markup', nf, acc, detail=M('/p<', '/p<raw>'), comment=None)
    # --- as WSGI application
    for cls in (nf, HX.HTTPFound, HX.HTTPMethodNotAllowed, HX.HTTPNoContent):
        for acc in FORMS:
            kw = {'location': '/L' + HOSTILE} if cls is HX.HTTPFound else {}
            P.probe('wsgi', cls, acc, detail='D' + HOSTILE, comment='C' + HOSTILE, environ=[('REQUEST_METHOD', 'M' + HOSTILE)], mode='wsgi', **kw)
    return P


HOSTILE_REQ = [('', '', 'localhost:80'),
               ('c<b>"\'&\u00e9/v<i>$$${detail}', 'q=<script>alert(1)</script>&a=1&b="2\'', 'ho<st>&"\':80')]
ROUTER_ATTRS = ['detail', 'comment', 'message', 'explanation', 'header']
ROUTER_KINDS = ['notfound', 'forbidden', 'mismatch', 'multiview_mismatch', 'route_without_view', 'csrf_origin', 'append_slash']


def _router_suite(HX, problems):
    """The values pyramid ITSELF puts into the exceptions it raises on the router's paths, over the debug-settings cube,
    and the pages rendered from them.  -> (render probes, value facts)
    value fact = (settings, kind, variant, attribute, type name, is a plain str or None, has __html__)"""
    probes, facts = [], []
    try:
        import types
        from pyramid.config import Configurator
        from pyramid.security import Denied
        seen = {}

        def factory(handler, registry):
            def tween(request):
                resp = handler(request)
                seen['resp'] = resp
                if isinstance(resp, HX.HTTPException):
                    seen['pre'] = [[k, v] for k, v in resp.headers.items()]
                    seen['has_body'] = bool(resp.has_body)
                return resp
            return tween
        mod = types.ModuleType('_c19_probe_tween')
        mod.factory = factory
        sys.modules['_c19_probe_tween'] = mod

        class Res:
            def __init__(self, name):
                self.name = name

            def __getitem__(self, k):
                if k.startswith('c'):
                    return Res(k)
                raise KeyError(k)

            def __repr__(self):
                return '<Res %s>' % self.name          # a context whose repr shows request-derived text

        class Deny:
            def identity(self, request): return None
            def authenticated_userid(self, request): return None
            def permits(self, request, context, permission): return Denied('no <b>%s</b> for you', permission)
            def remember(self, request, userid, **kw): return []
            def forget(self, request, **kw): return []

        def ok_view(request):
            from pyramid.response import Response
            return Response('ok')

        def ok_view2(request):
            from pyramid.response import Response
            return Response('ok2')

        def make_app(dn, da, dr, slash):
            config = Configurator(settings={'pyramid.debug_notfound': dn, 'pyramid.debug_authorization': da, 'pyramid.debug_routematch': dr},
                                  root_factory=lambda request: Res('root'))
            config.set_security_policy(Deny())
            config.add_tween('_c19_probe_tween.factory')
            config.add_view(ok_view, name='secret', permission='p<erm>')
            config.add_view(ok_view, name='pm', request_method='POST')
            config.add_view(ok_view, name='pm2', request_method='POST')
            config.add_view(ok_view2, name='pm2', request_method='PUT')
            config.add_view(ok_view, name='csrf', require_csrf=True)
            config.add_route('item', '/items/{id}')
            config.add_route('slash', '/slash/')
            config.add_view(ok_view, route_name='slash')
            if slash:
                config.add_notfound_view(append_slash=True)
            return config.make_wsgi_app()

        def request_for(kind, variant, accept):
            extra, qs, host = HOSTILE_REQ[variant]
            path = {'notfound': '/c1/' + extra + '/nothing', 'forbidden': '/c1/secret/' + extra, 'mismatch': '/pm/' + extra,
                    'multiview_mismatch': '/pm2/' + extra, 'route_without_view': '/items/x' + extra.replace('/', '_'),
                    'csrf_origin': '/csrf', 'append_slash': '/slash'}[kind]
            env = _environ(accept)
            env.update({'wsgi.version': (1, 0), 'wsgi.url_scheme': 'https' if kind == 'csrf_origin' else 'http', 'wsgi.input': io.BytesIO(b''),
                        'wsgi.errors': io.StringIO(), 'wsgi.multithread': False, 'wsgi.multiprocess': False, 'wsgi.run_once': False})
            env['PATH_INFO'] = path.encode('utf-8').decode('latin-1')
            env['QUERY_STRING'] = qs
            env['HTTP_HOST'] = host
            if kind == 'csrf_origin':
                env['REQUEST_METHOD'] = 'POST'
                env['HTTP_ORIGIN'] = 'https://evil.example' + ('' if variant == 0 else '/<b>"&')
            return env

        for dn in (False, True):
            for da in (False, True):
                for dr in (False, True):
                    for slash in (False, True):
                        app = make_app(dn, da, dr, slash)
                        tag = 'dn=%d,da=%d,dr=%d,slash=%d' % (dn, da, dr, slash)
                        render = (dn == da == dr)          # pages are compared with the model for "all off" and "all on"
                        for kind in ROUTER_KINDS:
                            if kind == 'append_slash' and not slash:
                                continue
                            for variant in range(len(HOSTILE_REQ)):
                                for acc in (FORMS if render else FORMS[:1]):
                                    env = request_for(kind, variant, acc)
                                    seen.clear()
                                    got = {}

                                    def run():
                                        body = b''.join(app(env, lambda st, h, e=None: got.update(h=h)))
                                        ct = [v for k, v in got['h'] if k.lower() == 'content-type']
                                        return (ct[0].split(';')[0] if ct else None), (ct[0] if ct else None), body, False
                                    obs = _observe(run)
                                    resp = seen.get('resp')
                                    if not isinstance(resp, HX.HTTPException):
                                        problems.append('router %s %s: the response is %r, not an HTTP exception' % (tag, kind, type(resp).__name__))
                                        continue
                                    if acc == FORMS[0]:
                                        vals = [('detail', resp.detail), ('comment', resp.comment), ('message', getattr(resp, 'message', None)),
                                                ('explanation', resp.explanation)] + [('header:' + k, v) for k, v in seen['pre']]
                                        for attr, v in vals:
                                            facts.append(((dn, da, dr, slash), ROUTER_KINDS.index(kind), variant,
                                                          ROUTER_ATTRS.index(attr.split(':')[0]), type(v).__name__, v is None or type(v) is str,
                                                          hasattr(v, '__html__')))
                                    if render:
                                        rec, pr = _class_record(HX, type(resp))
                                        problems += pr

                                        def _split(v):
                                            if v is not None and hasattr(v, '__html__'):
                                                return (str.__str__(v) if isinstance(v, str) else str(v)), v.__html__()
                                            return (v if v is None or isinstance(v, str) else str(v)), None
                                        d, dh = _split(resp.detail)
                                        c, ch = _split(resp.comment)
                                        x, xh = _split(resp.explanation)
                                        probes.append({'kind': 'router:' + kind, 'cls': rec, 'named': False, 'detail': d, 'comment': c,
                                                       'explanation': x if x != rec['explanation'] else None, 'body_template': None,
                                                       'has_body': seen['has_body'], 'headers': seen['pre'],
                                                       'environ': [[k, v] for k, v in env.items() if isinstance(v, str)] if rec['custom'] else [],
                                                       'q': _q(acc),
                                                       'observed': obs, 'accept': acc, 'detail_html': dh, 'comment_html': ch, 'explanation_html': xh})
    except Exception as e:
        problems.append('router probes: %s: %s' % (type(e).__name__, e))
    return probes, facts


class _Logging:
    def __init__(self, log, key):
        self.log, self.key = log, key

    def __str__(self):
        self.log.append(self.key)
        return 'v'


def _env_filter(HX, problems):
    """which environ keys a custom template's args are built from: observed through values that log `str()`"""
    keys = ['REQUEST_METHOD', 'HTTP_X_FOO', 'plain', 'wsgi.input', 'wsgi.x.y', 'wsgi.', 'wsgi', 'WSGI.X', 'a.b', '.', 'x.', '.x', 'webob.adhoc_attrs',
            'bfg.routes.route', 'wsgi_x', 'xwsgi.y', '']
    out = []
    try:
        from string import Template
        cls = type('ProbeEnv', (HX.HTTPException,), {'body_template_obj': Template('x')})
        for k in keys:
            for acc in FORMS:
                log = []
                env = _environ(acc)
                env[k] = _Logging(log, k)
                exc = cls()
                exc.prepare(env)
                out.append((k, acc, bool(log)))
        # with the default template nothing of the environ is looked at
        log = []
        env = _environ('text/html')
        env['REQUEST_METHOD'] = _Logging(log, 'REQUEST_METHOD')
        HX.HTTPNotFound('x').prepare(env)
        default_reads = bool(log)
    except Exception as e:
        problems.append('environ filter probes: %s: %s' % (type(e).__name__, e))
        out.append(('x.y', 'text/html', True))          # contradicts the model: fails closed
        default_reads = True
    return out, default_reads


def facts(src_root):
    problems = []
    out = {'classes': [], 'probes': [], 'env_filter': [], 'prepare_shared': False, 'default_reads_environ': True, 'router_values': []}
    try:
        HX = _load(src_root)
    except Exception as e:
        out['problems'] = ['cannot import pyramid.httpexceptions from %s: %s: %s' % (src_root, type(e).__name__, e)]
        return out
    classes = sorted((v for n, v in vars(HX).items() if isinstance(v, type) and issubclass(v, HX.HTTPException)
                      and v.__module__ == HX.__name__ and v.__name__ == n), key=lambda c: c.__name__)
    for c in classes:
        rec, pr = _class_record(HX, c)
        out['classes'].append(rec)
        problems += pr
    out['prepare_shared'] = all(c.prepare is HX.HTTPException.prepare and c.__call__ is HX.HTTPException.__call__ for c in classes)
    try:
        P = _probe_all(HX, classes)
        out['probes'] = P.probes
        problems += P.problems
    except Exception as e:
        problems.append('probing failed: %s: %s' % (type(e).__name__, e))
    rp, out['router_values'] = _router_suite(HX, problems)
    out['probes'] += rp
    out['env_filter'], out['default_reads_environ'] = _env_filter(HX, problems)
    out['problems'] = problems
    kinds = {}
    for p in out['probes']:
        k = p['kind'].split(':')[0]
        kinds[k] = kinds.get(k, 0) + 1
    esc = {}
    for p in out['probes']:
        if p['kind'].startswith('ascii:') and p['detail'] != '' and p['observed'][0] == 'ok':
            esc.setdefault((p['kind'][6:], p['observed'][1]), []).append(len(p['observed'][2]))
    summary.clear()
    summary.update({'classes': len(out['classes']), 'probes': kinds, 'env_filter_keys': len(out['env_filter']), 'prepare_shared': out['prepare_shared'],
                    'unknown_observations': sum(1 for p in out['probes'] if p['observed'][0] == 'unknown'), 'problems': problems[:5]})
    return out


# ---- Lean emission ----------------------------------------------------------------------------------------

def _lchar(ch):
    o = ord(ch)
    if ch == '\n':
        return "'\\n'"
    if ch == "'":
        return "'\\''"
    if ch == '\\':
        return "'\\\\'"
    if 32 <= o < 127:
        return "'%s'" % ch
    return "Char.ofNat %d" % o


def _ltext(s):
    if len(s) > 160:          # long literals in pieces: the elaborator's recursion depth
        return '(' + ' ++ '.join(_ltext(s[i:i + 160]) for i in range(0, len(s), 160)) + ')'
    return '[' + ', '.join(_lchar(c) for c in s) + ']'


def _lstr(s):
    out = ['"']
    for ch in str(s):
        o = ord(ch)
        if ch == '"':
            out.append('\\"')
        elif ch == '\\':
            out.append('\\\\')
        elif ch == '\n':
            out.append('\\n')
        elif 32 <= o < 127:
            out.append(ch)
        else:
            out.append('\\u{%x}' % o)
    out.append('"')
    return ''.join(out)


def _lbool(b):
    return 'true' if b else 'false'


def _lopt(v):
    return 'none' if v is None else '(some %s)' % _ltext(v)


def _lpairs(l):
    return '[' + ', '.join('(%s, %s)' % (_ltext(k), _ltext(v)) for k, v in l) + ']'


def _lclass(c, texts):
    return '{ name := %s, code := %d, title := %s, explanation := %s, bodyTmpl := %s, custom := %s, emptyBody := %s, htmlTmpl := %s, plainTmpl := %s }' % (
        _lstr(c['name']), c['code'], _ltext(c['title']), _ltext(c['explanation']), texts[c['body']], _lbool(c['custom']),
        _lbool(c['empty_body']), texts[c['html']], texts[c['plain']])


def _lobs(o):
    if o[0] == 'untouched':
        return '.untouched'
    if o[0] == 'key':
        return '.errKey %s' % _ltext(o[1])
    if o[0] == 'invalid':
        return '.errInvalid'
    if o[0] == 'ok':
        return '.ok %s %s %s' % (_ltext(o[1]), _ltext(o[2]), _ltext(o[3]))
    return '.unknown %s' % _lstr(o[1] if len(o) > 1 else '?')


STD_HEADERS = [['Content-Type', 'text/html; charset=UTF-8'], ['Content-Length', '0']]


def _lheaders(h):
    if h[:2] == STD_HEADERS:
        return 'stdHeaders' + (' ++ ' + _lpairs(h[2:]) if h[2:] else '')
    return _lpairs(h)


def generate(src_root):
    f = facts(src_root)
    L = ['import PyramidModel.HttpExc',
         '/-! GENERATED by extract/c19.py by running pyramid.httpexceptions of the tree under test — do not edit. -/',
         'namespace Pyr.Gen.C19',
         'open Pyr Pyr.HttpExc', '',
         '/-- false when a probe could not be carried out or a class attribute has an unexpected value -/',
         'def translatorOk : Bool := ' + _lbool(not f['problems']),
         'def problems : List String := [' + ', '.join(_lstr(p) for p in f['problems'][:20]) + ']',
         '/-- every class uses HTTPException.prepare and HTTPException.__call__ -/',
         'def prepareShared : Bool := ' + _lbool(f['prepare_shared']), '']
    texts = {}
    recs = list(f['classes']) + [p['cls'] for p in f['probes']]
    for c in recs:
        for k in ('body', 'html', 'plain'):
            texts.setdefault(c[k], 'tmpl%d' % len(texts))
    for t, nm in texts.items():
        L += ['def %s : Text := %s' % (nm, _ltext(t)), '']
    base = [c for c in f['classes'] if c['name'] == 'HTTPException']
    if base:
        L += ['/-- the templates defined on HTTPException itself -/',
              'def defaultBodyTmpl : Text := ' + texts[base[0]['body']],
              'def defaultHtmlTmpl : Text := ' + texts[base[0]['html']],
              'def defaultPlainTmpl : Text := ' + texts[base[0]['plain']], '']
    else:
        L += ["def defaultBodyTmpl : Text := ['$']", "def defaultHtmlTmpl : Text := ['$']", "def defaultPlainTmpl : Text := ['$']", '']
    cnames = {}

    def cref(c):
        key = _lclass(c, texts)
        if key not in cnames:
            cnames[key] = 'cls%d_%s' % (len(cnames), ''.join(ch for ch in c['name'] if ch.isalnum() or ch == '_'))
            L.extend(['def %s : ClassInfo :=\n  %s' % (cnames[key], key), ''])
        return cnames[key]
    table = [cref(c) for c in f['classes']]
    probe_cls = [cref(p['cls']) for p in f['probes']]
    L += ['/-- the environ every probe was run with (entries of the probe itself come after it and win) -/',
          'def baseEnviron : List (Text × Text) := ' + _lpairs([[k, v] for k, v in _environ(None).items()]),
          '/-- the headers a freshly constructed exception has -/',
          'def stdHeaders : List (Text × Text) := ' + _lpairs(STD_HEADERS), '',
          '/-- every class of the module that descends from HTTPException (attributes read from the class objects) -/',
          'def classes : List ClassInfo := [' + ', '.join(table) + ']', '',
          '/-- what the real code did -/',
          'inductive Observed where', '  | untouched', '  | errKey (name : Text)', '  | errInvalid', '  | ok (ctype header body : Text)',
          '  | unknown (why : String)', 'deriving Repr, DecidableEq', '',
          '/-- one probe: a complete input of the model and the observation made on the real code -/',
          'structure RenderProbe where', '  kind : String', '  cls : ClassInfo', '  detail : Option Text', '  comment : Option Text',
          '  explanation : Option Text', '  bodyTemplate : Option Text', '  hasBody : Bool', '  headers : List (Text × Text)',
          '  environ : List (Text × Text)', '  qh : Nat', '  qj : Nat', '  qp : Nat', '  observed : Observed',
          '  detailHtml : Option Text := none', '  commentHtml : Option Text := none', '  explanationHtml : Option Text := none',
          'deriving Repr', '',
          'def probeCount : Nat := %d' % len(f['probes']),
          'def probeKinds : List (String × Nat) := [' + ', '.join('(%s, %d)' % (_lstr(k), v) for k, v in sorted(summary.get('probes', {}).items())) + ']', '',
          '/-- environ keys, the negotiated type, and whether the value under that key was stringified while the args of a custom template were built -/',
          'def envFilterProbes : List (Text × Text × Bool) := [' + ', '.join('(%s, %s, %s)' % (_ltext(k), _ltext(a), _lbool(b)) for k, a, b in f['env_filter']) + ']',
          '/-- the values pyramid itself puts into the exceptions of the router paths -/',
          'structure RouterValue where', '  debugNotfound : Bool', '  debugAuthorization : Bool', '  debugRoutematch : Bool', '  appendSlash : Bool',
          '  kind : Nat      -- index into routerKinds', '  variant : Nat   -- 0 = benign request, 1 = markup in path, query string, Host, Origin',
          '  attr : Nat      -- index into routerAttrs', '  typeName : String', '  plainStr : Bool  -- None or exactly `str`', '  hasHtml : Bool   -- has `__html__`',
          'deriving Repr', '',
          'def routerKinds : List String := [' + ', '.join(_lstr(k) for k in ROUTER_KINDS) + ']',
          'def routerAttrs : List String := [' + ', '.join(_lstr(k) for k in ROUTER_ATTRS) + ']',
          'def routerValues : List RouterValue := [' +
          ',\n  '.join('⟨%s, %s, %s, %s, %d, %d, %d, %s, %s, %s⟩' % (_lbool(t[0]), _lbool(t[1]), _lbool(t[2]), _lbool(t[3]), k, v, a, _lstr(tn), _lbool(pl), _lbool(hh))
                        for t, k, v, a, tn, pl, hh in f['router_values']) + ']', '',
          '/-- with the default body template: was any environ value looked at? -/',
          'def defaultTemplateReadsEnviron : Bool := ' + _lbool(f['default_reads_environ']),
          '', 'end Pyr.Gen.C19', '']
    files = {'PyramidModel/Gen/C19.lean': '\n'.join(L)}
    # the probes, in four modules (built in parallel), each in chunks so that no single definition gets huge
    groups = {'A': [], 'B': [], 'C': [], 'D': [], 'E': [], 'F': []}
    for i, p in enumerate(f['probes']):
        k = p['kind'].split(':')[0]
        g = 'A' if k == 'class' and p['q'][0] else 'B' if k == 'class' else 'C' if k == 'ascii' else 'E' if k in ('ctor', 'markup') else 'F' if k == 'router' else 'D'
        groups[g].append(i)
    for g, idx in groups.items():
        M = ['import PyramidModel.Gen.C19',
             '/-! GENERATED by extract/c19.py (render probes, group %s) — do not edit. -/' % g,
             'namespace Pyr.Gen.C19', 'open Pyr Pyr.HttpExc', 'set_option maxRecDepth 4000', '']
        names = []
        step = 10 if g == 'F' else 30
        for n in range(0, len(idx), step):
            nm = 'probes%s%d' % (g, n // step)
            names.append(nm)
            M.append('def %s : List RenderProbe := [' % nm)
            for i in idx[n:n + step]:
                p = f['probes'][i]
                M.append('  { kind := %s, cls := %s, detail := %s, comment := %s, explanation := %s, bodyTemplate := %s, hasBody := %s,\n'
                         '    headers := %s, environ := baseEnviron ++ %s, qh := %d, qj := %d, qp := %d,\n    observed := %s%s },' % (
                             _lstr(p['kind']), probe_cls[i], _lopt(p['detail']), _lopt(p['comment']), _lopt(p['explanation']),
                             _lopt(p['body_template']), _lbool(p['has_body']), _lheaders(p['headers']), _lpairs(p['environ']),
                             p['q'][0], p['q'][1], p['q'][2], _lobs(p['observed']),
                             ''.join(', %s := %s' % (fld, _lopt(p[key])) for fld, key in (('detailHtml', 'detail_html'), ('commentHtml', 'comment_html'),
                                                                                       ('explanationHtml', 'explanation_html')) if p.get(key) is not None)))
            M[-1] = M[-1].rstrip(',')
            M += [']', '']
        M += ['def probes%s : List (List RenderProbe) := [%s]' % (g, ', '.join(names)),
              'def probes%sCount : Nat := %d' % (g, len(idx)), '', 'end Pyr.Gen.C19', '']
        files['PyramidModel/Gen/C19Probes%s.lean' % g] = '\n'.join(M)
    return files


if __name__ == '__main__':
    root = sys.argv[1] if len(sys.argv) > 1 else '/repo/src'
    fx = facts(root)
    print(json.dumps(summary, indent=1))
    for p in fx['probes']:
        if p['observed'][0] == 'unknown':
            print('UNKNOWN', p['kind'], p['cls']['name'], p['accept'], p['observed'])
    for rel, text in generate(root).items():
        print(rel, len(text), 'bytes')
