"""Translator for C10: regenerates, from the working tree's src/pyramid/session.py, the table-like facts the session
model rests on:

 * which `CookieSession` attributes are wrapped by `manage_accessed` / `manage_changed` (assignment form
   `name = manage_x(dict.name)` and decorator form `@manage_x def name`), which methods are plain;
 * which `self.<method>(…)` / `self[...] = …` calls the bodies of the composite methods make (flash -> setdefault, …);
 * the comparison operators and constants of the three threshold tests (`len(cookieval) > 4064`,
   `now - renewed > self._timeout`, `now - session.renewed > session._reissue_time`), the `int(time.time())` of the
   wrappers, and the `if not self._dirty` guard around the callback registration in `changed`.

Anything that does not have the expected shape is emitted as "unknown" (or 0 / false), which makes the `decide`d
obligations in Props/C10.lean fail.  Python `ast` only.
"""
import ast, os

summary = {}
DICT_NAMES = set(dir(dict))


def _wrapper_of_call(node):
    """manage_x(dict.name) -> (x, name) | None"""
    if (isinstance(node, ast.Call) and isinstance(node.func, ast.Name) and node.func.id in ('manage_accessed', 'manage_changed')
            and len(node.args) == 1 and not node.keywords and isinstance(node.args[0], ast.Attribute)
            and isinstance(node.args[0].value, ast.Name) and node.args[0].value.id == 'dict'):
        return node.func.id, node.args[0].attr
    return None


def _inner_calls(fn):
    """names of the methods a body reaches through `self`: self.m(...) -> m ; self[k] = v -> __setitem__ ;
    del self[k] -> __delitem__ ; self[k] (load) -> __getitem__"""
    out = []
    for n in ast.walk(fn):
        if isinstance(n, ast.Call) and isinstance(n.func, ast.Attribute) and isinstance(n.func.value, ast.Name) and n.func.value.id == 'self':
            out.append((n.lineno, n.col_offset, n.func.attr))
        elif isinstance(n, ast.Call) and isinstance(n.func, ast.Attribute) and isinstance(n.func.value, ast.Name) and n.func.value.id == 'dict':
            out.append((n.lineno, n.col_offset, 'dict.' + n.func.attr))      # bypasses the wrappers
        elif isinstance(n, ast.Subscript) and isinstance(n.value, ast.Name) and n.value.id == 'self':
            kind = {ast.Store: '__setitem__', ast.Del: '__delitem__', ast.Load: '__getitem__'}[type(n.ctx)]
            out.append((n.lineno, n.col_offset, kind))
    return [x[2] for x in sorted(out)]


def _cmp(node):
    """Compare with a single operator -> (op name, left src, right src)"""
    if isinstance(node, ast.Compare) and len(node.ops) == 1:
        return type(node.ops[0]).__name__, ast.unparse(node.left), ast.unparse(node.comparators[0])
    return None


def facts(src_root):
    path = os.path.join(src_root, 'pyramid', 'session.py')
    tree = ast.parse(open(path).read())
    out = {'wrap': [], 'inner': [], 'limit': 0, 'limit_cmp': 'unknown', 'timeout_cmp': 'unknown', 'reissue_cmp': 'unknown',
           'accessed_int': False, 'changed_int': False, 'changed_guard': False, 'changed_first': False, 'accessed_calls_changed': False,
           'soe_guard': False}
    cls = None
    for n in ast.walk(tree):
        if isinstance(n, ast.ClassDef) and n.name == 'CookieSession':
            cls = n
    if cls is None:
        out['wrap'].append(('CookieSession', 'unknown'))
        return out
    for st in cls.body:
        if isinstance(st, ast.Assign):
            w = _wrapper_of_call(st.value)
            for t in st.targets:
                name = t.id if isinstance(t, ast.Name) else None
                if w is not None:
                    out['wrap'].append((name or 'unknown', w[0] if (name == w[1]) else 'unknown'))
                elif name in DICT_NAMES or name in ('flash', 'pop_flash', 'peek_flash', 'new_csrf_token', 'get_csrf_token', 'changed', 'invalidate'):
                    out['wrap'].append((name, 'unknown'))
        elif isinstance(st, ast.FunctionDef):
            decs = st.decorator_list
            if not decs:
                kind = 'plain'
            elif len(decs) == 1 and isinstance(decs[0], ast.Name) and decs[0].id in ('manage_accessed', 'manage_changed'):
                kind = decs[0].id
            else:
                kind = 'unknown'
            out['wrap'].append((st.name, kind))
            if st.name not in ('__init__',):
                out['inner'].append((st.name, _inner_calls(st)))
            if st.name == '_set_cookie':
                for n in ast.walk(st):
                    c = _cmp(n)
                    if (c and isinstance(n.left, ast.Call) and isinstance(n.left.func, ast.Name) and n.left.func.id == 'len'
                            and len(n.left.args) == 1 and isinstance(n.left.args[0], ast.Name)
                            and isinstance(n.comparators[0], ast.Constant) and isinstance(n.comparators[0].value, int)):
                        out['limit'], out['limit_cmp'] = n.comparators[0].value, c[0]
                # `if not self._cookie_on_exception: exception = getattr(self.request, 'exception', None); if exception is not None: return False`
                first = st.body[0]
                if (isinstance(first, ast.If) and ast.unparse(first.test) == 'not self._cookie_on_exception' and not first.orelse
                        and len(first.body) == 2 and ast.unparse(first.body[0]) == "exception = getattr(self.request, 'exception', None)"
                        and isinstance(first.body[1], ast.If) and ast.unparse(first.body[1].test) == 'exception is not None'
                        and ast.unparse(first.body[1].body[0]) == 'return False'):
                    out['soe_guard'] = True
            if st.name == '__init__':
                for n in ast.walk(st):
                    c = _cmp(n)
                    if c and c[1] == 'now - renewed' and c[2] == 'self._timeout':
                        out['timeout_cmp'] = c[0]
            if st.name == 'changed':
                b = st.body
                if (len(b) == 1 and isinstance(b[0], ast.If) and ast.unparse(b[0].test) == 'not self._dirty' and not b[0].orelse
                        and ast.unparse(b[0].body[0]) == 'self._dirty = True'
                        and ast.unparse(b[0].body[-1]) == 'self.request.add_response_callback(set_cookie_callback)'):
                    out['changed_guard'] = True
    for fn in tree.body:
        if isinstance(fn, ast.FunctionDef) and fn.name in ('manage_accessed', 'manage_changed'):
            inner = [x for x in fn.body if isinstance(x, ast.FunctionDef)]
            if len(inner) != 1:
                continue
            body = inner[0].body
            srcs = [ast.unparse(x) for x in body]
            if fn.name == 'manage_accessed':
                out['accessed_int'] = srcs[:1] == ['session.accessed = now = int(time.time())']
                for n in ast.walk(inner[0]):
                    c = _cmp(n)
                    if c and c[1] == 'now - session.renewed' and c[2] == 'session._reissue_time':
                        out['reissue_cmp'] = c[0]
                out['accessed_calls_changed'] = (len(srcs) == 3 and srcs[1] ==
                    'if session._reissue_time is not None:\n    if now - session.renewed > session._reissue_time:\n        session.changed()'.replace('>', {'Gt': '>', 'GtE': '>=', 'Lt': '<', 'LtE': '<='}.get(out['reissue_cmp'], '>'))
                    and srcs[2] == 'return wrapped(session, *arg, **kw)')
            else:
                out['changed_int'] = srcs[:1] == ['session.accessed = int(time.time())']
                out['changed_first'] = srcs == ['session.accessed = int(time.time())', 'session.changed()', 'return wrapped(session, *arg, **kw)']
    return out


def _s(x):
    return '"' + x.replace('\\', '\\\\').replace('"', '\\"') + '"'


def generate(src_root):
    f = facts(src_root)
    summary.clear()
    summary.update({'methods': len(f['wrap']), 'unknown': [m for m, k in f['wrap'] if k == 'unknown'], 'limit': f['limit']})
    lines = ['/- GENERATED by extract/c10.py from src/pyramid/session.py — do not edit -/',
             'namespace Pyr.Session.Gen', '',
             '/-- (attribute of `CookieSession`, wrapper) in class-body order -/',
             'def wrapTable : List (String × String) := [',
             ',\n'.join('  (%s, %s)' % (_s(m), _s(k)) for m, k in f['wrap']),
             ']', '',
             '/-- methods the bodies of the class reach through `self` (in source order) -/',
             'def innerCalls : List (String × List String) := [',
             ',\n'.join('  (%s, [%s])' % (_s(m), ', '.join(_s(c) for c in cs)) for m, cs in f['inner']),
             ']', '',
             '/-- `if len(cookieval) <cmp> <limit>` in `_set_cookie` -/',
             'def sizeLimit : Nat := %d' % f['limit'],
             'def sizeCmp : String := %s' % _s(f['limit_cmp']),
             '/-- `if now - renewed <cmp> self._timeout` in `__init__` -/',
             'def timeoutCmp : String := %s' % _s(f['timeout_cmp']),
             '/-- `if now - session.renewed <cmp> session._reissue_time` in `manage_accessed` -/',
             'def reissueCmp : String := %s' % _s(f['reissue_cmp']),
             '/-- `session.accessed = now = int(time.time())` opens `manage_accessed`; then the reissue test calling `session.changed()`; then the wrapped call -/',
             'def accessedShape : Bool := %s' % ('true' if f['accessed_int'] and f['accessed_calls_changed'] else 'false'),
             '/-- `manage_changed` is exactly: `session.accessed = int(time.time())`; `session.changed()`; the wrapped call -/',
             'def changedShape : Bool := %s' % ('true' if f['changed_int'] and f['changed_first'] else 'false'),
             '/-- `changed` is `if not self._dirty: self._dirty = True; …; self.request.add_response_callback(…)` -/',
             'def changedGuard : Bool := %s' % ('true' if f['changed_guard'] else 'false'),
             '/-- `_set_cookie` opens with the `set_on_exception` test returning `False` when `request.exception is not None` -/',
             'def onExceptionGuard : Bool := %s' % ('true' if f['soe_guard'] else 'false'),
             '', 'end Pyr.Session.Gen', '']
    return {'PyramidModel/Gen/C10Wrap.lean': '\n'.join(lines)}


if __name__ == '__main__':
    import sys
    for k, v in generate(sys.argv[1] if len(sys.argv) > 1 else '/repo/src').items():
        print(v)
