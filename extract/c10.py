"""Translator for C10: regenerates the behavioural tables the session model rests on by RUNNING the session code of the tree
under test (src/pyramid/session.py loaded from `src_root` under a private module name, with a fake `time`/`os`, a fake
serialiser and a fake request), probing it exhaustively over small finite domains — no AST pattern matching, so any
refactoring that preserves behaviour leaves the tables unchanged and any change of behaviour inside the probed domain
changes them:

 * `behaviour`     for every ISession / dict method the statement's operation list reaches (plus the corner calls
                   get_csrf_token without a token, pop whose default IS the stored value, pop / pop_flash / __delitem__ of an absent
                   key, setdefault of a present key): its class, observed on a session loaded from a cookie renewed at 100.0 s
                   with reissue_time=10, called at 105.75 s, at 120.5 s and (reissue_time=None) at 120.5 s —
                   "changed"  = dirty, accessed == int(now) (an int), exactly one callback;
                   "accessed" = not dirty before / dirty after the reissue time, never dirty without reissue, accessed == int(now);
                   "mark"     = dirty, accessed untouched (changed());   anything else / any unexpected exception = "unknown"
 * `timeoutProbe`  (T, now, emptied?) for T in {0,1,10} and now around renewed + T (quarter-second grid)
 * `reissueProbe`  (R, now, dirty after one get?) for R in {0,1,10} and now around renewed + R
 * `sizeProbe`     (length of the serialised value, cookie set?) around 4064 (fake serialiser of exact lengths)
 * `excProbe`      (set_on_exception, request.exception present, cookie set?) — all four combinations
 * `callbacksAfterMany`  response callbacks registered by a view that calls six marking methods
 * `shapeProbe`    (timeout, deserialised value, what `__init__` makes of it at 1000.0 s) over the shape cube: every triple
                   [stamp, stamp, state] with stamps in {0, 5, "7", "x", None, True, [], {"a": 1}} and states in
                   {{}, {"k": 1}, [], [["k", 1]], "ab", "", None, 3} without timeout, the convertible-stamp triples again with
                   timeout 10 (expired), and the other arities / kinds (0-5 elements, scalars, 3-character strings, 3-key dicts);
                   outcome (0, 0, []) = raises | (1 = new / 2 = not new, created, keys)
 * `payloadProbe`  what `_set_cookie` hands to `serializer.dumps` after a read past the reissue time:
                   (stamp, stamp is an int, created, keys)
Any exception while probing makes `probeOk = false` (and the affected entry "unknown"), so the `decide`d obligations in
Props/C10.lean fail closed.  Nothing of this tree needs AST extraction: every fact is observable by running.
"""
import importlib.util, os, sys

summary = {}


class _Clock:
    q = 0

    def time(self):
        return self.q / 4


class _Os:
    def urandom(self, n):
        return b'\x07' * n


class _Ser:
    """serialiser with controllable behaviour: loads returns `value` (ValueError when it is _Ser.BAD), dumps records its
    argument and returns `n` bytes"""
    BAD = object()

    def __init__(self, value, n=10):
        self.value, self.n, self.dumped = value, n, []

    def loads(self, b):
        if self.value is _Ser.BAD:
            raise ValueError('bad')
        return self.value

    def dumps(self, v):
        self.dumped.append(v)
        return b'x' * self.n


class _Req:
    def __init__(self, cookie=True, exception=None):
        self.cookies = {'session': 'c'} if cookie else {}
        self.exception = exception
        self.callbacks = []

    def add_response_callback(self, cb):
        self.callbacks.append(cb)


class _Resp:
    def __init__(self):
        self.cookies = []

    def set_cookie(self, name, **kw):
        self.cookies.append((name, kw))


def _load(src_root):
    path = os.path.join(src_root, 'pyramid', 'session.py')
    name = '_c10_session_under_test'
    spec = importlib.util.spec_from_file_location(name, path)
    mod = importlib.util.module_from_spec(spec)
    import warnings
    sys.modules[name] = mod           # zope.deprecation looks the module up by name while it executes
    with warnings.catch_warnings():
        warnings.simplefilter('ignore')
        spec.loader.exec_module(mod)
    mod.time = _Clock()
    mod.os = _Os()
    return mod


STATE = {'a': 1, '_csrft_': 't', '_f_': ['x']}
# (probe name, state the session is loaded with, call)
CALLS = [
    ('get', STATE, lambda s: s.get('a')),
    ('get/default', STATE, lambda s: s.get('zz', None)),
    ('__getitem__', STATE, lambda s: s['a']),
    ('items', STATE, lambda s: list(s.items())),
    ('values', STATE, lambda s: list(s.values())),
    ('keys', STATE, lambda s: list(s.keys())),
    ('__contains__', STATE, lambda s: 'a' in s),
    ('__len__', STATE, lambda s: len(s)),
    ('__iter__', STATE, lambda s: list(iter(s))),
    ('clear', STATE, lambda s: s.clear()),
    ('update', STATE, lambda s: s.update({'b': 1})),
    ('setdefault', STATE, lambda s: s.setdefault('b', 1)),
    ('setdefault/present', STATE, lambda s: s.setdefault('a', 1)),
    ('pop', STATE, lambda s: s.pop('a')),
    ('pop/default-is-stored', {'a': None}, lambda s: s.pop('a', None)),
    ('pop/absent-with-default', STATE, lambda s: s.pop('zz', None)),
    ('pop/absent', STATE, lambda s: s.pop('zz')),
    ('popitem', STATE, lambda s: s.popitem()),
    ('__setitem__', STATE, lambda s: s.__setitem__('b', 1)),
    ('__delitem__', STATE, lambda s: s.__delitem__('a')),
    ('__delitem__/absent', STATE, lambda s: s.__delitem__('zz')),
    ('flash', STATE, lambda s: s.flash('m')),
    ('flash/no-duplicate', STATE, lambda s: s.flash('x', '', False)),
    ('pop_flash', STATE, lambda s: s.pop_flash()),
    ('pop_flash/absent', STATE, lambda s: s.pop_flash('q')),
    ('peek_flash', STATE, lambda s: s.peek_flash()),
    ('new_csrf_token', STATE, lambda s: s.new_csrf_token()),
    ('get_csrf_token', STATE, lambda s: s.get_csrf_token()),
    ('get_csrf_token/no-token', {'a': 1}, lambda s: s.get_csrf_token()),
    ('changed', STATE, lambda s: s.changed()),
    ('invalidate', STATE, lambda s: s.invalidate()),
]


def _session(mod, state, now_q, **opts):
    """a session loaded from a cookie (renewed 100.0 s, created 100.0 s, `state`) at clock now_q"""
    ser = _Ser([100.0, 100.0, dict((k, (list(v) if isinstance(v, list) else v)) for k, v in state.items())])
    factory = mod.BaseCookieSessionFactory(ser, **opts)
    req = _Req()
    mod.time.q = now_q
    return factory(req), req, ser


def _observe(mod, state, call, now_q, reissue):
    s, req, _ = _session(mod, state, 400, timeout=None, reissue_time=reissue)
    mod.time.q = now_q
    try:
        call(s)
    except KeyError:
        pass
    return bool(s._dirty), s.accessed, type(s.accessed) is int, len(req.callbacks)


def _classify(mod, state, call):
    a = _observe(mod, state, call, 423, 10)       # 105.75 s: before the reissue time
    b = _observe(mod, state, call, 482, 10)       # 120.5 s : after it
    n = _observe(mod, state, call, 482, None)     # no reissue at all
    if a[0] and a[1] == 105 and a[2] and a[3] == 1 and b[0] and b[1] == 120 and n[0] and n[3] == 1:
        return 'changed'
    if (not a[0]) and a[1] == 105 and a[2] and a[3] == 0 and b[0] and b[1] == 120 and b[2] and b[3] == 1 and (not n[0]) and n[1] == 120:
        return 'accessed'
    if a[0] and a[1] == 100.0 and (not a[2]) and a[3] == 1 and n[0] and n[1] == 100.0:
        return 'mark'
    return 'unknown'


def facts(src_root):
    out = {'ok': True, 'shape': [], 'behaviour': [], 'timeout': [], 'reissue': [], 'size': [], 'exc': [], 'callbacks': 99, 'payload': None, 'errors': []}
    try:
        mod = _load(src_root)
    except Exception as e:      # noqa
        out['ok'] = False
        out['errors'].append('import: %s: %s' % (type(e).__name__, e))
        return out

    def guarded(label, f, default):
        try:
            return f()
        except Exception as e:      # noqa
            out['ok'] = False
            out['errors'].append('%s: %s: %s' % (label, type(e).__name__, e))
            return default

    for name, state, call in CALLS:
        out['behaviour'].append((name, guarded(name, lambda: _classify(mod, state, call), 'unknown')))

    # timeout: renewed at 400 (100.0 s); emptied?
    def timeout_probe():
        rows = []
        for T in (0, 1, 10):
            for d in (-4, -1, 0, 1, 2, 4, 40):
                now = 400 + 4 * T + d
                if now < 400:
                    continue
                s, _, _ = _session(mod, {'a': 1}, now, timeout=T, reissue_time=None)
                data = dict(dict.items(s))
                if data not in ({}, {'a': 1}) or s.new or s.created != 100.0:
                    raise ValueError('unexpected session %r' % (data,))
                rows.append((T, now, data == {}))
        s, _, _ = _session(mod, {'a': 1}, 10 ** 6, timeout=None, reissue_time=None)
        rows.append((None, 10 ** 6, dict(dict.items(s)) == {}))
        return rows
    out['timeout'] = guarded('timeout', timeout_probe, [])

    def reissue_probe():
        rows = []
        for R in (0, 1, 10):
            for d in (-4, -1, 0, 1, 3, 4, 5, 8):
                now = 400 + 4 * R + d
                if now < 400:
                    continue
                dirty = _observe(mod, {'a': 1}, lambda s: s.get('a'), now, R)[0]
                rows.append((R, now, dirty))
        return rows
    out['reissue'] = guarded('reissue', reissue_probe, [])

    def size_probe():
        rows = []
        for n in (0, 1, 100, 4000, 4060, 4061, 4062, 4063, 4064, 4065, 4066, 4067, 4068, 4095, 4096, 4097, 5000, 100000):
            s, req, ser = _session(mod, {'a': 1}, 400, timeout=None, reissue_time=None)
            ser.n = n
            s['b'] = 1
            resp = _Resp()
            try:
                for cb in req.callbacks:
                    cb(req, resp)
                ok = True
            except ValueError:
                ok = False
            if ok != (len(resp.cookies) == 1) or (ok and resp.cookies[0][1].get('value') != 'x' * n):
                raise ValueError('cookie set / error mismatch at %d' % n)
            rows.append((n, ok))
        return rows
    out['size'] = guarded('size', size_probe, [])

    def exc_probe():
        rows = []
        for soe in (True, False):
            for exc in (None, RuntimeError('x')):
                s, req, ser = _session(mod, {'a': 1}, 400, timeout=None, reissue_time=None, set_on_exception=soe)
                s['b'] = 1
                req.exception = exc
                resp = _Resp()
                for cb in req.callbacks:
                    cb(req, resp)
                rows.append((soe, exc is not None, len(resp.cookies) == 1))
        return rows
    out['exc'] = guarded('exc', exc_probe, [])

    def callbacks_probe():
        s, req, _ = _session(mod, STATE, 400, timeout=None, reissue_time=0)
        mod.time.q = 440
        s.get('a'); s['b'] = 1; s.flash('m'); s.changed(); s.new_csrf_token(); s.invalidate(); s.pop_flash(); s.get_csrf_token()
        return len(req.callbacks)
    out['callbacks'] = guarded('callbacks', callbacks_probe, 99)

    def shape_probe():
        stamps = [0, 5, '7', 'x', None, True, [], {'a': 1}]
        states = [{}, {'k': 1}, [], [['k', 1]], 'ab', '', None, 3]
        values = [(None, [a, b, c]) for a in stamps for b in stamps for c in states]
        conv = [0, 5, '7', True]
        values += [(10, [a, b, c]) for a in conv for b in conv for c in states]
        others = [[], [1], [1, 2], [1, 2, {'k': 1}, 4], [1, 2, {'k': 1}, 4, 5], None, 5, True, 'abc', '12', '123', 'xyz', '',
                  {}, {'1': 0, '2': 0, '3': 0}, {'1': 0, '2': 0, '': 0}, {'x': 0, '2': 0, '3': 0}, {'a': 1}, [[1, 2, {'k': 1}]]]
        values += [(t, v) for t in (None, 10) for v in others]
        rows = []
        for T, v in values:
            factory = mod.BaseCookieSessionFactory(_Ser(v), timeout=T, reissue_time=None)
            mod.time.q = 4000
            try:
                s = factory(_Req())
            except (TypeError, ValueError):
                rows.append((T, v, (0, 0, [])))
                continue
            keys = list(dict.keys(s))
            if not all(isinstance(k, str) for k in keys):
                raise ValueError('non-string key')
            created = s.created * 4
            if created != int(created):
                raise ValueError('created off the grid')
            rows.append((T, v, (1 if s.new else 2, int(created), keys)))
        return rows
    out['shape'] = guarded('shape', shape_probe, [])

    def payload_probe():
        s, req, ser = _session(mod, {'a': 1}, 400, timeout=None, reissue_time=10)
        mod.time.q = 482
        s.get('a')
        resp = _Resp()
        for cb in req.callbacks:
            cb(req, resp)
        (v,) = ser.dumped
        stamp, created, data = v
        return (int(stamp * 4), type(stamp) is int, int(created * 4), list(data))
    out['payload'] = guarded('payload', payload_probe, None)
    return out


def _s(x):
    return '"' + x.replace('\\', '\\\\').replace('"', '\\"') + '"'


def _b(x):
    return 'true' if x else 'false'


def _jv(v):
    if v is None:
        return '.null'
    if isinstance(v, bool):
        return '(.bool %s)' % _b(v)
    if isinstance(v, int):
        return '(.int %d)' % v
    if isinstance(v, str):
        return '(.str %s)' % _s(v)
    if isinstance(v, list):
        return '(.arr [%s])' % ', '.join(_jv(x) for x in v)
    if isinstance(v, dict):
        return '(.obj [%s])' % ', '.join('(%s, %s)' % (_s(k), _jv(x)) for k, x in v.items())
    raise ValueError('not a JSON value')


def _opt(x):
    return 'none' if x is None else '(some %d)' % x


def generate(src_root):
    f = facts(src_root)
    summary.clear()
    summary.update({'probed_methods': len(f['behaviour']), 'unknown': [m for m, k in f['behaviour'] if k == 'unknown'],
                    'ok': f['ok'], 'errors': f['errors'][:5]})
    pl = f['payload'] or (0, False, 0, ['?'])
    lines = ['import PyramidModel.Session',
             '/- GENERATED by extract/c10.py by running src/pyramid/session.py of the tree under test — do not edit -/',
             'namespace Pyr.Session.Gen', '',
             '/-- no probe raised an unexpected exception -/',
             'def probeOk : Bool := %s' % _b(f['ok']), '',
             '/-- (probe, observed class) -/',
             'def behaviour : List (String × String) := [',
             ',\n'.join('  (%s, %s)' % (_s(m), _s(k)) for m, k in f['behaviour']),
             ']', '',
             '/-- (timeout in seconds, clock in quarter seconds, session emptied) for a cookie renewed at 400 -/',
             'def timeoutProbe : List (Option Nat × Nat × Bool) := [' + ', '.join('(%s, %d, %s)' % (_opt(t), n, _b(e)) for t, n, e in f['timeout']) + ']',
             '/-- (reissue_time in seconds, clock in quarter seconds, dirty after one `get`) for a cookie renewed at 400 -/',
             'def reissueProbe : List (Nat × Nat × Bool) := [' + ', '.join('(%d, %d, %s)' % (r, n, _b(e)) for r, n, e in f['reissue']) + ']',
             '/-- (length of the serialised value, cookie set rather than ValueError) -/',
             'def sizeProbe : List (Nat × Bool) := [' + ', '.join('(%d, %s)' % (n, _b(e)) for n, e in f['size']) + ']',
             '/-- (set_on_exception, request.exception present, cookie set) -/',
             'def excProbe : List (Bool × Bool × Bool) := [' + ', '.join('(%s, %s, %s)' % (_b(a), _b(b), _b(c)) for a, b, c in f['exc']) + ']',
             '/-- response callbacks registered by a view that calls eight marking / reading methods -/',
             'def callbacksAfterMany : Nat := %d' % f['callbacks'],
             '/-- what `_set_cookie` serialises after a read at 482 of a cookie renewed at 400 (reissue 10): stamp, stamp is int, created, keys -/',
             'def payloadProbe : Nat × Bool × Nat × List String := (%d, %s, %d, [%s])' % (pl[0], _b(pl[1]), pl[2], ', '.join(_s(k) for k in pl[3])),
             '/-- (timeout, deserialised value, what `__init__` makes of it at clock 4000) over the shape cube -/',
             'def shapeProbe : List (Option Nat × JV × Nat × Nat × List String) := [',
             ',\n'.join('  (%s, %s, %d, %d, [%s])' % (_opt(t), _jv(v), o[0], o[1], ', '.join(_s(k) for k in o[2])) for t, v, o in f.get('shape', [])),
             ']',
             '', 'end Pyr.Session.Gen', '']
    return {'PyramidModel/Gen/C10Wrap.lean': '\n'.join(lines)}


if __name__ == '__main__':
    root = sys.argv[1] if len(sys.argv) > 1 else '/repo/src'
    if root not in sys.path:
        sys.path.insert(0, root)
    for k, v in generate(root).items():
        print(v)
    print(summary)
