"""C08 translator: every `self.action(…)` / `config.action(…)` call of src/pyramid/config/*.py  →
lean/PyramidModel/Gen/C08Phases.lean  (directive, action kind, phase, discriminator shape, deferred?, callable?).

Python `ast` only.  Nothing is guessed:
* a call site that is not in KNOWN_SITES gets the kind `Kind.unknown`;
* an `order=` that is neither absent (→ the default of `ActionConfiguratorMixin.action`, read from its signature),
  an integer literal, nor one of the PHASEn_CONFIG names assigned an integer literal in interfaces.py → `none`;
* a discriminator expression that is not `None`, an interface name, a tuple display, or a name assigned exactly
  once in the directive to one of those / to `Deferred(<function>)` → `DiscShape.unknown`.
Every theorem over the table (`phase_table_sound`, `table_complete`, …) then fails, which is the intention.
"""
import ast, os

# (file stem, directive function, n-th action call inside it) -> constructor of Pyr.ConfigOrder.Kind
KNOWN_SITES = {
    ('adapters', 'add_subscriber', 0): 'addSubscriber',
    ('adapters', 'add_response_adapter', 0): 'addResponseAdapter',
    ('adapters', 'add_traverser', 0): 'addTraverser',
    ('adapters', 'add_resource_url_adapter', 0): 'addResourceUrlAdapter',
    ('assets', 'override_asset', 0): 'overrideAsset',
    ('factories', 'set_root_factory', 0): 'setRootFactory',
    ('factories', 'set_session_factory', 0): 'setSessionFactory',
    ('factories', 'set_request_factory', 0): 'setRequestFactory',
    ('factories', 'set_response_factory', 0): 'setResponseFactory',
    ('factories', 'add_request_method', 0): 'addRequestMethodNone',
    ('factories', 'add_request_method', 1): 'addRequestMethodProp',
    ('factories', 'add_request_method', 2): 'addRequestMethod',
    ('factories', 'set_execution_policy', 0): 'setExecutionPolicy',
    ('i18n', 'set_locale_negotiator', 0): 'setLocaleNegotiator',
    ('i18n', 'add_translation_dirs', 0): 'addTranslationDirs',
    ('predicates', '_add_predicate', 0): 'addPredicate',
    ('rendering', 'add_renderer', 0): 'addRenderer',
    ('routes', 'add_route', 0): 'routeConnect',
    ('routes', 'add_route', 1): 'routeIface',
    ('security', 'set_security_policy', 0): 'setSecurityPolicy',
    ('security', 'set_authentication_policy', 0): 'setAuthenticationPolicy',
    ('security', 'set_authorization_policy', 0): 'setAuthorizationPolicy',
    ('security', 'set_authorization_policy', 1): 'ensureAuthentication',
    ('security', 'set_default_permission', 0): 'setDefaultPermission',
    ('security', 'add_permission', 0): 'addPermission',
    ('security', 'set_default_csrf_options', 0): 'setDefaultCSRFOptions',
    ('security', 'set_csrf_storage_policy', 0): 'setCSRFStoragePolicy',
    ('tweens', '_add_tween', 0): 'addTween',
    ('views', 'add_view', 0): 'addView',
    ('views', 'add_accept_view_order', 0): 'addAcceptViewOrder',
    ('views', 'add_view_deriver', 0): 'addViewDeriver',
    ('views', 'set_view_mapper', 0): 'setViewMapper',
    ('views', 'add', 0): 'staticRegister',
    ('views', 'add_cache_buster', 0): 'cacheBuster',
}

summary = {}


def _int_const(node):
    if isinstance(node, ast.Constant) and isinstance(node.value, int) and not isinstance(node.value, bool):
        return node.value
    if isinstance(node, ast.UnaryOp) and isinstance(node.op, ast.USub) and isinstance(node.operand, ast.Constant) \
            and isinstance(node.operand.value, int):
        return -node.operand.value
    return None


def phase_constants(src_root):
    tree = ast.parse(open(os.path.join(src_root, 'pyramid', 'interfaces.py')).read())
    out = {}
    for n in tree.body:
        if isinstance(n, ast.Assign) and len(n.targets) == 1 and isinstance(n.targets[0], ast.Name) \
                and n.targets[0].id.startswith('PHASE') and n.targets[0].id.endswith('_CONFIG'):
            out[n.targets[0].id] = _int_const(n.value)
    return out


def default_order(src_root):
    """default of the `order` parameter of ActionConfiguratorMixin.action"""
    tree = ast.parse(open(os.path.join(src_root, 'pyramid', 'config', 'actions.py')).read())
    for cls in tree.body:
        if isinstance(cls, ast.ClassDef) and cls.name == 'ActionConfiguratorMixin':
            for f in cls.body:
                if isinstance(f, ast.FunctionDef) and f.name == 'action':
                    args = f.args.args
                    defaults = f.args.defaults
                    names = [a.arg for a in args]
                    if 'order' in names:
                        i = names.index('order') - (len(names) - len(defaults))
                        if i >= 0:
                            return _int_const(defaults[i])
    return None


def _is_action_call(node):
    return (isinstance(node, ast.Call) and isinstance(node.func, ast.Attribute) and node.func.attr == 'action'
            and isinstance(node.func.value, ast.Name) and node.func.value.id in ('self', 'config'))


def _shape_of_expr(e):
    if isinstance(e, ast.Constant) and e.value is None:
        return 'none'
    if isinstance(e, ast.Name) and e.id[:1] == 'I' and e.id[1:2].isupper():
        return 'iface'
    if isinstance(e, ast.Tuple) and len(e.elts) >= 1:
        return 'tuple'
    if isinstance(e, ast.Call) and isinstance(e.func, ast.Name) and e.func.id == 'Deferred' and len(e.args) == 1 \
            and isinstance(e.args[0], ast.Name):
        return 'deferred'
    return None


def _disc_shape(call, func):
    e = None
    if call.args:
        e = call.args[0]
    for kw in call.keywords:
        if kw.arg == 'discriminator':
            e = kw.value
    if e is None:
        return 'unknown'
    s = _shape_of_expr(e)
    if s:
        return s
    if isinstance(e, ast.Name):
        assigns = [n for n in ast.walk(func) if isinstance(n, ast.Assign) and len(n.targets) == 1
                   and isinstance(n.targets[0], ast.Name) and n.targets[0].id == e.id]
        if len(assigns) == 1:
            s = _shape_of_expr(assigns[0].value)
            if s:
                return s
    return 'unknown'


def _has_callable(call):
    e = call.args[1] if len(call.args) >= 2 else None
    for kw in call.keywords:
        if kw.arg == 'callable':
            e = kw.value
    if e is None or (isinstance(e, ast.Constant) and e.value is None):
        return False
    return True


def table(src_root):
    """list of rows (dicts) in (file, line) order"""
    phases = phase_constants(src_root)
    dflt = default_order(src_root)
    cfgdir = os.path.join(src_root, 'pyramid', 'config')
    rows = []
    for fn in sorted(os.listdir(cfgdir)):
        if not fn.endswith('.py'):
            continue
        stem = fn[:-3]
        tree = ast.parse(open(os.path.join(cfgdir, fn)).read())
        # directives = functions defined directly in a class body or at module level
        tops = []
        for n in tree.body:
            if isinstance(n, ast.ClassDef):
                tops += [f for f in n.body if isinstance(f, ast.FunctionDef)]
            elif isinstance(n, ast.FunctionDef):
                tops.append(n)
        for f in tops:
            calls = sorted((c for c in ast.walk(f) if _is_action_call(c)), key=lambda c: (c.lineno, c.col_offset))
            for idx, c in enumerate(calls):
                order_expr = None
                for kw in c.keywords:
                    if kw.arg == 'order':
                        order_expr = kw.value
                if any(kw.arg is None for kw in c.keywords):     # **kwargs could carry order / discriminator
                    phase, phase_src = None, '**'
                elif order_expr is None:
                    phase, phase_src = dflt, 'default'
                elif isinstance(order_expr, ast.Name) and order_expr.id in phases:
                    phase, phase_src = phases[order_expr.id], order_expr.id
                else:
                    phase = _int_const(order_expr)
                    phase_src = 'literal' if phase is not None else 'NOT UNDERSTOOD: ' + ast.unparse(order_expr).replace('\n', ' ')
                rows.append({
                    'file': stem, 'func': f.name, 'idx': idx, 'line': c.lineno, 'end_line': c.end_lineno,
                    'kind': KNOWN_SITES.get((stem, f.name, idx), 'unknown'),
                    'phase': phase, 'phase_src': phase_src, 'disc': _disc_shape(c, f),
                    'callable': _has_callable(c),
                })
    return rows, phases, dflt


def _lean_int(v):
    return 'none' if v is None else ('some (%d)' % v)


def generate(src_root):
    rows, phases, dflt = table(src_root)
    lines = ['import PyramidModel.ConfigOrder',
             '/-! GENERATED by extract/c08.py from src/pyramid/config/*.py and src/pyramid/interfaces.py — do not edit.',
             'One row per `self.action(…)` / `config.action(…)` call: kind (call site), phase (`order=` resolved through the',
             'PHASEn_CONFIG constants; absent = the default of `ActionConfiguratorMixin.action`), discriminator shape, callable? -/',
             'namespace Pyr.ConfigOrder.Gen', '']
    for k in ('PHASE0_CONFIG', 'PHASE1_CONFIG', 'PHASE2_CONFIG', 'PHASE3_CONFIG'):
        lines.append('def %s : Option Int := %s' % (k.lower().replace('_config', ''), _lean_int(phases.get(k))))
    lines.append('def defaultOrder : Option Int := %s' % _lean_int(dflt))
    lines.append('')
    lines.append('def rows : List Row := [')
    body = []
    for r in rows:
        body.append('  ⟨.%s, %s, .%s, %s⟩  -- %s.py:%d %s#%d order=%s' % (
            r['kind'], _lean_int(r['phase']), r['disc'], 'true' if r['callable'] else 'false',
            r['file'], r['line'], r['func'], r['idx'], r['phase_src']))
    # the comma must precede the comment
    fixed = []
    for i, b in enumerate(body):
        code, _, comment = b.partition('  -- ')
        fixed.append(code + (',' if i + 1 < len(body) else '') + '  -- ' + comment)
    lines += fixed
    lines.append(']')
    lines.append('')
    lines.append('end Pyr.ConfigOrder.Gen')
    summary.clear()
    summary.update({'rows': len(rows), 'unknown_kinds': [(r['file'], r['func'], r['idx']) for r in rows if r['kind'] == 'unknown'],
                    'unknown_phases': [(r['file'], r['func'], r['idx'], r['phase_src']) for r in rows if r['phase'] is None],
                    'unknown_discs': [(r['file'], r['func'], r['idx']) for r in rows if r['disc'] == 'unknown'],
                    'phases': phases, 'default_order': dflt})
    return {'PyramidModel/Gen/C08Phases.lean': '\n'.join(lines) + '\n'}


if __name__ == '__main__':
    import sys
    src = sys.argv[1] if len(sys.argv) > 1 else '/repo/src'
    for rel, text in generate(src).items():
        print(text)
    print(summary, file=sys.stderr)
