"""C08 phase table  →  lean/PyramidModel/Gen/C08Phases.lean.

SINCE THE FIFTH ROUND the table is a PROBE OF THE RUNNING CODE, not an AST read: a child interpreter (PYTHONPATH = the
tree under test) builds a non-autocommit Configurator, calls every modelled directive with canonical arguments (several
argument variants where the directive branches: named / default renderer, the three predicate types, the three
request-method forms, plain / route / exception views …) and reads what each call appended to
`config.action_state.actions`: discriminator (shape), `order`, callable?, introspectables? — plus the call site
(file, line, function) of the `self.action(…)` call, taken from the caller's frame by a logging subclass, which the
harness uses to map executed actions to kinds.  One row per kind: the phase is the order all variants agree on
(`none` when they disagree or the directive no longer declares the expected number of actions: every theorem over the
table then fails).  It fails closed only when the probe cannot run.  A refactoring that computes `order=` differently
(aliases, helper methods, functools.partial callables, reordered keywords) is invisible to it as long as the declared
actions are the same.  The former AST read (below, `table()`) is kept as optional information in the summary.

Former description — AST read: every `self.action(…)` / `config.action(…)` call of src/pyramid/config/*.py  →
lean/PyramidModel/Gen/C08Phases.lean  (directive, action kind, phase, discriminator shape, deferred?, callable?).

Python `ast` only.  Nothing is guessed:
* a call site that is not in KNOWN_SITES gets the kind `Kind.unknown`;
* an `order=` that is neither absent (→ the default of `ActionConfiguratorMixin.action`, read from its signature),
  an integer literal, nor one of the PHASEn_CONFIG names assigned an integer literal in interfaces.py → `none`;
* a discriminator expression that is not `None`, an interface name, a tuple display, or a name assigned exactly
  once in the directive to one of those / to `Deferred(<function>)` → `DiscShape.unknown`.
Every theorem over the table (`phase_table_sound`, `table_complete`, …) then fails, which is the intention.
"""
import ast, os

# (file stem, directive function, n-th action call inside it) -> constructor of Pyr.ConfigOrder.Kind
KNOWN_SITES = {
    ('adapters', 'add_subscriber', 0): 'addSubscriber',
    ('adapters', 'add_response_adapter', 0): 'addResponseAdapter',
    ('adapters', 'add_traverser', 0): 'addTraverser',
    ('adapters', 'add_resource_url_adapter', 0): 'addResourceUrlAdapter',
    ('assets', 'override_asset', 0): 'overrideAsset',
    ('factories', 'set_root_factory', 0): 'setRootFactory',
    ('factories', 'set_session_factory', 0): 'setSessionFactory',
    ('factories', 'set_request_factory', 0): 'setRequestFactory',
    ('factories', 'set_response_factory', 0): 'setResponseFactory',
    ('factories', 'add_request_method', 0): 'addRequestMethodNone',
    ('factories', 'add_request_method', 1): 'addRequestMethodProp',
    ('factories', 'add_request_method', 2): 'addRequestMethod',
    ('factories', 'set_execution_policy', 0): 'setExecutionPolicy',
    ('i18n', 'set_locale_negotiator', 0): 'setLocaleNegotiator',
    ('i18n', 'add_translation_dirs', 0): 'addTranslationDirs',
    ('predicates', '_add_predicate', 0): 'addPredicate',
    ('rendering', 'add_renderer', 0): 'addRenderer',
    ('routes', 'add_route', 0): 'routeConnect',
    ('routes', 'add_route', 1): 'routeIface',
    ('security', 'set_security_policy', 0): 'setSecurityPolicy',
    ('security', 'set_authentication_policy', 0): 'setAuthenticationPolicy',
    ('security', 'set_authorization_policy', 0): 'setAuthorizationPolicy',
    ('security', 'set_authorization_policy', 1): 'ensureAuthentication',
    ('security', 'set_default_permission', 0): 'setDefaultPermission',
    ('security', 'add_permission', 0): 'addPermission',
    ('security', 'set_default_csrf_options', 0): 'setDefaultCSRFOptions',
    ('security', 'set_csrf_storage_policy', 0): 'setCSRFStoragePolicy',
    ('tweens', '_add_tween', 0): 'addTween',
    ('views', 'add_view', 0): 'addView',
    ('views', 'add_accept_view_order', 0): 'addAcceptViewOrder',
    ('views', 'add_view_deriver', 0): 'addViewDeriver',
    ('views', 'set_view_mapper', 0): 'setViewMapper',
    ('views', 'add', 0): 'staticRegister',
    ('views', 'add_cache_buster', 0): 'cacheBuster',
}

summary = {}


def _int_const(node):
    if isinstance(node, ast.Constant) and isinstance(node.value, int) and not isinstance(node.value, bool):
        return node.value
    if isinstance(node, ast.UnaryOp) and isinstance(node.op, ast.USub) and isinstance(node.operand, ast.Constant) \
            and isinstance(node.operand.value, int):
        return -node.operand.value
    return None


def phase_constants(src_root):
    tree = ast.parse(open(os.path.join(src_root, 'pyramid', 'interfaces.py')).read())
    out = {}
    for n in tree.body:
        if isinstance(n, ast.Assign) and len(n.targets) == 1 and isinstance(n.targets[0], ast.Name) \
                and n.targets[0].id.startswith('PHASE') and n.targets[0].id.endswith('_CONFIG'):
            out[n.targets[0].id] = _int_const(n.value)
    return out


def default_order(src_root):
    """default of the `order` parameter of ActionConfiguratorMixin.action"""
    tree = ast.parse(open(os.path.join(src_root, 'pyramid', 'config', 'actions.py')).read())
    for cls in tree.body:
        if isinstance(cls, ast.ClassDef) and cls.name == 'ActionConfiguratorMixin':
            for f in cls.body:
                if isinstance(f, ast.FunctionDef) and f.name == 'action':
                    args = f.args.args
                    defaults = f.args.defaults
                    names = [a.arg for a in args]
                    if 'order' in names:
                        i = names.index('order') - (len(names) - len(defaults))
                        if i >= 0:
                            return _int_const(defaults[i])
    return None


def _is_action_call(node):
    return (isinstance(node, ast.Call) and isinstance(node.func, ast.Attribute) and node.func.attr == 'action'
            and isinstance(node.func.value, ast.Name) and node.func.value.id in ('self', 'config'))


def _shape_of_expr(e):
    if isinstance(e, ast.Constant) and e.value is None:
        return 'none'
    if isinstance(e, ast.Name) and e.id[:1] == 'I' and e.id[1:2].isupper():
        return 'iface'
    if isinstance(e, ast.Tuple) and len(e.elts) >= 1:
        return 'tuple'
    if isinstance(e, ast.Call) and isinstance(e.func, ast.Name) and e.func.id == 'Deferred' and len(e.args) == 1 \
            and isinstance(e.args[0], ast.Name):
        return 'deferred'
    return None


def _disc_shape(call, func):
    e = None
    if call.args:
        e = call.args[0]
    for kw in call.keywords:
        if kw.arg == 'discriminator':
            e = kw.value
    if e is None:
        return 'unknown'
    s = _shape_of_expr(e)
    if s:
        return s
    if isinstance(e, ast.Name):
        assigns = [n for n in ast.walk(func) if isinstance(n, ast.Assign) and len(n.targets) == 1
                   and isinstance(n.targets[0], ast.Name) and n.targets[0].id == e.id]
        if len(assigns) == 1:
            s = _shape_of_expr(assigns[0].value)
            if s:
                return s
    return 'unknown'


def _has_callable(call):
    e = call.args[1] if len(call.args) >= 2 else None
    for kw in call.keywords:
        if kw.arg == 'callable':
            e = kw.value
    if e is None or (isinstance(e, ast.Constant) and e.value is None):
        return False
    return True


def table(src_root):
    """list of rows (dicts) in (file, line) order"""
    phases = phase_constants(src_root)
    dflt = default_order(src_root)
    cfgdir = os.path.join(src_root, 'pyramid', 'config')
    rows = []
    for fn in sorted(os.listdir(cfgdir)):
        if not fn.endswith('.py'):
            continue
        stem = fn[:-3]
        tree = ast.parse(open(os.path.join(cfgdir, fn)).read())
        # directives = functions defined directly in a class body or at module level
        tops = []
        for n in tree.body:
            if isinstance(n, ast.ClassDef):
                tops += [f for f in n.body if isinstance(f, ast.FunctionDef)]
            elif isinstance(n, ast.FunctionDef):
                tops.append(n)
        for f in tops:
            calls = sorted((c for c in ast.walk(f) if _is_action_call(c)), key=lambda c: (c.lineno, c.col_offset))
            for idx, c in enumerate(calls):
                order_expr = None
                for kw in c.keywords:
                    if kw.arg == 'order':
                        order_expr = kw.value
                if any(kw.arg is None for kw in c.keywords):     # **kwargs could carry order / discriminator
                    phase, phase_src = None, '**'
                elif order_expr is None:
                    phase, phase_src = dflt, 'default'
                elif isinstance(order_expr, ast.Name) and order_expr.id in phases:
                    phase, phase_src = phases[order_expr.id], order_expr.id
                else:
                    phase = _int_const(order_expr)
                    phase_src = 'literal' if phase is not None else 'NOT UNDERSTOOD: ' + ast.unparse(order_expr).replace('\n', ' ')
                rows.append({
                    'file': stem, 'func': f.name, 'idx': idx, 'line': c.lineno, 'end_line': c.end_lineno,
                    'kind': KNOWN_SITES.get((stem, f.name, idx), 'unknown'),
                    'phase': phase, 'phase_src': phase_src, 'disc': _disc_shape(c, f),
                    'callable': _has_callable(c),
                })
    return rows, phases, dflt


def _lean_int(v):
    return 'none' if v is None else ('some (%d)' % v)


KIND_ORDER = ['addSubscriber', 'addResponseAdapter', 'addTraverser', 'addResourceUrlAdapter', 'overrideAsset',
              'setRootFactory', 'setSessionFactory', 'setRequestFactory', 'setResponseFactory', 'addRequestMethodNone',
              'addRequestMethodProp', 'addRequestMethod', 'setExecutionPolicy', 'setLocaleNegotiator', 'addTranslationDirs',
              'addPredicate', 'addRenderer', 'routeConnect', 'routeIface', 'setSecurityPolicy', 'setAuthenticationPolicy',
              'setAuthorizationPolicy', 'ensureAuthentication', 'setDefaultPermission', 'addPermission',
              'setDefaultCSRFOptions', 'setCSRFStoragePolicy', 'addTween', 'addView', 'addAcceptViewOrder', 'addViewDeriver',
              'setViewMapper', 'staticRegister', 'cacheBuster']

PROBE_CODE = r"""
import json, os, sys, warnings
warnings.filterwarnings('ignore')
import pyramid
from pyramid.config import Configurator
from pyramid.registry import Deferred
from zope.interface.interfaces import IInterface

LOG = []


class P(Configurator):
    def action(self, discriminator, callable=None, args=(), kw=None, order=0, introspectables=(), **extra):
        f = sys._getframe(1)
        LOG.append({'file': os.path.basename(f.f_code.co_filename)[:-3], 'line': f.f_lineno, 'func': f.f_code.co_name})
        return Configurator.action(self, discriminator, callable, args, kw, order, introspectables, **extra)


def shape(d):
    if d is None:
        return 'none'
    if isinstance(d, Deferred):
        return 'deferred'
    if isinstance(d, tuple) and len(d) >= 1:
        return 'tuple'
    if IInterface.providedBy(d):
        return 'iface'
    return 'unknown'


def view(context, request):
    return None


class Thing:
    def __init__(self, *a, **k):
        pass

    def __call__(self, *a, **k):
        return True

    def text(self):
        return 't'
    phash = text


def deriver(v, info):
    return v


HERE = os.path.dirname(pyramid.__file__)
c = P()
c.commit()
OUT = []


def probe(name, kinds, fn):
    n0, l0 = len(c.action_state.actions), len(LOG)
    try:
        fn(c)
    except Exception as e:
        OUT.append({'directive': name, 'error': '%s: %s' % (type(e).__name__, e), 'kinds': kinds})
        return
    new = c.action_state.actions[n0:]
    sites = LOG[l0:]
    for i, a in enumerate(new):
        site = sites[i] if len(sites) == len(new) else {'file': '?', 'line': 0, 'func': '?'}
        OUT.append({'directive': name, 'index': i, 'expected': len(kinds), 'got': len(new),
                    'kind': kinds[i] if len(new) == len(kinds) else 'unknown',
                    'order': a.get('order'), 'disc': shape(a.get('discriminator')),
                    'callable': a.get('callable') is not None, 'introspectables': len(a.get('introspectables') or ()),
                    'file': site['file'], 'line': site['line'], 'func': site['func']})
    if not new:
        OUT.append({'directive': name, 'error': 'declared no action', 'kinds': kinds})


from pyramid.events import NewRequest
from pyramid.response import Response
from pyramid.authorization import ACLAuthorizationPolicy
from pyramid.authentication import RemoteUserAuthenticationPolicy
from pyramid.static import QueryStringConstantCacheBuster

probe('add_subscriber', ['addSubscriber'], lambda c: c.add_subscriber(lambda e: None, NewRequest))
probe('add_response_adapter', ['addResponseAdapter'], lambda c: c.add_response_adapter(None, Thing))
probe('add_traverser', ['addTraverser'], lambda c: c.add_traverser(Thing))
probe('add_resource_url_adapter', ['addResourceUrlAdapter'], lambda c: c.add_resource_url_adapter(Thing))
probe('override_asset', ['overrideAsset'], lambda c: c.override_asset('pyramid:static/', 'pyramid:scaffolds/'))
probe('set_root_factory', ['setRootFactory'], lambda c: c.set_root_factory(Thing))
probe('set_session_factory', ['setSessionFactory'], lambda c: c.set_session_factory(Thing))
probe('set_request_factory', ['setRequestFactory'], lambda c: c.set_request_factory(Thing))
probe('set_response_factory', ['setResponseFactory'], lambda c: c.set_response_factory(Thing))
probe('add_request_method(name only)', ['addRequestMethodNone'], lambda c: c.add_request_method(name='vfnm0'))
probe('add_request_method(property)', ['addRequestMethodProp'], lambda c: c.add_request_method(view, name='vfnm1', property=True))
probe('add_request_method(reify)', ['addRequestMethodProp'], lambda c: c.add_request_method(view, name='vfnm2', reify=True))
probe('add_request_method', ['addRequestMethod'], lambda c: c.add_request_method(view, name='vfnm3'))
probe('set_execution_policy', ['setExecutionPolicy'], lambda c: c.set_execution_policy(view))
probe('set_locale_negotiator', ['setLocaleNegotiator'], lambda c: c.set_locale_negotiator(view))
probe('add_translation_dirs', ['addTranslationDirs'], lambda c: c.add_translation_dirs(HERE))
probe('add_view_predicate', ['addPredicate'], lambda c: c.add_view_predicate('vfp', Thing))
probe('add_route_predicate', ['addPredicate'], lambda c: c.add_route_predicate('vfp', Thing))
probe('add_subscriber_predicate', ['addPredicate'], lambda c: c.add_subscriber_predicate('vfp', Thing))
probe('add_renderer(named)', ['addRenderer'], lambda c: c.add_renderer('vfrend', Thing))
probe('add_renderer(built-in name)', ['addRenderer'], lambda c: c.add_renderer('json', Thing))
probe('add_renderer(default)', ['addRenderer'], lambda c: c.add_renderer(None, Thing))
probe('add_route', ['routeConnect', 'routeIface'], lambda c: c.add_route('vfroute', '/vfroute/{x}'))
probe('add_route(static)', ['routeConnect', 'routeIface'], lambda c: c.add_route('vfroute2', '/vfroute2', static=True))
probe('set_security_policy', ['setSecurityPolicy'], lambda c: c.set_security_policy(Thing()))
probe('set_authorization_policy', ['setAuthorizationPolicy', 'ensureAuthentication'], lambda c: c.set_authorization_policy(ACLAuthorizationPolicy()))
probe('set_authentication_policy', ['setAuthenticationPolicy'], lambda c: c.set_authentication_policy(RemoteUserAuthenticationPolicy()))
probe('set_default_permission', ['setDefaultPermission'], lambda c: c.set_default_permission('vfperm'))
probe('add_permission', ['addPermission'], lambda c: c.add_permission('vfperm2'))
probe('set_default_csrf_options', ['setDefaultCSRFOptions'], lambda c: c.set_default_csrf_options())
probe('set_csrf_storage_policy', ['setCSRFStoragePolicy'], lambda c: c.set_csrf_storage_policy(Thing()))
probe('add_tween', ['addTween'], lambda c: c.add_tween('pyramid.tweens.excview_tween_factory'))
probe('add_tween(constrained)', ['addTween'], lambda c: c.add_tween('pyramid.tweens.excview_tween_factory', under='pyramid.tweens.MAIN'))
probe('add_view', ['addView'], lambda c: c.add_view(view, name='vfv'))
probe('add_view(route, renderer, permission)', ['addView'], lambda c: c.add_view(view, route_name='vfroute', renderer='json', permission='vfperm'))
probe('add_view(exception context)', ['addView'], lambda c: c.add_view(view, context=ValueError))
probe('add_notfound_view', ['addView'], lambda c: c.add_notfound_view(view))
probe('add_forbidden_view', ['addView'], lambda c: c.add_forbidden_view(view))
probe('add_exception_view', ['addView'], lambda c: c.add_exception_view(view, context=KeyError))
probe('add_accept_view_order', ['addAcceptViewOrder'], lambda c: c.add_accept_view_order('text/html'))
probe('add_view_deriver', ['addViewDeriver'], lambda c: c.add_view_deriver(deriver, name='vfderiver'))
probe('set_view_mapper', ['setViewMapper'], lambda c: c.set_view_mapper(Thing))
probe('add_static_view', ['routeConnect', 'routeIface', 'addView', 'staticRegister'], lambda c: c.add_static_view('vfstatic', HERE))
probe('add_cache_buster', ['cacheBuster'], lambda c: c.add_cache_buster(HERE, QueryStringConstantCacheBuster('x')))
import pyramid.interfaces as I
print(json.dumps({'rows': OUT, 'phases': {k: getattr(I, k, None) for k in ('PHASE0_CONFIG', 'PHASE1_CONFIG', 'PHASE2_CONFIG', 'PHASE3_CONFIG')},
                  'default_order': __import__('inspect').signature(Configurator.action).parameters['order'].default}))
"""

_PROBE = {}


def probe(src_root):
    """run the probe in a child interpreter on the tree `src_root`; -> dict(rows, phases, default_order, kinds, sites)"""
    import json, subprocess, sys, inspect
    if src_root in _PROBE:
        return _PROBE[src_root]
    env = dict(os.environ)
    env['PYTHONPATH'] = src_root + os.pathsep + env.get('PYTHONPATH', '')
    env['PYTHONWARNINGS'] = 'ignore'
    p = subprocess.run([sys.executable, '-c', PROBE_CODE], env=env, stdout=subprocess.PIPE, stderr=subprocess.PIPE, timeout=120)
    if p.returncode != 0:
        raise RuntimeError('the directive probe could not run on %s: %s' % (src_root, p.stderr.decode(errors='replace')[-800:]))
    data = json.loads(p.stdout.decode().strip().splitlines()[-1])
    rows = data['rows']
    kinds = {}
    for r in rows:
        if 'error' in r:
            for k in r['kinds']:
                kinds.setdefault(k, {'orders': set(), 'discs': set(), 'callable': set(), 'notes': []})['notes'].append(
                    '%s: %s' % (r['directive'], r['error']))
            continue
        k = kinds.setdefault(r['kind'], {'orders': set(), 'discs': set(), 'callable': set(), 'notes': []})
        k['orders'].add(r['order']); k['discs'].add(r['disc']); k['callable'].add(r['callable'])
        k['notes'].append('%s#%d %s.py order=%r' % (r['directive'], r['index'], r['file'], r['order']))
        if r['kind'] == 'unknown':
            k['notes'].append('%s declared %d actions, %d expected' % (r['directive'], r['got'], r['expected']))
    # the default `order` of Configurator.action = what a directive that passes none gets: read off a probe row is not
    # possible in general, so it is read from the signature in the child (kept None here) and from the AST as information
    sites = {}
    for r in rows:
        if 'error' not in r and r['file'] != '?':
            sites[(r['file'], r['line'])] = r
    out = {'rows': rows, 'phases': data['phases'], 'kinds': kinds, 'sites': sites, 'default_order': data.get('default_order')}
    _PROBE[src_root] = out
    return out


def generate(src_root):
    pr = probe(src_root)
    phases = pr['phases']
    dflt = pr.get('default_order') if isinstance(pr.get('default_order'), int) else None
    lines = ['import PyramidModel.ConfigOrder',
             '/-! GENERATED by extract/c08.py — do not edit.  A PROBE of the running code: every modelled directive was called on',
             'a non-autocommit Configurator of the tree under test and the actions it appended to `action_state.actions` were',
             'read (discriminator shape, `order`, callable?).  One row per action kind; `none` = the probed argument variants',
             'disagree / the directive no longer declares the expected actions. -/',
             'namespace Pyr.ConfigOrder.Gen', '']
    for k in ('PHASE0_CONFIG', 'PHASE1_CONFIG', 'PHASE2_CONFIG', 'PHASE3_CONFIG'):
        v = phases.get(k)
        lines.append('def %s : Option Int := %s' % (k.lower().replace('_config', ''), _lean_int(v if isinstance(v, int) else None)))
    lines.append('def defaultOrder : Option Int := %s' % _lean_int(dflt))
    lines.append('')
    lines.append('def rows : List Row := [')
    body = []
    problems = []
    for kind in KIND_ORDER + (['unknown'] if 'unknown' in pr['kinds'] else []):
        k = pr['kinds'].get(kind)
        if k is None:
            problems.append('%s: never declared by any probed directive' % kind)
            continue
        orders = {o for o in k['orders']}
        phase = list(orders)[0] if len(orders) == 1 and isinstance(list(orders)[0], int) else None
        disc = list(k['discs'])[0] if len(k['discs']) == 1 else 'unknown'
        call = 'true' if k['callable'] == {True} else ('false' if k['callable'] == {False} else 'true')
        if phase is None or disc == 'unknown' or kind == 'unknown':
            problems.append('%s: %s' % (kind, '; '.join(k['notes'])[:300]))
        note = '; '.join(sorted(set(n.split(' order=')[0] for n in k['notes'])))[:160]
        body.append(('  ⟨.%s, %s, .%s, %s⟩' % (kind, _lean_int(phase), disc, call), '%s  orders=%s' % (note, sorted(orders, key=repr))))
    for i, (code, comment) in enumerate(body):
        lines.append(code + (',' if i + 1 < len(body) else '') + '  -- ' + comment.replace('\n', ' '))
    lines.append(']')
    lines.append('')
    lines.append('end Pyr.ConfigOrder.Gen')
    summary.clear()
    summary.update({'rows': len(body), 'probed_actions': len([r for r in pr['rows'] if 'error' not in r]),
                    'problems': problems, 'phases': phases, 'default_order': dflt})
    try:        # optional information: the former AST read
        arows, _, _ = table(src_root)
        summary['ast_info'] = {'action_call_sites': len(arows),
                               'order_not_understood_by_ast': [(r['file'], r['func'], r['idx'], r['phase_src']) for r in arows if r['phase'] is None],
                               'sites_not_in_dictionary': [(r['file'], r['func'], r['idx']) for r in arows if r['kind'] == 'unknown']}
    except Exception as e:
        summary['ast_info'] = 'AST read failed: %s' % e
    return {'PyramidModel/Gen/C08Phases.lean': '\n'.join(lines) + '\n'}


if __name__ == '__main__':
    import sys
    src = sys.argv[1] if len(sys.argv) > 1 else '/repo/src'
    for rel, text in generate(src).items():
        print(text)
    print(summary, file=sys.stderr)
