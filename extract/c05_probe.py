"""Behavioural probes for C05 — run as a SUBPROCESS of extract/c05.py with the tree under test first on sys.path:
    python extract/c05_probe.py <src_root>      -> one JSON object on stdout
Every table below is obtained by RUNNING the code of the tree under test over a finite domain.  Each probe fails
closed: an exception or an unexpected value makes that table `null` / "unknown", and the Lean obligation over it fails.
"""
import itertools, json, os, sys, traceback, warnings

SRC = os.path.realpath(sys.argv[1]) if len(sys.argv) > 1 else None
if SRC:
    sys.path.insert(0, SRC)
warnings.simplefilter('ignore')


def _own_tree():
    import pyramid
    return SRC is None or os.path.realpath(pyramid.__file__).startswith(SRC + os.sep)


class Req:
    """a minimal request object (the probed code only reads attributes)"""

    def __init__(self, registry=None):
        self.registry = registry


# ------------------------------------------------------------------------------------------------ (A) chain

def probe_chain():
    """the default deriver pipeline: hints as recorded by add_view_deriver, the sorter's output, and the
    wrapping order OBSERVED by replacing every deriver with a tracing one and calling a derived view"""
    import pyramid.viewderivers as vd
    import pyramid.config.views as cv
    from pyramid.config import Configurator
    from pyramid.interfaces import IViewDerivers
    config = Configurator()
    hints = []
    for item in config.introspector.get_category('view derivers'):
        intr = item['introspectable']
        hints.append([intr['name'], list(intr['under']), list(intr['over'])])
    sorted_names = [n for n, _ in config.registry.getUtility(IViewDerivers).sorted()]
    log = []

    def tracer(name, real):
        def deriver(view, info):
            def traced(context, request):
                log.append(name)
                return view(context, request)
            return traced
        deriver.options = getattr(real, 'options', ())
        deriver.__name__ = name
        return deriver
    saved = []
    traced_names = []
    try:
        for name in sorted_names:
            real = getattr(vd, name)
            saved.append((vd, name, real))
            setattr(vd, name, tracer(name, real))
            traced_names.append(name)
        for name in ('attr_wrapped_view', 'predicated_view'):
            real = getattr(cv, name)
            saved.append((cv, name, real))
            setattr(cv, name, tracer(name, real))
            traced_names.append(name)
        config2 = Configurator()
        sorted2 = [n for n, _ in config2.registry.getUtility(IViewDerivers).sorted()]

        def view(context, request):
            log.append('BODY')
            return 'resp'
        derived = config2.derive_view(view)
        out = derived(None, None)
        # every layer that wrapped is one of the traced ones (an untraced wrapping deriver would add a layer)
        depth, cur = 0, derived
        while getattr(cur, '__wraps__', None) is not None and cur is not view and depth < 50:
            cur = cur.__wraps__
            depth += 1
    finally:
        for mod, name, real in saved:
            setattr(mod, name, real)
    ok = (out == 'resp' and log and log[-1] == 'BODY' and sorted2 == sorted_names and depth == len(traced_names)
          and sorted(log[:-1]) == sorted(traced_names))
    return {'hints': hints, 'sorted': sorted_names, 'wrapping': log[:-1] if ok else ['unknown']}


# --------------------------------------------------------------------------------------- (B) secured_view

ANSWERS = ['True', 'False', '1', '0', 'yes', 'empty', 'None', 'Allowed', 'Denied']


def _answer(style):
    from pyramid.security import Allowed, Denied
    return {'True': True, 'False': False, '1': 1, '0': 0, 'yes': 'yes', 'empty': '', 'None': None,
            'Allowed': Allowed('a'), 'Denied': Denied('d')}[style]


def probe_secured():
    """pyramid.viewderivers.secured_view (the registered deriver) over
    permission {absent,'p',marker} x exception_only x default {unset,'d',marker} x policy {absent, answering in 9 styles}"""
    import pyramid.viewderivers as vd
    from pyramid.config.views import ViewDeriverInfo
    from pyramid.registry import Registry
    from pyramid.interfaces import ISecurityPolicy, IDefaultPermission
    from pyramid.security import NO_PERMISSION_REQUIRED
    from pyramid.httpexceptions import HTTPForbidden
    rows = []
    PERMS = {0: None, 1: 'p', 2: NO_PERMISSION_REQUIRED}
    DFLTS = {0: None, 1: 'd', 2: NO_PERMISSION_REQUIRED}
    for perm, exc_only, dflt, style in itertools.product((0, 1, 2), (False, True), (0, 1, 2), [None] + ANSWERS):
        events = []
        ctx, req = object(), Req()

        class Policy:
            def permits(self, request, context, permission):
                good = request is req and context is ctx
                events.append({'p': 10, 'd': 11}.get(permission, 19) if good else 19)
                return _answer(style)

        def view(context, request):
            events.append(20 if (context is ctx and request is req) else 29)
            return 'resp'
        reg = Registry()
        if style is not None:
            reg.registerUtility(Policy(), ISecurityPolicy)
        if DFLTS[dflt] is not None:
            reg.registerUtility(DFLTS[dflt], IDefaultPermission)
        info = ViewDeriverInfo(view=view, registry=reg, package=None, predicates=[], exception_only=exc_only,
                               options={'permission': PERMS[perm]})
        derived = vd.secured_view(view, info)
        wrapped = derived is not view
        pa = getattr(derived, '__permission__', None)
        guard = 0 if not wrapped else {'p': 1, 'd': 2}.get(pa, 9)
        permissive_inner = (getattr(derived, '__call_permissive__', None) is view) if wrapped else (not hasattr(derived, '__call_permissive__'))
        try:
            r = derived(ctx, req)
            outcome = 0 if r == 'resp' else 9
        except HTTPForbidden:
            outcome = 1
        except Exception:
            outcome = 9
        trace = list(events)
        del events[:]
        permitted = 2
        if hasattr(derived, '__permitted__'):
            try:
                permitted = 1 if derived.__permitted__(ctx, req) else 0
            except Exception:
                permitted = 9
            if events != trace[:1]:
                permitted = 9
        rows.append({'perm': perm, 'exc_only': exc_only, 'dflt': dflt, 'policy': style is not None,
                     'truthy': bool(_answer(style)) if style is not None else False, 'style': style or 'absent',
                     'guard': guard, 'permissive_inner': bool(permissive_inner), 'trace': trace, 'outcome': outcome,
                     'permitted': permitted})
    return rows


# ----------------------------------------------------------------------------------------- (C) _call_view

def probe_call_view():
    """pyramid.view._call_view over 0..2 found view callables, each {response, PredicateMismatch, HTTPForbidden} x
    {plain, with a __call_permissive__ handle}, x secure {True, False}"""
    from zope.interface import Interface, implementer, providedBy
    from pyramid.registry import Registry
    from pyramid.interfaces import IRequest, IView, ISecuredView, IViewClassifier
    from pyramid.exceptions import PredicateMismatch
    from pyramid.httpexceptions import HTTPForbidden
    from pyramid.view import _call_view

    class A:
        pass

    class B(A):
        pass
    from zope.interface import implementedBy
    kinds = [(k, p) for k in (0, 1, 2) for p in (False, True)]   # 0 response, 1 mismatch, 2 forbidden
    rows = []
    for n in (0, 1, 2):
        for combo in itertools.product(kinds, repeat=n):
            for secure in (True, False):
                events = []
                reg = Registry()
                ctx = B()
                req = Req(reg)
                req.request_iface = IRequest
                for i, (kind, perm) in enumerate(combo):
                    def make(i=i, kind=kind, perm=perm):
                        def view(context, request):
                            events.append(i + 1)
                            if kind == 1:
                                raise PredicateMismatch('m')
                            if kind == 2:
                                raise HTTPForbidden('f')
                            return 'r%d' % (i + 1)
                        if perm:
                            def permissive(context, request):
                                events.append(100 + i + 1)
                                return 'r%d' % (100 + i + 1)
                            view.__call_permissive__ = permissive
                        return view
                    cls = (B, A)[i]
                    reg.registerAdapter(make(), (IViewClassifier, IRequest, implementedBy(cls)),
                                        ISecuredView if perm else IView, '')
                try:
                    r = _call_view(reg, req, ctx, providedBy(ctx), '', secure=secure)
                    if r is None:
                        out = ['none']
                    elif isinstance(r, str) and r[0] == 'r':
                        out = ['resp', int(r[1:])]
                    else:
                        out = ['other']
                except PredicateMismatch:
                    out = ['mismatch']
                except HTTPForbidden:
                    out = ['raised', 13]
                except Exception:
                    out = ['other']
                rows.append({'views': [[k, p] for k, p in combo], 'secure': secure, 'events': list(events), 'out': out})
    return rows


# ------------------------------------------------------------------------------------------ (D) MultiView

def probe_multiview():
    """pyramid.config.views.MultiView.__call__ / __call_permissive__ / __permitted__ over 0..2 constituent views, each
    predicate {none, true, false} x {unsecured, secured+granted, secured+refused}"""
    from pyramid.config.views import MultiView
    from pyramid.exceptions import PredicateMismatch
    from pyramid.httpexceptions import HTTPForbidden
    states = [(p, s) for p in (0, 1, 2) for s in (0, 1, 2)]   # p: 0 no predicate, 1 true, 2 false; s: 0 unsecured 1 granted 2 refused
    rows = []
    for n in (0, 1, 2):
        for combo in itertools.product(states, repeat=n):
            events = []
            mv = MultiView('')
            for i, (p, s) in enumerate(combo):
                def make(i=i, p=p, s=s):
                    def inner(context, request):
                        events.append(100 + i + 1)        # the body, reached through the permissive handle
                        return 'r%d' % (i + 1)

                    def view(context, request):
                        if p == 2:
                            raise PredicateMismatch('m')
                        if s == 0:
                            events.append(100 + i + 1)
                            return 'r%d' % (i + 1)
                        events.append(200 + i + 1)        # the policy is asked
                        if s == 2:
                            raise HTTPForbidden('f')
                        return inner(context, request)
                    if p:
                        view.__predicated__ = lambda context, request: p == 1
                    if s:
                        view.__call_permissive__ = inner

                        def permitted(context, request):
                            events.append(200 + i + 1)
                            return s == 1
                        view.__permitted__ = permitted
                    return view
                mv.add(make(), i, phash='h%d' % i)
            res = {}
            for meth in ('__call__', '__call_permissive__', '__permitted__'):
                del events[:]
                try:
                    r = getattr(mv, meth)(None, None)
                    if isinstance(r, str) and r[:1] == 'r':
                        out = ['resp', int(r[1:])]
                    elif r is True or r is False:
                        out = ['perm', r]
                    else:
                        out = ['other']
                except PredicateMismatch:
                    out = ['mismatch']
                except HTTPForbidden:
                    out = ['raised', 13]
                except Exception:
                    out = ['other']
                res[meth] = {'events': list(events), 'out': out}
            rows.append({'views': [[p, s] for p, s in combo], 'call': res['__call__'], 'permissive': res['__call_permissive__'],
                         'permitted': res['__permitted__']})
    return rows


# ------------------------------------------------------------------------------- (E) excview tween + invoke

def probe_tween():
    """pyramid.tweens.excview_tween_factory around a handler that raises E, with a real Request whose registry holds
    one exception view of each kind {none, response, PredicateMismatch, HTTPNotFound, HTTPForbidden, other} x
    {plain, carrying a __call_permissive__ handle}; also a handler that returns"""
    from zope.interface import implementedBy
    from pyramid.registry import Registry
    from pyramid.request import Request
    from pyramid.interfaces import IRequest, IView, ISecuredView, IExceptionViewClassifier
    from pyramid.exceptions import PredicateMismatch
    from pyramid.httpexceptions import HTTPForbidden, HTTPNotFound
    from pyramid.tweens import excview_tween_factory

    class E(Exception):
        pass

    class E2(Exception):
        pass
    rows = []
    for kind, perm in itertools.product((0, 1, 2, 3, 4, 5), (False, True)):
        if kind == 0 and perm:
            continue
        events = []
        reg = Registry()
        if kind:
            def view(context, request, kind=kind):
                events.append(1 if isinstance(context, E) else 9)
                if kind == 2:
                    raise PredicateMismatch('m')
                if kind == 3:
                    raise HTTPNotFound('n')
                if kind == 4:
                    raise HTTPForbidden('f')
                if kind == 5:
                    raise E2('x')
                return 'r1'
            if perm:
                def permissive(context, request):
                    events.append(101)
                    return 'r101'
                view.__call_permissive__ = permissive
            reg.registerAdapter(view, (IExceptionViewClassifier, IRequest, implementedBy(E)), ISecuredView if perm else IView, '')

        def handler(request):
            events.append(50)
            raise E('boom')
        tween = excview_tween_factory(handler, reg)
        req = Request.blank('/')
        req.registry = reg
        try:
            r = tween(req)
            out = ['resp', int(r[1:])] if isinstance(r, str) and r[:1] == 'r' else ['other']
        except E:
            out = ['raised', 1]            # the original exception
        except PredicateMismatch:
            out = ['raised', 16]
        except HTTPNotFound:
            out = ['raised', 14]
        except HTTPForbidden:
            out = ['raised', 13]
        except E2:
            out = ['raised', 2]
        except Exception:
            out = ['other']
        rows.append({'kind': kind, 'perm': perm, 'events': list(events), 'out': out})
    # a handler that returns is passed through untouched
    reg = Registry()
    tween = excview_tween_factory(lambda request: 'r7', reg)
    req = Request.blank('/')
    req.registry = reg
    rows.append({'kind': 9, 'perm': False, 'events': [], 'out': ['resp', 7] if tween(req) == 'r7' else ['other']})
    return rows


# ------------------------------------------------------------------------------------------------ (F) phases

def probe_phases():
    """for each directive: call it on a non-autocommit Configurator, then execute the actions it queued ONE BY ONE
    and record the `order` of the action whose execution produces the directive's effect (the ISecurityPolicy /
    IDefaultPermission utility appears, the view adapter appears, the route request interface appears)"""
    import pyramid.interfaces as pi
    from pyramid.config import Configurator
    from pyramid.registry import undefer
    from pyramid.interfaces import (ISecurityPolicy, IDefaultPermission, IAuthenticationPolicy, IAuthorizationPolicy,
                                    IRouteRequest, IViewClassifier, IRequest, IView, ISecuredView, IMultiView, IViewDerivers)
    from zope.interface import Interface
    consts = sorted((k, getattr(pi, k)) for k in dir(pi) if k.startswith('PHASE') and k.endswith('_CONFIG'))

    class Pol:
        def permits(self, request, context, permission):
            return True

    def have_view(reg):
        return any(reg.adapters.lookup((IViewClassifier, IRequest, Interface), t, name='probe') is not None
                   for t in (IView, ISecuredView, IMultiView))

    def view(context, request):
        return 'x'

    def tracer(view, info):
        return view
    def run_actions(config, actions, effect):
        found = []
        for a in actions:
            try:
                undefer(a['discriminator'])
                had = effect(config.registry)
                a['callable'](*a.get('args', ()), **(a.get('kw') or {}))
                if effect(config.registry) and not had:
                    found.append(int(a['order']))
            except Exception:
                pass                      # e.g. the legacy pair's `ensure` action; it cannot be the effectful one
        return found

    def prepare_authz(config):
        # the legacy pair: an authorization policy must already be registered when the authentication policy's
        # action installs the shim ISecurityPolicy
        config.registry.registerUtility(object(), IAuthorizationPolicy)
    out = {}
    specs = {
        'set_security_policy': (lambda c: c.set_security_policy(Pol()), lambda r: r.queryUtility(ISecurityPolicy) is not None, None),
        'set_default_permission': (lambda c: c.set_default_permission('d'), lambda r: r.queryUtility(IDefaultPermission) is not None, None),
        'set_authentication_policy': (lambda c: c.set_authentication_policy(object()), lambda r: r.queryUtility(ISecurityPolicy) is not None,
                                      prepare_authz),
        'add_view': (lambda c: c.add_view(view, name='probe'), have_view, None),
        'add_route': (lambda c: c.add_route('probe', '/probe'), lambda r: r.queryUtility(IRouteRequest, name='probe') is not None, None),
        'add_view_deriver': (lambda c: c.add_view_deriver(tracer, name='probe'),
                             lambda r: 'probe' in [n for n, _ in r.getUtility(IViewDerivers).sorted()], None),
    }
    for name, (directive, effect, prepare) in specs.items():
        try:
            config = Configurator(autocommit=False)
            if prepare:
                prepare(config)
            before = len(config.action_state.actions)
            directive(config)
            actions = list(config.action_state.actions)[before:]
            found = run_actions(config, actions, effect)
            out[name] = {'orders': [int(a['order']) for a in actions], 'effect': found}
        except Exception as e:
            out[name] = {'orders': [], 'effect': [], 'error': '%s: %s' % (type(e).__name__, e)}
    return {'constants': [[k, int(v)] for k, v in consts], 'directives': out}


# ------------------------------------------------------------------------------------- (G) special directives

def probe_directives():
    """add_forbidden_view / add_notfound_view / add_exception_view / add_static_view called on a configuration with a
    security policy AND a default permission: is the derived callable left unguarded, is it exception-only, is a
    `permission` argument rejected (static: honoured)"""
    import tempfile, shutil
    from pyramid.config import Configurator
    from pyramid.exceptions import ConfigurationError

    class Pol:
        def permits(self, request, context, permission):
            return False

    def view(context, request):
        return 'x'
    out = []
    d = tempfile.mkdtemp(prefix='verif_c05_probe_')
    try:
        for name in ('add_forbidden_view', 'add_notfound_view', 'add_exception_view', 'add_static_view'):
            try:
                config = Configurator(autocommit=False)
                config.set_security_policy(Pol())
                config.set_default_permission('d')
                if name == 'add_static_view':
                    config.add_static_view('probe_static', d)
                else:
                    getattr(config, name)(view)
                config.commit()
                intrs = [i['introspectable'] for i in config.introspector.get_category('views')]
                if name == 'add_static_view':
                    mine = [i for i in intrs if i.get('route_name') and 'probe_static' in i.get('route_name')]
                else:
                    mine = [i for i in intrs if i.get('callable') is view]
                if len(mine) != 1:
                    raise ValueError('expected one view introspectable, got %d' % len(mine))
                derived = mine[0]['derived_callable']
                unguarded = not hasattr(derived, '__call_permissive__') and not hasattr(derived, '__permitted__')
                exc_only = bool(mine[0].get('exception_only'))
                # a permission argument
                config2 = Configurator(autocommit=False)
                config2.set_security_policy(Pol())
                if name == 'add_static_view':
                    config2.add_static_view('probe_static', d, permission='p')
                    config2.commit()
                    i2 = [i['introspectable'] for i in config2.introspector.get_category('views')
                          if i['introspectable'].get('route_name') and 'probe_static' in i['introspectable'].get('route_name')]
                    rejects = False
                    honoured = len(i2) == 1 and getattr(i2[0]['derived_callable'], '__permission__', None) == 'p'
                    if not honoured:
                        raise ValueError('static view ignores an explicit permission')
                else:
                    try:
                        getattr(config2, name)(view, permission='p')
                        rejects = False
                    except ConfigurationError:
                        rejects = True
                out.append([name, 'unguarded' if unguarded else 'guarded', rejects, exc_only])
            except Exception as e:
                out.append([name, 'unknown', False, False])
    finally:
        shutil.rmtree(d, ignore_errors=True)
    return out


def probe_view_defaults():
    """the `viewdefaults` merge, observed end to end: `config.add_view(Sub, attr='go', …)` under a security policy with
    base class {undecorated, @view_defaults without permission, permission 'b', the marker} x Sub itself {same four, 'o'} x
    explicit argument {absent, 'e', the marker} x default permission {unset, 'd'}; the guard of the derived callable is
    read back (0 none, 1 'e', 2 'b', 3 'o', 4 'd').  Also: a class-level permission makes add_forbidden_view /
    add_notfound_view / add_exception_view refuse the class (their `permission` argument check)."""
    from pyramid.config import Configurator
    from pyramid.view import view_defaults
    from pyramid.security import NO_PERMISSION_REQUIRED
    from pyramid.exceptions import ConfigurationError

    class Pol:
        def permits(self, request, context, permission):
            return False
    rows = []
    VD = {0: None, 1: {'http_cache': 0}, 2: 'name', 3: {'permission': NO_PERMISSION_REQUIRED}}
    for base, own, explicit, dflt in itertools.product((0, 1, 2, 3), (0, 1, 2, 3), (0, 1, 2), (0, 1)):
        class Base:
            def __init__(self, context, request):
                pass

            def go(self):
                return 'x'
        if base:
            Base = view_defaults(**({'permission': 'b'} if base == 2 else VD[base]))(Base)
        Sub = type('Sub', (Base,), {})
        if own:
            Sub = view_defaults(**({'permission': 'o'} if own == 2 else VD[own]))(Sub)
        config = Configurator(autocommit=False)
        config.set_security_policy(Pol())
        if dflt:
            config.set_default_permission('d')
        kw = {}
        if explicit == 1:
            kw['permission'] = 'e'
        elif explicit == 2:
            kw['permission'] = NO_PERMISSION_REQUIRED
        config.add_view(Sub, attr='go', name='probe', **kw)
        config.commit()
        mine = [i['introspectable'] for i in config.introspector.get_category('views') if i['introspectable'].get('callable') is Sub]
        if len(mine) != 1:
            guard = 9
        else:
            derived = mine[0]['derived_callable']
            if not hasattr(derived, '__call_permissive__'):
                guard = 0
            else:
                guard = {'e': 1, 'b': 2, 'o': 3, 'd': 4}.get(getattr(derived, '__permission__', None), 9)
        rows.append({'base': base, 'own': own, 'explicit': explicit, 'dflt': dflt, 'guard': guard})
    rejected = []
    for name in ('add_forbidden_view', 'add_notfound_view', 'add_exception_view'):
        @view_defaults(permission='b')
        class B2:
            def __init__(self, context, request):
                pass

            def go(self):
                return 'x'
        S2 = type('S2', (B2,), {})
        config = Configurator(autocommit=False)
        try:
            getattr(config, name)(S2, attr='go')
            rejected.append([name, False])
        except ConfigurationError:
            rejected.append([name, True])
    return {'rows': rows, 'rejected': rejected}


def probe_entrypoints():
    """which handle of a found view the lookup entry points on and off the router's path call: 1 = the view itself
    (permission check included), 101 = its `__call_permissive__` handle.  render_view_to_response with secure left at its
    default / True / False; the wrapper lookup made by `owrapped_view`'s wrapper."""
    from zope.interface import Interface
    from pyramid.registry import Registry
    from pyramid.request import Request
    from pyramid.response import Response
    from pyramid.interfaces import IRequest, ISecuredView, IViewClassifier
    from pyramid.view import render_view_to_response
    from pyramid.config.views import ViewDeriverInfo
    import pyramid.viewderivers as vd
    events = []
    reg = Registry()

    def view(context, request):
        events.append(1)
        return Response('w')

    def permissive(context, request):
        events.append(101)
        return Response('w')
    view.__call_permissive__ = permissive
    reg.registerAdapter(view, (IViewClassifier, IRequest, Interface), ISecuredView, 'w')
    out = []

    def fresh():
        r = Request.blank('/')
        r.registry = reg
        return r
    for label, kw in (('render:default', {}), ('render:True', {'secure': True}), ('render:False', {'secure': False})):
        del events[:]
        try:
            render_view_to_response(object(), fresh(), 'w', **kw)
            out.append([label, list(events)])
        except Exception:
            out.append([label, [9]])
    del events[:]
    try:
        def inner(context, request):
            events.append(50)
            return Response('inner')
        info = ViewDeriverInfo(view=inner, registry=reg, package=None, predicates=[], exception_only=False,
                               options={'wrapper': 'w', 'name': 'v'})
        wrapped = vd.owrapped_view(inner, info)
        wrapped(object(), fresh())
        out.append(['owrapped', list(events)])
    except Exception:
        out.append(['owrapped', [9]])
    return out


def probe_legacy_shim():
    """pyramid.security.LegacySecurityPolicy.permits (what the legacy authentication + authorization pair installs as
    the security policy) called four times on ONE request: (c1,'p') (c2,'p') (c1,'q') (c1,'p'), the authorization policy
    answering True / False / False / True.  Per call: which (context, permission, principals ok?) the AUTHORIZATION
    policy was asked about during that call, and the truthiness returned."""
    from pyramid.registry import Registry
    from pyramid.request import Request
    from pyramid.security import LegacySecurityPolicy
    from pyramid.interfaces import IAuthenticationPolicy, IAuthorizationPolicy
    calls = []
    c1, c2 = object(), object()
    ids = {id(c1): 1, id(c2): 2}
    princ = ['system.Everyone', 'probe:user']

    class Authn:
        def effective_principals(self, request):
            return list(princ)

        def authenticated_userid(self, request):
            return None

    class Authz:
        def permits(self, context, principals, permission):
            calls.append([ids.get(id(context), 9), {'p': 1, 'q': 2}.get(permission, 9), list(principals) == princ])
            return (ids.get(id(context)), permission) == (1, 'p')
    reg = Registry()
    reg.registerUtility(Authn(), IAuthenticationPolicy)
    reg.registerUtility(Authz(), IAuthorizationPolicy)
    req = Request.blank('/')
    req.registry = reg
    pol = LegacySecurityPolicy()
    rows = []
    for ctx, perm in ((c1, 'p'), (c2, 'p'), (c1, 'q'), (c1, 'p')):
        del calls[:]
        try:
            r = bool(pol.permits(req, ctx, perm))
        except Exception:
            r = False
            calls.append([9, 9, False])
        rows.append({'ctx': ids[id(ctx)], 'perm': {'p': 1, 'q': 2}[perm], 'asked': [list(c) for c in calls], 'result': r})
    return rows


def probe_secure_defaults():
    """the default of the `secure` parameter of every view-lookup entry point (inspect.signature of the live objects)"""
    import inspect
    import pyramid.view as pv
    out = []
    for name, obj in (('_call_view', pv._call_view), ('render_view_to_response', pv.render_view_to_response),
                      ('render_view_to_iterable', pv.render_view_to_iterable), ('render_view', pv.render_view),
                      ('invoke_exception_view', pv.ViewMethodsMixin.invoke_exception_view)):
        try:
            d = inspect.signature(obj).parameters['secure'].default
            out.append([name, repr(d)])
        except Exception:
            out.append([name, 'unknown'])
    return out


def main():
    res = {'own_tree': False}
    try:
        res['own_tree'] = _own_tree()
    except Exception:
        pass
    for key, fn in (('secured', probe_secured), ('call_view', probe_call_view), ('multiview', probe_multiview),
                    ('tween', probe_tween), ('phases', probe_phases), ('secure_defaults', probe_secure_defaults), ('view_defaults', probe_view_defaults), ('entrypoints', probe_entrypoints), ('legacy_shim', probe_legacy_shim), ('directives', probe_directives), ('chain', probe_chain)):
        if not res['own_tree']:
            res[key] = None
            continue
        try:
            res[key] = fn()
        except Exception:
            res[key] = None
            res.setdefault('errors', {})[key] = traceback.format_exc()[-600:]
    json.dump(res, sys.stdout)


if __name__ == '__main__':
    main()
