"""Translator for C12: regenerates, from the working tree's source, the table-like facts the CSRF model rests on.

 * viewderivers.py  csrf_view       : the built-in defaults used when no IDefaultCSRFOptions utility is registered
                                      (default_val, token, header, safe_methods, check_origin, allow_no_origin, callback),
                                      the attribute each option is read from otherwise, the `enabled` expressions, the guard
                                      of the wrapper and the ORDER of the calls in it (origin check, token check, view)
 * csrf.py          check_csrf_token: signature defaults, the header-then-POST lookups
                    check_csrf_origin: signature defaults, the https guard, the last-Origin-value rule, whether the caller's
                                      list is copied before the own host is appended, whether urlparse's ValueError is caught
                    storage policies : the codec arguments of the two `bytes_` calls and `not strings_differ(...)`
 * config/security.py set_default_csrf_options: signature defaults; DefaultCSRFOptions stores frozenset(safe_methods)
 * util.py          is_same_domain, strings_differ: normalised source text

Anything that does not have the expected shape is emitted as the string "unknown" (or an `unknown` entry), which makes the
`decide`d obligations in Props/C12.lean fail.
"""
import ast, os

summary = {}


def _find(tree, name, cls=None):
    for n in ast.walk(tree):
        if cls is not None:
            if isinstance(n, ast.ClassDef) and n.name == cls:
                for f in n.body:
                    if isinstance(f, ast.FunctionDef) and f.name == name:
                        return f
        elif isinstance(n, ast.FunctionDef) and n.name == name:
            return n
    return None


def _u(node):
    try:
        return ast.unparse(node)
    except Exception:
        return 'unknown'


def _const(node):
    """python literal -> a tagged string"""
    if isinstance(node, ast.Constant):
        v = node.value
        if v is None:
            return 'None'
        if v is True:
            return 'True'
        if v is False:
            return 'False'
        if isinstance(v, str):
            return 'str:' + v
    return 'unknown'


def _strlist(node):
    """frozenset([...]) / tuple / list of string constants -> sorted list of str, or ['unknown']"""
    if isinstance(node, ast.Call) and getattr(node.func, 'id', None) == 'frozenset' and len(node.args) == 1:
        node = node.args[0]
    if isinstance(node, (ast.List, ast.Tuple, ast.Set)) and all(isinstance(e, ast.Constant) and isinstance(e.value, str) for e in node.elts):
        return sorted(e.value for e in node.elts)
    return ['unknown']


def _sig_defaults(fn):
    out = {}
    if fn is None:
        return {'unknown': 'unknown'}
    a = fn.args
    pos = a.posonlyargs + a.args
    for arg, d in zip(pos[len(pos) - len(a.defaults):], a.defaults):
        out[arg.arg] = _strlist(d) if isinstance(d, (ast.Tuple, ast.List)) else _const(d)
    for arg, d in zip(a.kwonlyargs, a.kw_defaults):
        if d is not None:
            out[arg.arg] = _const(d)
    return out


def facts(src_root):
    rd = lambda *p: open(os.path.join(src_root, 'pyramid', *p)).read()
    vt = ast.parse(rd('viewderivers.py'))
    ct = ast.parse(rd('csrf.py'))
    st = ast.parse(rd('config', 'security.py'))
    ut = ast.parse(rd('util.py'))
    out = {}

    # ---- csrf_view deriver
    f = _find(vt, 'csrf_view')
    builtin, attrs, enabled, inner = {}, {}, [], None
    if f is not None:
        for s_ in f.body:
            if isinstance(s_, ast.If) and _u(s_.test) == 'defaults is None':
                for a in s_.body:
                    if isinstance(a, ast.Assign) and len(a.targets) == 1 and isinstance(a.targets[0], ast.Name):
                        nm = a.targets[0].id
                        builtin[nm] = _strlist(a.value) if nm == 'safe_methods' else _const(a.value)
                    else:
                        builtin['unknown'] = 'unknown'
                for a in s_.orelse:
                    if (isinstance(a, ast.Assign) and len(a.targets) == 1 and isinstance(a.targets[0], ast.Name)
                            and isinstance(a.value, ast.Attribute) and _u(a.value.value) == 'defaults'):
                        attrs[a.targets[0].id] = a.value.attr
                    else:
                        attrs['unknown'] = 'unknown'
            elif isinstance(s_, ast.Assign) and _u(s_.targets[0]) == 'enabled':
                enabled.append(_u(s_.value))
            elif isinstance(s_, ast.If) and _u(s_.test) == 'enabled':
                for a in s_.body:
                    if isinstance(a, ast.FunctionDef):
                        inner = a
    out['builtin'] = builtin or {'unknown': 'unknown'}
    out['attrs'] = attrs or {'unknown': 'unknown'}
    out['enabled'] = enabled or ['unknown']
    guard, order = 'unknown', ['unknown']
    if inner is not None and len(inner.body) == 2 and isinstance(inner.body[0], ast.If) and isinstance(inner.body[1], ast.Return):
        guard = _u(inner.body[0].test)
        order = []
        if inner.body[0].orelse:
            order.append('unknown')
        for s_ in inner.body[0].body:
            if isinstance(s_, ast.If) and not s_.orelse and len(s_.body) == 1 and isinstance(s_.body[0], ast.Expr):
                order.append('if %s: %s' % (_u(s_.test), _u(s_.body[0].value)))
            elif isinstance(s_, ast.Expr):
                order.append(_u(s_.value))
            else:
                order.append('unknown')
        order.append('return ' + _u(inner.body[1].value))
    out['guard'] = guard
    out['order'] = order

    # ---- check_csrf_token / check_csrf_origin
    f = _find(ct, 'check_csrf_token')
    out['token_sig'] = _sig_defaults(f) if isinstance(f, ast.FunctionDef) and not any(isinstance(p, ast.ClassDef) for p in []) else {'unknown': 'unknown'}
    # the module-level function (not the methods): take the one whose first argument is `request` and that has `raises`
    mod_fn = None
    for n in ct.body:
        if isinstance(n, ast.FunctionDef) and n.name == 'check_csrf_token':
            mod_fn = n
    out['token_sig'] = _sig_defaults(mod_fn)
    lookups = []
    if mod_fn is not None:
        for s_ in mod_fn.body:
            if isinstance(s_, ast.Assign) and _u(s_.targets[0]) == 'supplied_token':
                lookups.append('supplied_token = ' + _u(s_.value))
            elif isinstance(s_, ast.If) and any(isinstance(b, ast.Assign) and _u(b.targets[0]) == 'supplied_token' for b in s_.body):
                lookups.append('if %s: %s' % (_u(s_.test), '; '.join(_u(b) for b in s_.body)))
            elif isinstance(s_, ast.If) and 'check_csrf_token' in _u(s_.test):
                lookups.append('if %s: ...' % _u(s_.test))
    out['token_lookups'] = lookups or ['unknown']

    f = None
    for n in ct.body:
        if isinstance(n, ast.FunctionDef) and n.name == 'check_csrf_origin':
            f = n
    out['origin_sig'] = _sig_defaults(f)
    copies = catches = https_guard = last_origin = False
    appends = []
    if f is not None:
        for n in ast.walk(f):
            if isinstance(n, ast.If) and _u(n.test) == 'trusted_origins is None':
                copies = any(_u(b) == 'trusted_origins = list(trusted_origins)' for b in n.orelse)
            if isinstance(n, ast.Try):
                body_ok = (len(n.body) == 1 and isinstance(n.body[0], ast.Assign) and len(n.body[0].targets) == 1
                           and isinstance(n.body[0].targets[0], ast.Name) and _u(n.body[0].value) == 'urlparse(origin)')
                h_ok = (len(n.handlers) == 1 and _u(n.handlers[0].type) == 'ValueError' and len(n.handlers[0].body) == 1
                        and isinstance(n.handlers[0].body[0], ast.Return) and _u(n.handlers[0].body[0].value).startswith('_fail('))
                catches = body_ok and h_ok
            if isinstance(n, ast.If) and _u(n.test) in ("request.scheme != 'https'",) and len(n.body) == 1 and _u(n.body[0]) == 'return True':
                https_guard = True
            if isinstance(n, ast.Assign) and _u(n) == "origin = origin.split(' ')[-1]":
                last_origin = True
            if isinstance(n, ast.Expr) and _u(n.value).startswith('trusted_origins.append('):
                appends.append(_u(n.value))
        # urlparse must not ALSO be called outside the try
        calls = [n for n in ast.walk(f) if isinstance(n, ast.Call) and _u(n.func) == 'urlparse']
        if len(calls) != 1:
            catches = False
    out['copies_trusted'] = copies
    out['catches_valueerror'] = catches
    out['https_guard'] = https_guard
    out['last_origin_value'] = last_origin
    out['appends'] = appends or ['unknown']

    # ---- storage policies: codec arguments
    codecs = []
    for cls in ('LegacySessionCSRFStoragePolicy', 'SessionCSRFStoragePolicy', 'CookieCSRFStoragePolicy'):
        m = _find(ct, 'check_csrf_token', cls)
        entry = [cls, 'unknown', 'unknown', 'unknown']
        if m is not None:
            rets = [n for n in ast.walk(m) if isinstance(n, ast.Return)]
            if len(rets) == 1 and isinstance(rets[0].value, ast.UnaryOp) and isinstance(rets[0].value.op, ast.Not):
                call = rets[0].value.operand
                if isinstance(call, ast.Call) and _u(call.func) == 'strings_differ' and len(call.args) == 2:
                    encs = []
                    for a in call.args:
                        if isinstance(a, ast.Call) and _u(a.func) == 'bytes_':
                            if len(a.args) == 2 and isinstance(a.args[1], ast.Constant):
                                encs.append(str(a.args[1].value))
                            elif len(a.args) == 1 and not a.keywords:
                                encs.append('latin-1')     # the default of bytes_
                            else:
                                encs.append('unknown')
                        else:
                            encs.append('unknown')
                    entry = [cls, encs[0], encs[1], 'not strings_differ']
        codecs.append(entry)
    out['codecs'] = codecs
    bf = _find(ut, 'bytes_')
    out['bytes_default'] = _sig_defaults(bf).get('encoding', 'unknown')

    # ---- set_default_csrf_options / DefaultCSRFOptions
    out['options_sig'] = _sig_defaults(_find(st, 'set_default_csrf_options'))
    init = _find(st, '__init__', 'DefaultCSRFOptions')
    out['options_store'] = sorted(_u(s_) for s_ in init.body) if init is not None else ['unknown']

    # ---- util
    def body_src(fn):
        if fn is None:
            return 'unknown'
        b = [s_ for s_ in fn.body if not (isinstance(s_, ast.Expr) and isinstance(s_.value, ast.Constant) and isinstance(s_.value.value, str))]
        return '; '.join(_u(s_).replace('\n', ' ') for s_ in b)
    out['is_same_domain'] = ' '.join(body_src(_find(ut, 'is_same_domain')).split())
    out['strings_differ'] = ' '.join(body_src(_find(ut, 'strings_differ')).split())
    summary.clear()
    summary.update({k: out[k] for k in ('builtin', 'order', 'codecs', 'copies_trusted', 'catches_valueerror')})
    return out


def _ls(s_):
    return '"' + str(s_).replace('\\', '\\\\').replace('"', '\\"') + '"'


def _ll(xs):
    return '[' + ', '.join(_ls(x) for x in xs) + ']'


def _pairs(d):
    items = []
    for k in sorted(d):
        v = d[k]
        items.append('(%s, %s)' % (_ls(k), _ls(','.join(v) if isinstance(v, list) else v)))
    return '[' + ', '.join(items) + ']'


def generate(src_root):
    f = facts(src_root)
    b = f['builtin']
    L = ['/-! GENERATED by extract/c12.py from src/pyramid/viewderivers.py, csrf.py, config/security.py, util.py — do not edit. -/',
         'namespace Pyr.Gen.C12', '',
         '/-- csrf_view, `if defaults is None:` branch: name ↦ literal (`str:…`, `True`, `False`, `None`; safe_methods joined by `,`) -/',
         'def builtin : List (String × String) := ' + _pairs(b),
         '/-- the built-in safe-method set, sorted -/',
         'def builtinSafeMethods : List String := ' + _ll(b.get('safe_methods', ['unknown']) if isinstance(b.get('safe_methods'), list) else ['unknown']),
         '/-- csrf_view, else branch: local name ↦ attribute of the IDefaultCSRFOptions utility -/',
         'def attrs : List (String × String) := ' + _pairs(f['attrs']),
         '/-- the successive right-hand sides of `enabled = …` -/',
         'def enabledExprs : List String := ' + _ll(f['enabled']),
         '/-- guard of the wrapper: when are the checks made -/',
         'def guard : String := ' + _ls(f['guard']),
         '/-- the statements under the guard, in order, then the return -/',
         'def order : List String := ' + _ll(f['order']),
         '',
         'def tokenSig : List (String × String) := ' + _pairs(f['token_sig']),
         'def tokenLookups : List String := ' + _ll(f['token_lookups']),
         'def originSig : List (String × String) := ' + _pairs(f['origin_sig']),
         '/-- `trusted_origins = list(trusted_origins)` in the else branch of `if trusted_origins is None` -/',
         'def copiesTrusted : Bool := ' + ('true' if f['copies_trusted'] else 'false'),
         '/-- the single `urlparse(origin)` call sits in `try … except ValueError: return _fail(…)` -/',
         'def catchesValueError : Bool := ' + ('true' if f['catches_valueerror'] else 'false'),
         'def httpsGuard : Bool := ' + ('true' if f['https_guard'] else 'false'),
         'def lastOriginValue : Bool := ' + ('true' if f['last_origin_value'] else 'false'),
         'def appends : List String := ' + _ll(f['appends']),
         '/-- per storage policy: class, codec of the held token, codec of the supplied token, shape of the return -/',
         'def codecs : List (List String) := [' + ', '.join(_ll(c) for c in f['codecs']) + ']',
         'def bytesDefault : String := ' + _ls(f['bytes_default']),
         '',
         'def optionsSig : List (String × String) := ' + _pairs(f['options_sig']),
         'def optionsStore : List String := ' + _ll(f['options_store']),
         'def isSameDomainSrc : String := ' + _ls(f['is_same_domain']),
         'def stringsDifferSrc : String := ' + _ls(f['strings_differ']),
         '', 'end Pyr.Gen.C12', '']
    return {'PyramidModel/Gen/C12.lean': '\n'.join(L)}


if __name__ == '__main__':
    import sys, json
    root = sys.argv[1] if len(sys.argv) > 1 else '/repo/src'
    print(json.dumps(facts(root), indent=1))
    print(generate(root)['PyramidModel/Gen/C12.lean'])
