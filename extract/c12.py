"""Translator for C12 — behavioural tables obtained by RUNNING the code of the tree under test.

Nothing here pattern-matches the source.  The CSRF code of `src_root` is imported (the runner has put it first on
sys.path; the import location is verified) and probed exhaustively over small finite domains; the observed verdicts
are emitted as Lean rows, and `Props/C12.lean` decides that the model gives the same verdict on EVERY row.  A
behaviour-preserving refactoring leaves every row unchanged; a change of a default, of the safe-method set, of the
header/body/query lookups, of the codec, of the check order, of the list copy, of the ValueError handling … changes a row.

Tables (domains in the functions below):
  viewRows    csrf_view(view, info) called directly (real Registry, SessionCSRFStoragePolicy, real Request):
              require_csrf x exception_only x defaults (absent / 11 option sets) x requests (13 methods, 10 token
              placements, 6 https origin scenarios); outcome ran/badtoken/badorigin + number of callback calls
  originRows  check_csrf_origin on real Requests: 3 hosts x 17 Origin/Referer values x trusted (argument omitted ->
              settings, or a list) x allow_no_origin / raises (omitted or given); verdict, the argument list afterwards,
              the settings list afterwards
  tokenRows   check_csrf_token: 3 storage policies x names (omitted / given / None) x 9 placements x raises
  policyRows  policy.check_csrf_token(request, supplied): 3 policies x held x supplied (prefix, case, non-latin-1, mojibake)
  domainRows  util.is_same_domain over 8 hosts x 9 patterns;  differRows  util.strings_differ over 5 x 5 byte strings
  optionsDefaults / optionsStore   Configurator().set_default_csrf_options() with no / with distinct arguments,
              read back from the registered IDefaultCSRFOptions utility
Fail closed: any unexpected exception or value becomes the string "unknown:…" in the row's outcome (the model never
produces it), a probe that cannot even be set up yields a single unknown row.
"""
import io, os, sys, traceback

summary = {}
FORM = 'application/x-www-form-urlencoded'
FRESH = 'fresh'


# ------------------------------------------------------------------------------------------------------------ helpers

def _environ(req):
    from urllib.parse import urlencode
    env = {'REQUEST_METHOD': req['method'], 'wsgi.url_scheme': req['scheme'], 'SCRIPT_NAME': '', 'PATH_INFO': '/p',
           'SERVER_PROTOCOL': 'HTTP/1.1', 'wsgi.version': (1, 0), 'wsgi.errors': sys.stderr,
           'wsgi.multithread': False, 'wsgi.multiprocess': False, 'wsgi.run_once': False}
    env.update(req['environ'])
    env.setdefault('SERVER_NAME', 'srv.example')
    env.setdefault('SERVER_PORT', '443' if req['scheme'] == 'https' else '80')
    body = urlencode([tuple(p) for p in req['form']]).encode('ascii')
    env['wsgi.input'] = io.BytesIO(body)
    env['CONTENT_LENGTH'] = str(len(body))
    env['QUERY_STRING'] = urlencode([tuple(p) for p in req['query']])
    return env


def _model_environ(req):
    e = dict(req['environ'])
    e.setdefault('SERVER_NAME', 'srv.example')
    e.setdefault('SERVER_PORT', '443' if req['scheme'] == 'https' else '80')
    return sorted(e.items())


def _req(method='POST', scheme='http', env=None, form=None, query=None, stored='abc123'):
    e = {'HTTP_HOST': 'example.com'}
    e.update(env or {})
    if 'CONTENT_TYPE' not in e and method not in ('GET', 'HEAD'):
        e['CONTENT_TYPE'] = FORM
    return {'method': method, 'scheme': scheme, 'environ': e, 'form': form or [], 'query': query or [], 'stored': stored}


def _outcome(fn):
    try:
        r = fn()
    except Exception as e:
        n = type(e).__name__
        return {'BadCSRFToken': 'badtoken', 'BadCSRFOrigin': 'badorigin'}.get(n, 'unknown:' + n)
    if r is True:
        return 'True'
    if r is False:
        return 'False'
    return 'unknown:returned'


class _Api:
    """the objects of the tree under test"""

    def __init__(self, src_root):
        import pyramid
        if not os.path.realpath(pyramid.__file__).startswith(os.path.realpath(src_root) + os.sep):
            raise RuntimeError('pyramid imported from %s, not from %s' % (pyramid.__file__, src_root))
        import pyramid.csrf as csrf, pyramid.viewderivers as vd, pyramid.util as util
        from pyramid.request import Request
        from pyramid.registry import Registry
        from pyramid.interfaces import ICSRFStoragePolicy, IDefaultCSRFOptions
        from pyramid.session import SignedCookieSessionFactory
        from pyramid.config import Configurator
        self.csrf, self.vd, self.util = csrf, vd, util
        self.Request, self.Registry, self.Configurator = Request, Registry, Configurator
        self.ICSRFStoragePolicy, self.IDefaultCSRFOptions = ICSRFStoragePolicy, IDefaultCSRFOptions
        self.session_factory = SignedCookieSessionFactory('probe-secret')

    def request(self, req, storage='session', settings_trusted=None, defaults=None):
        request = self.Request(_environ(req))
        reg = self.Registry('probe')
        reg.settings = {}
        if settings_trusted is not None:
            reg.settings['pyramid.csrf_trusted_origins'] = settings_trusted
        pol = {'legacy': self.csrf.LegacySessionCSRFStoragePolicy, 'session': self.csrf.SessionCSRFStoragePolicy,
               'cookie': self.csrf.CookieCSRFStoragePolicy}[storage]()
        if storage != 'legacy':
            pol._token_factory = lambda: FRESH
        reg.registerUtility(pol, self.ICSRFStoragePolicy)
        if defaults is not None:
            reg.registerUtility(defaults, self.IDefaultCSRFOptions)
        request.registry = reg
        if storage != 'cookie':
            sess = self.session_factory(request)          # pyramid's real cookie session (legacy get_csrf_token lives there)
            if req['stored'] is not None:
                sess['_csrft_'] = req['stored']
            request.session = sess
        return request, pol


def _with_cookie(req):
    """cookie storage: the stored token travels in HTTP_COOKIE"""
    r = dict(req)
    r['environ'] = dict(req['environ'])
    if req['stored'] is not None:
        r['environ']['HTTP_COOKIE'] = 'csrf_token=' + req['stored']
    return r


# ------------------------------------------------------------------------------------------------------------ probes

DEF_STD = dict(require=True, token='csrf_token', header='X-CSRF-Token', safe=['GET', 'HEAD', 'OPTIONS', 'TRACE'],
               check_origin=True, allow_no_origin=False, callback='none')


def _defaults_variants():
    v = lambda **kw: dict(DEF_STD, **kw)
    return [v(), v(require=False), v(token=None, header=None), v(token='', header=None), v(token=None, header='X-H'),
            v(check_origin=False), v(allow_no_origin=True), v(safe=['POST']), v(callback='true'), v(callback='false'),
            v(token='tok', header=None)]


def _token_placements(tokname='csrf_token', hdrkey='HTTP_X_CSRF_TOKEN'):
    T = 'abc123'
    return [
        _req(),                                                                   # nothing supplied
        _req(env={hdrkey: T}), _req(env={hdrkey: 'abc12'}), _req(env={hdrkey: 'ABC123'}),
        _req(form=[[tokname, T]]), _req(form=[[tokname, 'abc1234']]),
        _req(query=[[tokname, T]]),                                               # query string only
        _req(env={hdrkey: ''}, form=[[tokname, T]]),                              # empty header -> body
        _req(env={hdrkey: 'bad'}, form=[[tokname, T]]),                           # header wins
        _req(form=[[tokname, 'old'], [tokname, T]]),                              # last body value
        _req(env={hdrkey: FRESH}, stored=None),                                   # no stored token: a fresh one is minted
    ]


def _https_scenarios():
    good = {'HTTP_X_CSRF_TOKEN': 'abc123'}
    mk = lambda extra, tok=good: _req(scheme='https', env=dict(tok, **extra))
    return [mk({}), mk({'HTTP_ORIGIN': 'https://example.com'}), mk({'HTTP_ORIGIN': 'https://evil.example'}),
            mk({'HTTP_ORIGIN': 'null'}), mk({'HTTP_REFERER': 'https://example.com/page'}),
            mk({'HTTP_ORIGIN': 'https://evil.example'}, tok={'HTTP_X_CSRF_TOKEN': 'wrong'})]      # both fail: which one is reported


METHODS = ['GET', 'HEAD', 'OPTIONS', 'TRACE', 'POST', 'PUT', 'PATCH', 'DELETE', 'CONNECT', 'get', 'Post', 'FOO', '']


def probe_view(api):
    rows = []

    def run(explicit, exc_only, d, req, trusted=()):
        calls = [0]
        defaults = None
        if d is not None:
            def cb_true(request):
                calls[0] += 1
                return True

            def cb_false(request):
                calls[0] += 1
                return False
            cb = {'none': None, 'true': cb_true, 'false': cb_false}[d['callback']]
            from pyramid.config.security import DefaultCSRFOptions
            defaults = DefaultCSRFOptions(require_csrf=d['require'], token=d['token'], header=d['header'], safe_methods=tuple(d['safe']),
                                          check_origin=d['check_origin'], allow_no_origin=d['allow_no_origin'], callback=cb)
        ran = [0]

        def view(context, request):
            ran[0] += 1
            return 'response'

        def go():
            request, _ = api.request(req, 'session', settings_trusted=list(trusted), defaults=defaults)

            class Info:
                pass
            info = Info()
            info.options = {'require_csrf': explicit}
            info.registry = request.registry
            info.exception_only = exc_only
            info.original_view = view
            wrapped = api.vd.csrf_view(view, info)
            r = wrapped(None, request)
            if r != 'response' or ran[0] != 1:
                raise AssertionError('view result lost')
            return True
        out = _outcome(go)
        if out == 'True':
            out = 'ran'
        elif out in ('badtoken', 'badorigin') and ran[0]:
            out = 'unknown:ran-and-rejected'
        rows.append({'explicit': repr(explicit), 'exc_only': exc_only, 'defaults': d, 'trusted': list(trusted), 'req': req, 'out': out, 'calls': calls[0]})

    # A: the `enabled` truth table
    for explicit in (True, False, None):
        for exc_only in (False, True):
            for d in (None, dict(DEF_STD), dict(DEF_STD, require=False), dict(DEF_STD, token=None, header=None), dict(DEF_STD, token='', header='')):
                for req in (_req(), _req(env={'HTTP_X_CSRF_TOKEN': 'abc123'}), _req(method='GET')):
                    run(explicit, exc_only, d, req)
    # B: built-in defaults (no utility registered), explicit require_csrf=True
    for m in METHODS:
        run(True, False, None, _req(method=m))
    for req in _token_placements() + _https_scenarios():
        run(True, False, None, req)
    run(True, False, None, _req(scheme='https', env={'HTTP_X_CSRF_TOKEN': 'abc123', 'HTTP_ORIGIN': 'https://sub.trusted.example'}), trusted=['.trusted.example'])
    run(True, False, None, _req(scheme='https', env={'HTTP_X_CSRF_TOKEN': 'abc123', 'HTTP_ORIGIN': 'https://sub.trusted.example'}), trusted=[])
    # C: every option of a registered utility is honoured
    small = [_req(), _req(env={'HTTP_X_CSRF_TOKEN': 'abc123'}), _req(form=[['csrf_token', 'abc123']]), _req(env={'HTTP_X_H': 'abc123'}),
             _req(form=[['tok', 'abc123']]), _req(method='DELETE'), _req(method='GET'),
             _req(scheme='https', env={'HTTP_X_CSRF_TOKEN': 'abc123'}), _req(scheme='https', env={'HTTP_X_CSRF_TOKEN': 'abc123', 'HTTP_ORIGIN': 'https://evil.example'})]
    for d in _defaults_variants():
        for req in small:
            run(None, False, d, req)
    return rows


ORIGIN_VALUES = [
    {}, {'HTTP_ORIGIN': ''}, {'HTTP_ORIGIN': 'null'}, {'HTTP_ORIGIN': 'https://example.com'}, {'HTTP_ORIGIN': 'https://example.com:8443'},
    {'HTTP_ORIGIN': 'https://example.com:443'}, {'HTTP_ORIGIN': 'http://example.com'}, {'HTTP_ORIGIN': 'https://sub.trusted.example'},
    {'HTTP_ORIGIN': 'https://xtrusted.example'}, {'HTTP_ORIGIN': 'https://['}, {'HTTP_ORIGIN': 'https://evil.example https://example.com'},
    {'HTTP_ORIGIN': 'https://example.com https://evil.example'}, {'HTTP_REFERER': 'https://example.com/path?q'}, {'HTTP_REFERER': 'null'},
    {'HTTP_ORIGIN': 'https://evil.example', 'HTTP_REFERER': 'https://example.com'}, {'HTTP_ORIGIN': 'HTTPS://example.com/x'}, {'HTTP_REFERER': ''},
]


class _DictSession(dict):
    """minimal session for the application-level probe (SessionCSRFStoragePolicy only uses get / __setitem__)"""


EXTRA_VIEW_OPTIONS = ['none', 'request_method=<method>', 'request_method=(<method>, PUT)', 'xhr', 'name (no route)', 'attr', 'decorator',
                      'renderer=json', 'renderer=string', 'permission', 'http_cache', 'wrapper', 'mapper']


def probe_viewopts(api):
    """the same option set and request through a REAL application (Configurator.add_view + Router), without and with each
    OTHER view option csrf_view can see in info.options / the predicates; the request is one the predicates admit"""
    import types
    from pyramid.response import Response
    from pyramid.tweens import EXCVIEW
    from pyramid.config.security import DefaultCSRFOptions  # noqa: F401  (import check only)
    rows = []

    def spy_factory(handler, registry):
        def spy(request):
            response = handler(request)
            exc = getattr(request, 'exception', None)
            request.environ['probe.exc'] = type(exc).__name__ if exc is not None else None
            return response
        return spy
    mod = types.ModuleType('verif_c12_probe_spy')
    mod.spy_factory = spy_factory
    sys.modules['verif_c12_probe_spy'] = mod

    def run(explicit, d, req, opt):
        calls = [0]

        def go():
            config = api.Configurator()
            config.set_session_factory(lambda request: _DictSession({} if req['stored'] is None else {'_csrft_': req['stored']}))
            pol = api.csrf.SessionCSRFStoragePolicy()
            pol._token_factory = lambda: FRESH
            config.set_csrf_storage_policy(pol)
            if d is not None:
                def cb_true(request):
                    calls[0] += 1
                    return True

                def cb_false(request):
                    calls[0] += 1
                    return False
                cb = {'none': None, 'true': cb_true, 'false': cb_false}[d['callback']]
                config.set_default_csrf_options(require_csrf=d['require'], token=d['token'], header=d['header'], safe_methods=tuple(d['safe']),
                                                check_origin=d['check_origin'], allow_no_origin=d['allow_no_origin'], callback=cb)
            renderer = {'renderer=json': 'json', 'renderer=string': 'string'}.get(opt)

            def mark(request):
                request.environ['probe.ran'] = request.environ.get('probe.ran', 0) + 1
                return {'ran': 1} if renderer == 'json' else 'ran' if renderer == 'string' else Response('ran')

            def body(context, request):
                return mark(request)

            class BodyClass:
                def __init__(self, context, request):
                    self.request = request

                def meth(self):
                    return mark(self.request)
            kw = {'require_csrf': explicit}
            view = body
            if opt == 'request_method=<method>':
                kw['request_method'] = req['method']
            elif opt == 'request_method=(<method>, PUT)':
                kw['request_method'] = (req['method'], 'PUT')
            elif opt == 'xhr':
                kw['xhr'] = True
            elif opt == 'attr':
                view, kw['attr'] = BodyClass, 'meth'
            elif opt == 'decorator':
                kw['decorator'] = lambda v: (lambda context, request: v(context, request))
            elif renderer:
                kw['renderer'] = renderer
            elif opt == 'permission':
                kw['permission'] = 'view'
            elif opt == 'http_cache':
                kw['http_cache'] = 3600
            elif opt == 'wrapper':
                kw['wrapper'] = 'wrap'
                config.add_view(lambda context, request: request.wrapped_response, name='wrap', require_csrf=False)
            elif opt == 'mapper':
                class PlainMapper:
                    def __init__(self, **kwargs):
                        pass

                    def __call__(self, v):
                        return lambda context, request: v(context, request)
                kw['mapper'] = PlainMapper
            elif opt not in ('none', 'name (no route)'):
                raise ValueError('unknown option ' + opt)
            if opt == 'name (no route)':
                config.add_view(view, name='p', **kw)
            else:
                config.add_route('p', '/p')
                config.add_view(view, route_name='p', **kw)
            config.add_tween('verif_c12_probe_spy.spy_factory', over=EXCVIEW)
            app = config.make_wsgi_app()
            env = _environ(req)
            if opt == 'xhr':
                env['HTTP_X_REQUESTED_WITH'] = 'XMLHttpRequest'
            st = {}
            b''.join(app(env, lambda status, headers, exc_info=None: st.update(status=status)))
            code, ran, exc = int(st['status'].split()[0]), env.get('probe.ran', 0), env.get('probe.exc')
            if code == 200 and ran == 1 and exc is None:
                return 'ran'
            if code == 400 and ran == 0 and exc in ('BadCSRFToken', 'BadCSRFOrigin'):
                return 'badtoken' if exc == 'BadCSRFToken' else 'badorigin'
            return 'unknown:status %s ran %s exc %s' % (code, ran, exc)
        try:
            out = go()
        except Exception as e:
            out = 'unknown:' + type(e).__name__
        q = req
        if opt == 'xhr':
            q = dict(req, environ=dict(req['environ'], HTTP_X_REQUESTED_WITH='XMLHttpRequest'))
        rows.append({'opt': opt, 'explicit': repr(explicit), 'exc_only': False, 'defaults': d, 'trusted': [], 'req': q, 'out': out, 'calls': calls[0]})

    v = lambda **kw: dict(DEF_STD, **kw)
    option_sets = [(True, None), (None, v()), (None, v(safe=[])), (None, v(safe=['GET', 'HEAD'])), (None, v(safe=['get', 'head'])),
                   (None, v(safe=['GET', 'HEAD', 'OPTIONS', 'TRACE', 'POST'])), (True, v(require=False, callback='false')), (None, v(token='tok', header=None, check_origin=False))]
    for explicit, d in option_sets:
        for method in ('GET', 'HEAD', 'OPTIONS', 'TRACE', 'POST'):
            for tokenv in (None, 'abc123'):
                env = {'HTTP_X_CSRF_TOKEN': tokenv} if tokenv else {}
                req = _req(method=method, env=env, form=[['tok', tokenv]] if tokenv and method == 'POST' else [])
                for opt in EXTRA_VIEW_OPTIONS[:3]:
                    run(explicit, d, req, opt)
        for req in (_req(), _req(env={'HTTP_X_CSRF_TOKEN': 'abc123'}, form=[['tok', 'abc123']]), _req(method='OPTIONS'),
                    _req(scheme='https', env={'HTTP_X_CSRF_TOKEN': 'abc123', 'HTTP_ORIGIN': 'https://evil.example'}, form=[['tok', 'abc123']])):
            for opt in EXTRA_VIEW_OPTIONS[3:]:
                run(explicit, d, req, opt)
    return rows


def probe_origin(api):
    rows = []

    def run(req, trusted_arg, settings, allow, raises):
        settings = list(settings)
        request, _ = api.request(req, 'session', settings_trusted=list(settings))
        lst = None if trusted_arg is None else list(trusted_arg)
        kw = {}
        if lst is not None:
            kw['trusted_origins'] = lst
        if allow is not None:
            kw['allow_no_origin'] = allow
        if raises is not None:
            kw['raises'] = raises
        out = _outcome(lambda: api.csrf.check_csrf_origin(request, **kw))
        after = request.registry.settings.get('pyramid.csrf_trusted_origins')
        rows.append({'req': req, 'trusted_arg': trusted_arg, 'settings': list(settings), 'allow': allow, 'raises': raises, 'out': out,
                     'left': lst, 'settings_after': list(after) if isinstance(after, list) else ['unknown']})

    for host in ('example.com', 'example.com:8443', 'example.com:443'):
        for v in ORIGIN_VALUES:
            run(_req(scheme='https', env=dict({'HTTP_HOST': host}, **v)), None, [], None, False)
    for trusted_arg, settings in ((None, ['.trusted.example', 'null']), ([], ['.trusted.example']), (['null'], []), (['.trusted.example'], []), (['example.com:8443'], [])):
        for v in ORIGIN_VALUES:
            run(_req(scheme='https', env=dict(v)), trusted_arg, settings, None, False)
    for v in (ORIGIN_VALUES[0], ORIGIN_VALUES[1], ORIGIN_VALUES[3], ORIGIN_VALUES[8], ORIGIN_VALUES[9], ORIGIN_VALUES[16]):
        for allow in (None, True, False):
            for raises in (None, True, False):
                run(_req(scheme='https', env=dict(v)), None, [], allow, raises)
    for v in (ORIGIN_VALUES[0], ORIGIN_VALUES[8]):
        run(_req(scheme='http', env=dict(v)), None, [], None, None)
    return rows


def probe_token(api):
    rows = []
    for storage in ('legacy', 'session', 'cookie'):
        for names in ('omitted', ('tok', 'X-H'), ('csrf_token', None), (None, 'X-CSRF-Token'), (None, None)):
            tokname, hdr = ('csrf_token', 'X-CSRF-Token') if names == 'omitted' else names
            hdrkey = 'HTTP_' + (hdr or 'X-CSRF-Token').upper().replace('-', '_')
            for req in _token_placements(tokname or 'csrf_token', hdrkey):
                if storage == 'legacy' and req['stored'] is None:
                    req = dict(req, environ=dict(req['environ'], **{hdrkey: 'not-the-random-token'}))
                for raises in ((None, False) if names == 'omitted' else (False,)):
                    q = _with_cookie(req) if storage == 'cookie' else req
                    request, _ = api.request(q, storage)
                    kw = {}
                    if names != 'omitted':
                        kw = {'token': tokname, 'header': hdr}
                    if raises is not None:
                        kw['raises'] = raises
                    out = _outcome(lambda: api.csrf.check_csrf_token(request, **kw))
                    rows.append({'storage': storage, 'omitted': names == 'omitted', 'token': tokname, 'header': hdr, 'raises': raises, 'req': q, 'out': out})
    return rows


def probe_policy(api):
    rows = []
    held_all = ['abc', 'tök€n', 'é', None, '']
    supplied_all = ['abc', 'ab', 'abcd', 'ABC', '', '€', 'tök€n', 'Ã©', 'é', FRESH]
    for storage in ('legacy', 'session', 'cookie'):
        for held in held_all:
            if storage == 'cookie' and held is not None and any(ord(c) > 126 for c in held):
                continue
            for sup in supplied_all:
                if storage == 'legacy' and held is None and sup == FRESH:
                    continue          # the legacy session mints a random token
                req = _req(stored=held)
                q = _with_cookie(req) if storage == 'cookie' else req
                request, pol = api.request(q, storage)
                out = _outcome(lambda: pol.check_csrf_token(request, sup))
                rows.append({'storage': storage, 'req': q, 'supplied': sup, 'out': out})
    return rows


def probe_domain(api):
    hosts = ['example.com', 'sub.example.com', 'evilexample.com', 'Example.com', '', 'com', '.example.com', 'example.com.']
    pats = ['', '.', 'example.com', '.example.com', 'EXAMPLE.com', '.Example.COM', '.com', 'sub.example.com', 'com']
    return [{'host': h, 'pattern': p, 'out': _outcome(lambda: api.util.is_same_domain(h, p))} for h in hosts for p in pats]


def probe_differ(api):
    xs = ['', 'a', 'ab', 'abc', 'abd']
    return [{'a': a, 'b': b, 'out': _outcome(lambda: api.util.strings_differ(a.encode(), b.encode()))} for a in xs for b in xs]


def probe_options(api):
    """set_default_csrf_options(): what lands in the utility with no arguments, and where each argument lands"""
    def read(opts):
        return {'require': opts.require_csrf, 'token': opts.token, 'header': opts.header, 'safe': sorted(opts.safe_methods),
                'check_origin': opts.check_origin, 'allow_no_origin': opts.allow_no_origin, 'callback': opts.callback}
    c = api.Configurator()
    c.set_default_csrf_options()
    c.commit()
    d = read(c.registry.getUtility(api.IDefaultCSRFOptions))
    ok = (d['require'] in (True, False) and (d['token'] is None or isinstance(d['token'], str)) and (d['header'] is None or isinstance(d['header'], str))
          and all(isinstance(m, str) for m in d['safe']) and d['check_origin'] in (True, False) and d['allow_no_origin'] in (True, False))
    if not ok:
        raise ValueError('unexpected default option values')
    d['callback'] = 'none' if d['callback'] is None else 'unknown'
    cb = lambda request: True
    c2 = api.Configurator()
    sent = {'require_csrf': 'S-require', 'token': 'S-token', 'header': 'S-header', 'safe_methods': ('S-safe',), 'check_origin': 'S-check', 'allow_no_origin': 'S-allow', 'callback': cb}
    c2.set_default_csrf_options(**sent)
    c2.commit()
    o = c2.registry.getUtility(api.IDefaultCSRFOptions)
    name_of = {'S-require': 'require_csrf', 'S-token': 'token', 'S-header': 'header', 'S-check': 'check_origin', 'S-allow': 'allow_no_origin'}
    store = []
    for attr in ('allow_no_origin', 'callback', 'check_origin', 'header', 'require_csrf', 'safe_methods', 'token'):
        v = getattr(o, attr, 'missing')
        if v is cb:
            src = 'callback'
        elif isinstance(v, (set, frozenset)) and set(v) == {'S-safe'}:
            src = 'safe_methods'
        elif isinstance(v, str) and v in name_of:
            src = name_of[v]
        else:
            src = 'unknown'
        store.append((attr, src))
    return d, store


def facts(src_root):
    out = {}
    try:
        api = _Api(src_root)
    except Exception as e:
        api = None
        out['setup_error'] = ''.join(traceback.format_exception_only(type(e), e)).strip()
    for name, fn in (('view', probe_view), ('viewopts', probe_viewopts), ('origin', probe_origin), ('token', probe_token), ('policy', probe_policy),
                     ('domain', probe_domain), ('differ', probe_differ)):
        try:
            if api is None:
                raise RuntimeError('setup failed')
            out[name] = fn(api)
        except Exception as e:
            out[name] = None
            out[name + '_error'] = ''.join(traceback.format_exception_only(type(e), e)).strip()
    try:
        if api is None:
            raise RuntimeError('setup failed')
        out['options_defaults'], out['options_store'] = probe_options(api)
    except Exception as e:
        out['options_defaults'], out['options_store'] = None, [('unknown', 'unknown')]
        out['options_error'] = ''.join(traceback.format_exception_only(type(e), e)).strip()
    summary.clear()
    summary.update({k: (len(v) if isinstance(v, list) else v) for k, v in out.items() if k in ('view', 'viewopts', 'origin', 'token', 'policy', 'domain', 'differ') or k.endswith('_error')})
    summary['method'] = 'probed by running the code under test (no AST matching)'
    return out


# ------------------------------------------------------------------------------------------------------------ Lean text

def _ls(s_):
    o = ['"']
    for ch in str(s_):
        c = ord(ch)
        if ch == '\\':
            o.append('\\\\')
        elif ch == '"':
            o.append('\\"')
        elif c < 32 or c == 127:
            o.append('\\x%02x' % c)
        else:
            o.append(ch)
    o.append('"')
    return ''.join(o)


def _lo(v):
    return 'none' if v is None else '(some %s)' % _ls(v)


def _lb(b):
    return 'true' if b else 'false'


def _lob(b):
    return 'none' if b is None else '(some %s)' % _lb(b)


def _ll(xs):
    return '[' + ', '.join(_ls(x) for x in xs) + ']'


def _lol(xs):
    return 'none' if xs is None else '(some %s)' % _ll(xs)


def _lp(ps):
    return '[' + ', '.join('(%s, %s)' % (_ls(k), _ls(v)) for k, v in ps) + ']'


def _lreq(r):
    return '⟨%s, %s, %s, %s, %s, %s⟩' % (_ls(r['method']), _ls(r['scheme']), _lp(_model_environ(r)), _lp(r['form']), _lp(r['query']), _lo(r['stored']))


def _ldef(d):
    if d is None:
        return 'none'
    return '(some ⟨%s, %s, %s, %s, %s, %s, %s⟩)' % (_lb(d['require']), _lo(d['token']), _lo(d['header']), _ll(d['safe']), _lb(d['check_origin']),
                                                     _lb(d['allow_no_origin']), _ls(d['callback']))


HEADER = '''/-! GENERATED by extract/c12.py by RUNNING pyramid.csrf / viewderivers.csrf_view / util / config.security of the tree
under test over finite probe domains — do not edit. -/
namespace Pyr.Gen.C12

structure ReqRow where
  method : String
  scheme : String
  environ : List (String × String)
  form : List (String × String)
  query : List (String × String)
  stored : Option String
deriving Repr

structure DefRow where
  require : Bool
  token : Option String
  header : Option String
  safe : List String
  checkOrigin : Bool
  allowNoOrigin : Bool
  callback : String
deriving Repr, DecidableEq

/-- one call of the wrapper `csrf_view(view, info)` derives -/
structure ViewRow where
  explicit : String
  excOnly : Bool
  defaults : Option DefRow
  trusted : List String
  req : ReqRow
  out : String
  callbackCalls : Nat
deriving Repr

/-- one WSGI request through a real application whose view was registered with one EXTRA view option -/
structure OptRow where
  opt : String
  row : ViewRow
deriving Repr

/-- one call of `check_csrf_origin`; `none` = the argument was omitted -/
structure OriginRow where
  req : ReqRow
  trustedArg : Option (List String)
  settings : List String
  allow : Option Bool
  raises : Option Bool
  out : String
  left : Option (List String)
  settingsAfter : List String
deriving Repr

structure TokenRow where
  storage : String
  omitted : Bool
  token : Option String
  header : Option String
  raises : Option Bool
  req : ReqRow
  out : String
deriving Repr

structure PolicyRow where
  storage : String
  req : ReqRow
  supplied : String
  out : String
deriving Repr

structure DomainRow where
  host : String
  pattern : String
  out : String
deriving Repr

structure DifferRow where
  a : String
  b : String
  out : String
deriving Repr
'''

UNKNOWN_REQ = '⟨"unknown", "unknown", [], [], [], none⟩'


def _table(name, typ, rows, fmt, unknown_row):
    L = ['', 'def %s : List %s := [' % (name, typ)]
    if rows is None or not rows:
        L.append('  ' + unknown_row)
    else:
        L += ['  ' + fmt(r) + (',' if i + 1 < len(rows) else '') for i, r in enumerate(rows)]
    L.append(']')
    return L


def generate(src_root):
    f = facts(src_root)
    L = [HEADER]
    L += _table('viewRows', 'ViewRow', f['view'],
                lambda r: '⟨%s, %s, %s, %s, %s, %s, %d⟩' % (_ls(r['explicit']), _lb(r['exc_only']), _ldef(r['defaults']), _ll(r['trusted']), _lreq(r['req']), _ls(r['out']), r['calls']),
                '⟨"unknown", false, none, [], %s, "unknown", 0⟩' % UNKNOWN_REQ)
    vrow = lambda r: '⟨%s, %s, %s, %s, %s, %s, %d⟩' % (_ls(r['explicit']), _lb(r['exc_only']), _ldef(r['defaults']), _ll(r['trusted']), _lreq(r['req']), _ls(r['out']), r['calls'])
    L += _table('optRows', 'OptRow', f['viewopts'], lambda r: '⟨%s, %s⟩' % (_ls(r['opt']), vrow(r)),
                '⟨"unknown", ⟨"unknown", false, none, [], %s, "unknown", 0⟩⟩' % UNKNOWN_REQ)
    L += ['', '/-- the extra view options probed -/', 'def extraViewOptions : List String := ' + _ll(EXTRA_VIEW_OPTIONS)]
    L += _table('originRows', 'OriginRow', f['origin'],
                lambda r: '⟨%s, %s, %s, %s, %s, %s, %s, %s⟩' % (_lreq(r['req']), _lol(r['trusted_arg']), _ll(r['settings']), _lob(r['allow']), _lob(r['raises']), _ls(r['out']),
                                                                _lol(r['left']), _ll(r['settings_after'])),
                '⟨%s, none, [], none, none, "unknown", none, []⟩' % UNKNOWN_REQ)
    L += _table('tokenRows', 'TokenRow', f['token'],
                lambda r: '⟨%s, %s, %s, %s, %s, %s, %s⟩' % (_ls(r['storage']), _lb(r['omitted']), _lo(r['token']), _lo(r['header']), _lob(r['raises']), _lreq(r['req']), _ls(r['out'])),
                '⟨"unknown", false, none, none, none, %s, "unknown"⟩' % UNKNOWN_REQ)
    L += _table('policyRows', 'PolicyRow', f['policy'],
                lambda r: '⟨%s, %s, %s, %s⟩' % (_ls(r['storage']), _lreq(r['req']), _ls(r['supplied']), _ls(r['out'])),
                '⟨"unknown", %s, "", "unknown"⟩' % UNKNOWN_REQ)
    L += _table('domainRows', 'DomainRow', f['domain'], lambda r: '⟨%s, %s, %s⟩' % (_ls(r['host']), _ls(r['pattern']), _ls(r['out'])), '⟨"", "", "unknown"⟩')
    L += _table('differRows', 'DifferRow', f['differ'], lambda r: '⟨%s, %s, %s⟩' % (_ls(r['a']), _ls(r['b']), _ls(r['out'])), '⟨"", "", "unknown"⟩')
    d = f['options_defaults']
    L += ['', '/-- what `Configurator().set_default_csrf_options()` (no arguments) registers -/',
          'def optionsDefaults : Option DefRow := ' + (_ldef(d) if d is not None else 'none'),
          '/-- utility attribute ↦ the argument of set_default_csrf_options whose (distinct) value landed there -/',
          'def optionsStore : List (String × String) := ' + _lp(f['options_store']),
          '', 'end Pyr.Gen.C12', '']
    return {'PyramidModel/Gen/C12.lean': '\n'.join(L)}


if __name__ == '__main__':
    root = sys.argv[1] if len(sys.argv) > 1 else '/repo/src'
    sys.path.insert(0, root)
    txt = generate(root)['PyramidModel/Gen/C12.lean']
    print(txt[:3000])
    print(summary)
