"""Translator for C13: control-flow skeletons of the functions that push/pop the thread-local stack.

generate(src_root) -> {"PyramidModel/Gen/C13Skeleton.lean": text}

Every listed function of the working tree is parsed with `ast` and rendered as a `Pyr.Skel.Stmt` term:
try/finally, try/except, with, if, loops, return, raise, and every call as a numbered *site*, in Python's
evaluation order (arguments before the call, short-circuit operators as branches).  Calls are classified:

 * `manager.push` / `self.manager.push` / `manager.pop` / `self.manager.pop`  -> the primitives (and the bodies
   of `ThreadLocalManager.push/pop` are compared with the expected shape; anything else makes the primitive
   `unknown`)
 * a callee listed in RESOLVE for the enclosing function, a method named in GLOBAL_METHODS (whatever the receiver),
   `begin/end/commit` on a receiver whose type is known (TYPED_METHODS: `self` in config/*.py is a Configurator, `self`
   in RequestContext, a local bound to `RequestContext(...)` directly or through a helper that returns one)
   -> `.scope <that function's skeleton>` (inlined)
 * a helper extracted from a listed function — a function of the same module or a method of the same class, up to
   three levels deep — is translated and inlined when its skeleton touches the stack or enters a listed function
   (otherwise it stays an opaque call and what its trial translation allocated is rolled back)
 * anything else -> `.call <site>`: may raise, assumed to leave the stack depth unchanged (user callables and
   framework functions that do not touch the manager; PUSH_POP_OWNERS below lists, from a scan of the whole
   package, every function that does, and Props/C13 decides that list against the functions modelled here)
 * callees in NO_RAISE (total constructors evaluated between a push and its protection) are recorded in
   `noRaise`; the theorems assume exactly those sites do not raise.

`@contextmanager` generators (`hide_attrs`, `route_prefix_context`, and any module-level one of the same file that a
listed function enters with `with` — discovered on the fly) become Lean functions of the with-body: the body is
substituted at the single `yield` statement, which is exactly what contextlib does (enter = the statements before the
`yield`; a body that ends normally resumes after it; a body that raises has the exception thrown AT the `yield`, so
only a try/finally, try/except or `with` around the `yield` still runs).  Refused (`unknown`): several yields, a
yield in a loop or in an except/finally clause, and a `return` inside the with-body when the generator has code after
the `yield` outside a `finally` (contextlib would still run it, the substitution would not).

Anything with an unexpected shape (unknown statement kind, break/continue, `manager.clear`, a context manager
that is neither in WITH nor a local generator, an `__exit__` returning a value, …) is emitted as `.unknown`, which has
no analysis verdict, so every obligation over that function fails.  `modelledOwners` lists every translated function;
Props/C13 decides that every push/pop owner found by the whole-package scan is one of them.  `siteLocs` gives the
source position of every call site: the harness identifies the site a hook runs under by position, not by name.
"""
import ast, os

summary = {}

PUSH = {'manager.push', 'self.manager.push', 'manager.set', 'self.manager.set'}
POP = {'manager.pop', 'self.manager.pop'}
BAD = {'manager.clear', 'self.manager.clear'}

# (file, qualified name, lean name)
FUNCS = [
    ('threadlocal.py', 'RequestContext.begin', 'RequestContext_begin'),
    ('threadlocal.py', 'RequestContext.end', 'RequestContext_end'),
    ('threadlocal.py', 'RequestContext.__enter__', 'RequestContext_enter'),
    ('threadlocal.py', 'RequestContext.__exit__', 'RequestContext_exit'),
    ('request.py', 'CallbackMethodsMixin._process_response_callbacks', 'process_response_callbacks'),
    ('request.py', 'CallbackMethodsMixin._process_finished_callbacks', 'process_finished_callbacks'),
    ('util.py', 'hide_attrs', 'hide_attrs'),
    ('view.py', 'ViewMethodsMixin.invoke_exception_view', 'invoke_exception_view'),
    ('tweens.py', '_error_handler', 'error_handler'),
    ('tweens.py', 'excview_tween_factory.excview_tween', 'excview_tween'),
    ('router.py', 'Router.handle_request', 'Router_handle_request'),
    ('router.py', 'Router.finish_request', 'Router_finish_request'),
    ('router.py', 'Router.invoke_request', 'Router_invoke_request'),
    ('router.py', 'Router.request_context', 'Router_request_context'),
    ('router.py', 'Router.invoke_subrequest', 'Router_invoke_subrequest'),
    ('router.py', 'default_execution_policy', 'default_execution_policy'),
    ('router.py', 'Router.__call__', 'Router_call'),
    ('config/__init__.py', 'Configurator.begin', 'Configurator_begin'),
    ('config/__init__.py', 'Configurator.end', 'Configurator_end'),
    ('config/actions.py', 'ActionConfiguratorMixin.commit', 'Configurator_commit'),
    ('config/actions.py', 'ActionConfiguratorMixin.action', 'Configurator_action'),
    ('config/__init__.py', 'Configurator.__enter__', 'Configurator_enter'),
    ('config/__init__.py', 'Configurator.__exit__', 'Configurator_exit'),
    ('config/routes.py', 'RoutesConfiguratorMixin.route_prefix_context', 'route_prefix_context'),
    ('config/__init__.py', 'Configurator.include', 'Configurator_include'),
    ('config/__init__.py', 'Configurator.make_wsgi_app', 'Configurator_make_wsgi_app'),
    ('scripting.py', 'get_root.closer', 'get_root_closer'),
    ('scripting.py', 'get_root', 'get_root'),
    ('scripting.py', 'prepare.closer', 'prepare_closer'),
    ('scripting.py', 'prepare', 'prepare'),
    ('scripting.py', 'AppEnvironment.__enter__', 'AppEnvironment_enter'),
    ('scripting.py', 'AppEnvironment.__exit__', 'AppEnvironment_exit'),
]
LEAN = {q: l for _, q, l in FUNCS}
GEN_CMS = {'hide_attrs', 'RoutesConfiguratorMixin.route_prefix_context'}

# callee text -> resolved function, per enclosing function ('*' = anywhere).  Dynamic dispatch that the
# translator takes on trust (checked by the correspondence run): `self.execution_policy` is the default
# policy, `ctx` in scripting is a RequestContext, `request` is a pyramid Request.
RESOLVE = {
    ('RequestContext.__enter__', 'self.begin'): 'RequestContext.begin',
    ('RequestContext.__exit__', 'self.end'): 'RequestContext.end',
    ('Router.invoke_request', 'request._process_response_callbacks'): 'CallbackMethodsMixin._process_response_callbacks',
    ('Router.finish_request', 'request._process_finished_callbacks'): 'CallbackMethodsMixin._process_finished_callbacks',
    ('Router.invoke_request', 'self.finish_request'): 'Router.finish_request',
    ('Router.invoke_subrequest', 'self.invoke_request'): 'Router.invoke_request',
    ('default_execution_policy', 'router.invoke_request'): 'Router.invoke_request',
    ('Router.__call__', 'self.execution_policy'): 'default_execution_policy',
    ('_error_handler', 'request.invoke_exception_view'): 'ViewMethodsMixin.invoke_exception_view',
    ('excview_tween_factory.excview_tween', '_error_handler'): '_error_handler',
    ('ActionConfiguratorMixin.commit', 'self.begin'): 'Configurator.begin',
    ('ActionConfiguratorMixin.commit', 'self.end'): 'Configurator.end',
    ('ActionConfiguratorMixin.action', 'self.begin'): 'Configurator.begin',
    ('ActionConfiguratorMixin.action', 'self.end'): 'Configurator.end',
    ('Configurator.__enter__', 'self.begin'): 'Configurator.begin',
    ('Configurator.__exit__', 'self.end'): 'Configurator.end',
    ('Configurator.__exit__', 'self.commit'): 'ActionConfiguratorMixin.commit',
    ('RoutesConfiguratorMixin.route_prefix_context', 'self.begin'): 'Configurator.begin',
    ('RoutesConfiguratorMixin.route_prefix_context', 'self.end'): 'Configurator.end',
    ('Configurator.include', 'self.begin'): 'Configurator.begin',
    ('Configurator.include', 'self.end'): 'Configurator.end',
    ('Configurator.make_wsgi_app', 'self.begin'): 'Configurator.begin',
    ('Configurator.make_wsgi_app', 'self.end'): 'Configurator.end',
    ('Configurator.make_wsgi_app', 'self.commit'): 'ActionConfiguratorMixin.commit',
    ('get_root', 'ctx.begin'): 'RequestContext.begin',
    ('get_root', 'ctx.end'): 'RequestContext.end',
    ('get_root.closer', 'ctx.end'): 'RequestContext.end',
    ('prepare', 'ctx.begin'): 'RequestContext.begin',
    ('prepare', 'ctx.end'): 'RequestContext.end',
    ('prepare.closer', 'ctx.end'): 'RequestContext.end',
    ('prepare.closer', 'request._process_finished_callbacks'): 'CallbackMethodsMixin._process_finished_callbacks',
    ('AppEnvironment.__exit__', "self['closer']"): 'prepare.closer',
}

# roles of call sites on the request path (the observation map from skeleton executions to pipeline events)
ROLE_NAMES = ['chain', 'respCb', 'newResponse', 'finCb', 'newRequest', 'routesMapper', 'beforeTraversal',
              'rootFactory', 'traverser', 'contextFound', 'callView', 'finishCheck']
EVENT_ROLE = {'NewResponse': 2, 'NewRequest': 4, 'BeforeTraversal': 6, 'ContextFound': 9}

# method names resolved whatever the receiver expression is (dynamic dispatch taken on trust, like RESOLVE): lets the
# resolution survive the extraction of a helper (the call moves into another function) or a renamed local
GLOBAL_METHODS = {
    '_process_response_callbacks': 'CallbackMethodsMixin._process_response_callbacks',
    '_process_finished_callbacks': 'CallbackMethodsMixin._process_finished_callbacks',
    'invoke_exception_view': 'ViewMethodsMixin.invoke_exception_view',
    'invoke_request': 'Router.invoke_request',
    'finish_request': 'Router.finish_request',
}
# begin/end/commit are ambiguous by name: resolved by the receiver's type — `self` inside config/*.py is a
# Configurator, `self` inside RequestContext is a RequestContext, a local bound to RequestContext(...) (directly or
# through a helper that returns one) is a RequestContext
TYPED_METHODS = {
    ('Configurator', 'begin'): 'Configurator.begin', ('Configurator', 'end'): 'Configurator.end',
    ('Configurator', 'commit'): 'ActionConfiguratorMixin.commit',
    ('RequestContext', 'begin'): 'RequestContext.begin', ('RequestContext', 'end'): 'RequestContext.end',
}

# `with <callee>(…)`: ('class', C) = C(...) then C.__enter__/__exit__; ('ret', F, C) = F(...) returns a C;
# ('gen', G) = @contextmanager generator G
WITH = {
    'RequestContext': ('class', 'RequestContext'),
    'router.request_context': ('ret', 'Router.request_context', 'RequestContext'),
    'hide_attrs': ('gen', 'hide_attrs'),
    'self.route_prefix_context': ('gen', 'RoutesConfiguratorMixin.route_prefix_context'),
}

# total constructors: assumed not to raise (explicit hypothesis of the generated obligations)
NO_RAISE = {'AppEnvironment'}

EXPECTED_PRIM = {
    'push': "[Expr(value=Call(func=Attribute(value=Attribute(value=Name(id='self'), attr='stack'), attr='append'), args=[Name(id='info')]))]",
    'pop': "[If(test=Attribute(value=Name(id='self'), attr='stack'), body=[Return(value=Call(func=Attribute(value=Attribute(value=Name(id='self'), attr='stack'), attr='pop')))])]",
}


def _dump(nodes):
    return '[' + ', '.join(_strip_ctx(ast.dump(n)) for n in nodes) + ']'


def _strip_ctx(s):
    for c in (', ctx=Load()', ', ctx=Store()', ', keywords=[]', ', args=[]', ', orelse=[]'):
        s = s.replace(c, '')
    return s


def name(n):
    if isinstance(n, ast.Attribute):
        return name(n.value) + '.' + n.attr
    if isinstance(n, ast.Name):
        return n.id
    if isinstance(n, ast.Call):
        return name(n.func)
    if isinstance(n, ast.Subscript) and isinstance(n.slice, ast.Constant):
        return '%s[%r]' % (name(n.value), n.slice.value)
    return '?'


def find(tree, qual):
    node = tree
    for p in qual.split('.'):
        for n in ast.iter_child_nodes(node):
            if isinstance(n, (ast.FunctionDef, ast.ClassDef)) and n.name == p:
                node = n
                break
        else:
            return None
    return node


def own_nodes(fn):
    """nodes of fn's body that are not inside a nested def/class/lambda"""
    out = []
    stack = list(fn.body)
    while stack:
        n = stack.pop()
        out.append(n)
        for c in ast.iter_child_nodes(n):
            if not isinstance(c, (ast.FunctionDef, ast.AsyncFunctionDef, ast.ClassDef, ast.Lambda)):
                stack.append(c)
    return out


def own_nodes_of(st):
    """nodes below statement `st` that are not inside a nested def/class/lambda"""
    out, stack = [], [c for c in ast.iter_child_nodes(st)
                      if not isinstance(c, (ast.FunctionDef, ast.AsyncFunctionDef, ast.ClassDef, ast.Lambda))]
    while stack:
        n = stack.pop()
        out.append(n)
        for c in ast.iter_child_nodes(n):
            if not isinstance(c, (ast.FunctionDef, ast.AsyncFunctionDef, ast.ClassDef, ast.Lambda)):
                stack.append(c)
    return out


class Tr:
    """translation state shared by all functions of one run"""

    def __init__(self):
        self.sites = []          # index = site id -> name
        self.locs = []           # index = site id -> "file:line:col:endline:endcol" of the call node ("-" = none)
        self.helpers = {}        # (file, qualname) -> lean name | None (looked at, stays an opaque call)
        self.helper_defs = []    # translated helper functions, emitted before their first user
        self.in_progress = set()
        self.types = {}          # local variable -> 'RequestContext' for the function being translated
        self.cls = None          # ast.ClassDef of the function being translated
        self.depth = 0
        self.cur = None          # FunctionDef being translated (for def-use look-ups of locals)
        self.ctx = None          # def-use context (function + parameter bindings) of what is being translated
        self.root_fn = None      # the LISTED function being translated (helpers are inlined into it)
        self.call_stack = []     # positions of the helper calls being inlined (outermost first)
        self.dull = set()        # (helper, root) pairs found not worth inlining
        self.loop_bodies = {}    # loop site -> its body term
        self.roles = {}          # site id -> role (see ROLE_NAMES)
        self.no_raise = []
        self.unknowns = []
        self.fn = None
        self.counts = {}
        self.tree = None         # module AST of the function being translated (to find local generator CMs)
        self.file = None
        self.gen_plain = {}      # lean name of a generator CM -> it has code after the yield outside finally
        self.auto = {}           # (file, name) -> lean name of a generator CM discovered at a `with`

    def gen_cm(self, fn, qual, lean, cls=None):
        """translate an @contextmanager generator as a Lean function of the with-body"""
        saved = (self.fn, self.types, self.cls, self.cur)
        saved_ctx = self.ctx
        self.ctx = self.new_ctx(fn)
        self.fn = qual
        self.cur = fn
        self.types = self.infer_types(fn, {})
        if cls is not None:
            self.cls = cls
        ok, why, plain = gen_cm_info(fn)
        if not ok:
            term = self.unknown('generator context manager: ' + why)
        else:
            term = self.block(_body(fn), yield_body='body')
        self.gen_plain[lean] = plain
        self.fn, self.types, self.cls, self.cur = saved
        self.ctx = saved_ctx
        return (lean, qual, True, term)

    def local_gen_cm(self, nm):
        """`with nm(...)` where nm is a module-level @contextmanager function of the same file"""
        key = (self.file, nm)
        if key in self.auto:
            return self.auto[key]
        if self.tree is None:
            return None
        for n in self.tree.body:
            if isinstance(n, ast.FunctionDef) and n.name == nm and _is_contextmanager(n):
                lean = 'gen_' + ''.join(c if c.isalnum() else '_' for c in (self.file[:-3] + '_' + nm))
                self.auto[key] = lean
                self.helper_defs.append(self.gen_cm(n, nm, lean))
                return lean
        return None

    def pos(self, node):
        return '%s:%d:%d:%d:%d' % (self.file, node.lineno, node.col_offset, node.end_lineno, node.end_col_offset)

    def site(self, kind, node=None):
        self.locs.append('@'.join([self.pos(node)] + list(reversed(self.call_stack))) if node is not None and self.file else '-')
        key = (self.fn, kind)
        self.counts[key] = self.counts.get(key, 0) + 1
        self.sites.append('%s|%s|%d' % (self.fn, kind, self.counts[key]))
        return len(self.sites) - 1

    def unknown(self, why):
        self.unknowns.append('%s: %s' % (self.fn, why))
        return '.unknown'

    # ---- calls ----------------------------------------------------------------------------------------------
    def receiver_type(self, f):
        """'Configurator' | 'RequestContext' | None for the receiver of the attribute call `f`"""
        if not isinstance(f, ast.Attribute) or not isinstance(f.value, ast.Name):
            return None
        v = f.value.id
        if v == 'self':
            if self.cls is not None and self.cls.name == 'RequestContext':
                return 'RequestContext'
            if self.file and self.file.startswith('config/'):
                return 'Configurator'
            return None
        return self.types.get(v)

    # ---- def-use look-ups (for roles): contexts follow helper inlining, parameters are bound to the caller's arguments
    def new_ctx(self, fn, params=None):
        return {'fn': fn, 'params': params or {}}

    def bind_params(self, node, cls, call, caller_ctx):
        names = [a.arg for a in node.args.args]
        static = any(name(d) == 'staticmethod' for d in node.decorator_list)
        if cls is not None and not static and names and names[0] in ('self', 'cls'):
            names = names[1:]
        params = {}
        for n, a in zip(names, call.args):
            if isinstance(a, ast.Starred):
                break
            params[n] = (a, caller_ctx)
        for k in call.keywords:
            if k.arg in names:
                params[k.arg] = (k.value, caller_ctx)
        return params

    def flow(self, var, ctx=None, depth=0):
        """names and attribute names mentioned by what local `var` is bound to: through other locals, through the
        returns of same-class / same-module helpers, and — for a parameter of an inlined helper — through the argument
        the caller passes"""
        out = set()
        ctx = ctx or self.ctx
        if ctx is None or ctx['fn'] is None or depth > 4:
            return out
        found = False
        for n in own_nodes(ctx['fn']):
            if isinstance(n, ast.Assign) and any(isinstance(tg, ast.Name) and tg.id == var for tg in n.targets):
                found = True
                out |= self.mentions(n.value, ctx, depth)
        if not found and var in ctx['params']:
            expr, pctx = ctx['params'][var]
            out |= self.mentions(expr, pctx, depth + 1)
        return out

    def mentions(self, expr, ctx, depth, follow=True):
        out = set()
        if isinstance(expr, ast.Name):
            out.add(expr.id)
            if follow:
                out |= self.flow(expr.id, ctx, depth + 1)
        elif isinstance(expr, ast.Attribute):
            out.add(expr.attr)
            out |= self.mentions(expr.value, ctx, depth, follow)
        elif isinstance(expr, ast.Call):
            out |= self.mentions(expr.func, ctx, depth, follow)
            hn = self.helper_node(expr.func)
            if hn is not None and depth <= 3:
                hctx = self.new_ctx(hn[1], self.bind_params(hn[1], hn[2], expr, ctx))
                for r in own_nodes(hn[1]):
                    if isinstance(r, ast.Return) and r.value is not None:
                        out |= self.mentions(r.value, hctx, depth + 1)
            else:
                for a in list(expr.args) + [k.value for k in expr.keywords]:
                    out |= self.mentions(a.value if isinstance(a, ast.Starred) else a, ctx, depth, follow=False)
        elif isinstance(expr, ast.AST):
            for c in ast.iter_child_nodes(expr):
                if isinstance(c, ast.expr):
                    out |= self.mentions(c, ctx, depth, follow)
        return out

    def role_of(self, e):
        """role of a call site on the request path, by what is called (not by the local's name); decided in the
        context of the LISTED function being translated (`root_fn`), also inside the helpers inlined into it"""
        f = e.func
        root = self.root_fn or ''
        for a in list(e.args) + [k.value for k in e.keywords]:
            if isinstance(a, ast.Call) and name(a.func) in EVENT_ROLE:
                return EVENT_ROLE[name(a.func)]
        if isinstance(f, ast.Name):
            if root == 'CallbackMethodsMixin._process_response_callbacks':
                return 1
            if root == 'CallbackMethodsMixin._process_finished_callbacks':
                return 3
            if root.startswith('Router.'):
                if f.id == '_call_view':
                    return 10
                m = self.flow(f.id)
                if m & {'handle_request', 'orig_handle_request'}:
                    return 0
                if 'routes_mapper' in m:
                    return 5
                if m & {'ITraverser', 'ResourceTreeTraverser'}:
                    return 8
                if m & {'root_factory', 'factory'}:
                    return 7
        return None

    def call_term(self, e, nm):
        f = e.func
        if nm in PUSH:
            return 'managerPush'
        if nm in POP:
            return 'managerPop'
        if nm in BAD:
            return self.unknown('call of ' + nm)
        if (self.fn, nm) in RESOLVE:
            return '(.scope %s)' % LEAN[RESOLVE[(self.fn, nm)]]
        if isinstance(f, ast.Attribute):
            ty = self.receiver_type(f)
            if (ty, f.attr) in TYPED_METHODS:
                return '(.scope %s)' % LEAN[TYPED_METHODS[(ty, f.attr)]]
            if f.attr in GLOBAL_METHODS:
                return '(.scope %s)' % LEAN[GLOBAL_METHODS[f.attr]]
        h = self.helper(f, e)
        if h is not None:
            return h
        s = self.site(nm, e)
        if nm in NO_RAISE:
            self.no_raise.append(s)
        r = self.role_of(e)
        if r is not None:
            self.roles[s] = r
        return '(.call %d)' % s

    def helper_node(self, f):
        """(qualname, FunctionDef, ClassDef|None) of a same-module function / same-class method called as `f`"""
        if isinstance(f, ast.Name) and self.tree is not None:
            for n in self.tree.body:
                if isinstance(n, ast.FunctionDef) and n.name == f.id and not _is_contextmanager(n):
                    return f.id, n, None
        if (isinstance(f, ast.Attribute) and isinstance(f.value, ast.Name) and self.cls is not None
                and f.value.id in ('self', 'cls', self.cls.name)):
            for n in self.cls.body:
                if isinstance(n, ast.FunctionDef) and n.name == f.attr:
                    return self.cls.name + '.' + f.attr, n, self.cls
        return None

    def helper(self, f, call=None):
        """`(.scope <skeleton>)` when the callee is a local helper worth inlining: a function of the same module / method
        of the same class (three levels deep) whose skeleton touches the stack, enters a listed function or contains a
        call site with a role.  The helper is translated afresh at every call site (its sites are this caller's: the
        same helper inlined into two functions gives two sets of sites, told apart by the calling position).  Helpers
        that do none of that stay opaque calls and what their trial translation allocated is rolled back."""
        hn = self.helper_node(f)
        if hn is None:
            return None
        qual, node, cls = hn
        key = (self.file, qual)
        if qual in LEAN:
            return '(.scope %s)' % LEAN[qual]
        if key in self.in_progress or self.depth >= 3 or (key, self.root_fn) in self.dull:
            return None
        if any(isinstance(n, (ast.Yield, ast.YieldFrom)) for n in own_nodes(node)):
            return None
        snap = (len(self.sites), dict(self.counts), list(self.no_raise), list(self.unknowns), len(self.helper_defs),
                dict(self.auto), dict(self.gen_plain), dict(self.loop_bodies))
        saved = (self.fn, self.types, self.cls, self.cur, self.ctx)
        self.in_progress.add(key)
        self.depth += 1
        if call is not None:
            self.call_stack.append(self.pos(call))
        self.ctx = self.new_ctx(node, self.bind_params(node, cls, call, saved[4]) if call is not None else {})
        self.fn, self.cls, self.cur = qual, cls, node
        self.types = self.infer_types(node, {})
        term = self.block(_body(node))
        self.fn, self.types, self.cls, self.cur, self.ctx = saved
        if call is not None:
            self.call_stack.pop()
        self.depth -= 1
        self.in_progress.discard(key)
        interesting = (any(x in term for x in ('managerPush', 'managerPop', '(.scope ', 'withCM', '(hide_attrs ', '(route_prefix_context ', '(gen_'))
                       or any(k >= snap[0] for k in self.roles))
        if not interesting:
            del self.sites[snap[0]:]
            del self.locs[snap[0]:]
            self.roles = {k: v for k, v in self.roles.items() if k < snap[0]}
            self.counts, self.no_raise, self.unknowns = snap[1], snap[2], snap[3]
            del self.helper_defs[snap[4]:]
            self.auto, self.gen_plain, self.loop_bodies = snap[5], snap[6], snap[7]
            self.dull.add((key, self.root_fn))
            return None
        self.helpers[key] = True
        return '(.scope %s)' % term

    def ret_type(self, f):
        """'RequestContext' when the helper called as `f` returns one on every path"""
        hn = self.helper_node(f)
        if hn is None:
            return None
        _q, node, _c = hn
        ty = self.infer_types(node, {}, follow=False)
        rets = [n for n in own_nodes(node) if isinstance(n, ast.Return)]
        if not rets:
            return None
        for r in rets:
            v = r.value
            ok = (isinstance(v, ast.Name) and ty.get(v.id) == 'RequestContext') or \
                 (isinstance(v, ast.Call) and name(v.func) == 'RequestContext')
            if not ok:
                return None
        return 'RequestContext'

    def infer_types(self, fn, inherited, follow=True):
        types = dict(inherited)
        for n in own_nodes(fn):
            if isinstance(n, ast.Assign) and len(n.targets) == 1 and isinstance(n.targets[0], ast.Name) and isinstance(n.value, ast.Call):
                if name(n.value.func) == 'RequestContext':
                    types[n.targets[0].id] = 'RequestContext'
                elif follow and self.ret_type(n.value.func) == 'RequestContext':
                    types[n.targets[0].id] = 'RequestContext'
        return types

    # ---- expressions: list of Stmt terms in evaluation order --------------------------------------------
    def expr(self, e):
        if e is None:
            return []
        if isinstance(e, ast.Call):
            out = []
            f = e.func
            if isinstance(f, ast.Attribute):
                out += self.expr(f.value)
            elif not isinstance(f, ast.Name):
                out += self.expr(f)
            for a in e.args:
                out += self.expr(a.value if isinstance(a, ast.Starred) else a)
            for k in e.keywords:
                out += self.expr(k.value)
            nm = name(f)
            out.append(self.call_term(e, nm))
            return out
        if isinstance(e, ast.BoolOp):
            out = self.expr(e.values[0])
            rest = e.values[1:]

            def chain(vs):
                if not vs:
                    return []
                inner = self.expr(vs[0]) + chain(vs[1:])
                if not inner:
                    return []
                s = self.site('and' if isinstance(e.op, ast.And) else 'or')
                return ['(.ite %d %s .skip)' % (s, self.seq(inner))]
            return out + chain(rest)
        if isinstance(e, ast.IfExp):
            out = self.expr(e.test)
            a, b = self.expr(e.body), self.expr(e.orelse)
            if a or b:
                out.append('(.ite %d %s %s)' % (self.site('ifexp'), self.seq(a), self.seq(b)))
            return out
        if isinstance(e, ast.Lambda):
            return []
        if isinstance(e, (ast.ListComp, ast.SetComp, ast.GeneratorExp, ast.DictComp)):
            out = self.expr(e.generators[0].iter)
            inner = []
            for g in e.generators[1:]:
                inner += self.expr(g.iter)
            for g in e.generators:
                for c in g.ifs:
                    inner += self.expr(c)
            if isinstance(e, ast.DictComp):
                inner += self.expr(e.key) + self.expr(e.value)
            else:
                inner += self.expr(e.elt)
            if inner:
                out.append('(.loop %d %s)' % (self.site('comp'), self.seq(inner)))
            return out
        if isinstance(e, (ast.Yield, ast.YieldFrom, ast.Await, ast.NamedExpr)):
            return [self.unknown('expression ' + type(e).__name__)]
        out = []
        for c in ast.iter_child_nodes(e):
            if isinstance(c, ast.expr):
                out += self.expr(c)
            elif isinstance(c, ast.keyword):
                out += self.expr(c.value)
        return out

    def seq(self, xs):
        xs = [x for x in xs if x != '.skip']
        if not xs:
            return '.skip'
        if len(xs) == 1:
            return xs[0]
        return '(.seq %s %s)' % (xs[0], self.seq(xs[1:]))

    # ---- statements ---------------------------------------------------------------------------------------
    def block(self, stmts, yield_body=None):
        return self.seq([self.stmt(s, yield_body) for s in stmts])

    def stmt(self, s, yb=None):
        if isinstance(s, ast.Expr):
            if isinstance(s.value, ast.Constant):
                return '.skip'
            if isinstance(s.value, ast.Yield):
                if yb is None:
                    return self.unknown('yield outside a known generator context manager')
                return self.seq(self.expr(s.value.value) + [yb])
            return self.seq(self.expr(s.value))
        if isinstance(s, (ast.Assign, ast.AnnAssign)) and isinstance(s.value, ast.Yield):
            if yb is None:
                return self.unknown('yield outside a known generator context manager')
            return self.seq(self.expr(s.value.value) + [yb])
        if isinstance(s, (ast.Assign, ast.AugAssign, ast.AnnAssign)):
            targets = s.targets if isinstance(s, ast.Assign) else [s.target]
            pre = []
            for t in targets:
                if isinstance(t, (ast.Subscript, ast.Attribute)):
                    pre += self.expr(t.value)
                    if isinstance(t, ast.Subscript):
                        pre += self.expr(t.slice)
            return self.seq(self.expr(s.value) + pre)
        if isinstance(s, ast.Delete):
            return self.seq([x for t in s.targets for x in self.expr(t)])
        if isinstance(s, ast.Return):
            return self.seq(self.expr(s.value) + ['.ret'])
        if isinstance(s, ast.Raise):
            return self.seq(self.expr(s.exc) + self.expr(s.cause) + ['.raise'])
        if isinstance(s, ast.If):
            pre = self.expr(s.test)
            sid = self.site('if')
            if (self.root_fn or '').startswith('Router.') and any(isinstance(x, ast.Attribute) and x.attr == 'finished_callbacks' for x in ast.walk(s.test)):
                self.roles[sid] = 11      # the router looks at the finished-callback deque (finish_request is reached)
            return self.seq(pre + ['(.ite %d %s %s)' % (sid, self.block(s.body, yb), self.block(s.orelse, yb))])
        if isinstance(s, ast.While):
            if s.orelse or self.has_jump(s.body):
                return self.unknown('while with else/break/continue')
            t = self.expr(s.test)
            body = self.seq([self.block(s.body)] + self.expr(s.test))
            ls = self.site('while')
            self.loop_bodies[ls] = body
            return self.seq(t + ['(.loop %d %s)' % (ls, body)])
        if isinstance(s, ast.For):
            if s.orelse or self.has_jump(s.body):
                return self.unknown('for with else/break/continue')
            pre = self.expr(s.iter)
            body = self.block(s.body)
            ls = self.site('for')
            self.loop_bodies[ls] = body
            return self.seq(pre + ['(.loop %d %s)' % (ls, body)])
        if isinstance(s, ast.Try):
            body = self.block(s.body, yb)
            if s.handlers:
                # handlers: first clause whose type matches (oracle), else the exception goes on
                h = '.raise'
                for hd in reversed(s.handlers):
                    hb = self.block(hd.body)
                    tn = name(hd.type) if hd.type is not None else None
                    if tn is None or tn == 'BaseException':
                        h = hb
                    else:
                        h = '(.ite %d %s %s)' % (self.site('except ' + tn), hb, h)
                body = '(.tryExcept %s %s)' % (body, h)
            if s.orelse:
                body = self.seq([body, self.block(s.orelse, yb)])
            if s.finalbody:
                body = '(.tryFinally %s %s)' % (body, self.block(s.finalbody))
            return body
        if isinstance(s, ast.With):
            if len(s.items) != 1:
                return self.unknown('with of several items')
            it = s.items[0].context_expr
            if not isinstance(it, ast.Call):
                return self.unknown('with over a non-call')
            nm = name(it.func)
            auto = None
            if nm not in WITH:
                auto = self.local_gen_cm(nm) if isinstance(it.func, ast.Name) else None
                if auto is None:
                    return self.unknown('with ' + nm)
            pre = []
            for a in it.args:
                pre += self.expr(a)
            for k in it.keywords:
                pre += self.expr(k.value)
            body = self.block(s.body, yb)
            w = WITH[nm] if auto is None else ('gen', None)
            if w[0] == 'gen':
                lean = auto or LEAN[w[1]]
                returns = any(isinstance(n, ast.Return) for st in s.body for n in [st] + own_nodes_of(st))
                if returns and self.gen_plain.get(lean, True):
                    return self.unknown('return inside `with %s` whose generator has code after the yield outside finally' % nm)
                return self.seq(pre + ['(%s %s)' % (lean, body)])
            if w[0] == 'class':
                pre.append('(.call %d)' % self.site(nm, it))
                return self.seq(pre + ['(withCM %s_enter %s %s_exit)' % (w[1], body, w[1])])
            if w[0] == 'ret':
                pre.append('(.scope %s)' % LEAN[w[1]])
                return self.seq(pre + ['(withCM %s_enter %s %s_exit)' % (w[2], body, w[2])])
            return self.unknown('with ' + nm)
        if isinstance(s, (ast.FunctionDef, ast.ClassDef, ast.Import, ast.ImportFrom, ast.Pass, ast.Global, ast.Nonlocal)):
            return '.skip'
        if isinstance(s, ast.Assert):
            return self.seq(self.expr(s.test))
        return self.unknown('statement ' + type(s).__name__)

    @staticmethod
    def has_jump(stmts):
        for st in stmts:
            for n in ast.walk(st):
                if isinstance(n, (ast.Break, ast.Continue)):
                    return True
        return False


def _body(fn):
    return [s for s in fn.body if not (isinstance(s, ast.Expr) and isinstance(s.value, ast.Constant))]


def _is_contextmanager(fn):
    return [name(d) for d in fn.decorator_list] in (['contextmanager'], ['contextlib.contextmanager'])


def _yield_stmt(st):
    """the Yield node when `st` is `yield …` or `x = yield …`"""
    if isinstance(st, ast.Expr) and isinstance(st.value, ast.Yield):
        return st.value
    if isinstance(st, (ast.Assign, ast.AnnAssign)) and isinstance(st.value, ast.Yield):
        return st.value
    return None


def gen_cm_info(fn):
    """(ok, why, plain_post) for an @contextmanager generator.

    `with g(): body` runs the generator up to its single `yield`, then the body; a body that ends normally resumes
    the generator after the `yield`, a body that raises has the exception thrown at the `yield` (so only what a
    try/finally, try/except or `with` around the `yield` provides still runs) — i.e. the body substituted at the
    `yield` statement.  ok = that substitution is well defined (one `yield`, a statement of its own, not in a loop,
    not in an except/finally clause).  plain_post = some code after the `yield` is NOT in a `finally` clause or a
    context-manager exit (it is skipped when the body raises; it still runs when the body `return`s, which the
    substitution would skip — the caller refuses that combination)."""
    if not _is_contextmanager(fn):
        return False, 'not decorated with contextmanager', False
    ys = [n for n in own_nodes(fn) if isinstance(n, (ast.Yield, ast.YieldFrom))]
    if len(ys) != 1 or isinstance(ys[0], ast.YieldFrom):
        return False, '%d yields' % len(ys), False
    y = ys[0]
    res = {'plain': False, 'found': False, 'bad': None}

    def contains(st):
        return any(n is y for n in ast.walk(st))

    def walk(stmts):
        for i, st in enumerate(stmts):
            if not contains(st):
                continue
            if _yield_stmt(st) is y:
                res['found'] = True
            elif isinstance(st, ast.With):
                walk(st.body)
            elif isinstance(st, ast.If):
                walk(st.body if any(contains(x) for x in st.body) else st.orelse)
            elif isinstance(st, ast.Try):
                if any(contains(x) for x in st.body):
                    walk(st.body)
                    if st.orelse:
                        res['plain'] = True
                elif any(contains(x) for x in st.orelse):
                    walk(st.orelse)
                else:
                    res['bad'] = 'yield inside an except/finally clause'
            else:
                res['bad'] = 'yield inside %s' % type(st).__name__
            if any(not isinstance(x, ast.Pass) for x in stmts[i + 1:]):
                res['plain'] = True
            return
    walk(_body(fn))
    if res['bad'] or not res['found']:
        return False, res['bad'] or 'yield is not a statement of its own', False
    return True, '', res['plain']


def _exit_ok(fn):
    """__exit__ never returns a value (so it cannot swallow the exception)"""
    return not any(isinstance(n, ast.Return) and n.value is not None for n in ast.walk(fn))


def scan_push_pop_owners(pkg):
    owners = []
    for root, dirs, files in os.walk(pkg):
        dirs[:] = sorted(d for d in dirs if d != '__pycache__')
        for f in sorted(files):
            if not f.endswith('.py'):
                continue
            path = os.path.join(root, f)
            rel = os.path.relpath(path, pkg)
            try:
                tree = ast.parse(open(path).read())
            except SyntaxError:
                owners.append(rel + ':<syntax error>')
                continue

            def visit(node, qual):
                for ch in ast.iter_child_nodes(node):
                    if isinstance(ch, (ast.FunctionDef, ast.AsyncFunctionDef, ast.ClassDef)):
                        visit(ch, qual + [ch.name])
                    else:
                        for n in ast.walk(ch) if not isinstance(ch, (ast.FunctionDef, ast.ClassDef)) else []:
                            if isinstance(n, ast.Call):
                                nm = name(n.func)
                                if nm in PUSH or nm in POP or nm in BAD or nm.endswith('manager.stack.append') or nm.endswith('manager.stack.pop'):
                                    o = '%s:%s' % (rel, '.'.join(qual) or '<module>')
                                    if o not in owners:
                                        owners.append(o)
            visit(tree, [])
    return owners


def probe_drain(src_root):
    """BEHAVIOURAL probe (the code of the tree under test is run, not pattern-matched): what do
    `_process_response_callbacks` / `_process_finished_callbacks` do with callbacks that register callbacks while the
    deque is being processed?  Returns [(probe name, order run, left in the deque, raised?)]; anything unexpected
    (import from another tree, exception in the probe itself) -> [("unknown", [], 0, False)] so the obligation fails."""
    try:
        import importlib, sys
        if src_root not in sys.path:
            sys.path.insert(0, src_root)
        mod = importlib.import_module('pyramid.request')
        if not os.path.realpath(mod.__file__).startswith(os.path.realpath(src_root) + os.sep):
            return [('unknown: pyramid.request imported from %s' % mod.__file__, [], 0, False)]
        out = []
        for kind in ('response', 'finished'):
            for failing in (False, True):
                obj = mod.CallbackMethodsMixin()
                log = []
                add = getattr(obj, 'add_%s_callback' % kind)
                add_other = getattr(obj, 'add_%s_callback' % ('finished' if kind == 'response' else 'response'))

                def mk(name, then=(), other=(), boom=False):
                    def cb(*a):
                        log.append(name)
                        for n in then:
                            add(n)
                        for n in other:
                            add_other(n)
                        if boom:
                            raise RuntimeError(name)
                    return cb
                c = mk('c')
                b = mk('b', then=[c])
                x = mk('x')
                a = mk('a', then=[b], other=[x])
                d = mk('d', boom=failing)
                e = mk('e')
                for f in (a, d, e):
                    add(f)
                raised = False
                try:
                    if kind == 'response':
                        obj._process_response_callbacks(object())
                    else:
                        obj._process_finished_callbacks()
                except RuntimeError:
                    raised = True
                left = len(getattr(obj, '%s_callbacks' % kind))
                out.append(('%s%s' % (kind, ' with a failing callback' if failing else ''), list(log), left, raised))
        return out
    except Exception as e:          # fail closed
        return [('unknown: %s: %s' % (type(e).__name__, e), [], 0, False)]


def generate(src_root):
    pkg = os.path.join(src_root, 'pyramid')
    tr = Tr()
    trees = {}
    defs = []
    fnnodes = {}
    for f, qual, lean in FUNCS:
        if f not in trees:
            trees[f] = ast.parse(open(os.path.join(pkg, f)).read())
        fnnodes[qual] = find(trees[f], qual)

    # primitives
    tl = trees['threadlocal.py']
    prims = {}
    for p in ('push', 'pop'):
        fn = find(tl, 'ThreadLocalManager.' + p)
        ok = fn is not None and _dump(_body(fn)) == EXPECTED_PRIM[p]
        prims[p] = ok
        if not ok:
            tr.unknowns.append('ThreadLocalManager.%s does not have the expected body' % p)
    setalias = any(isinstance(n, ast.Assign) and [name(t) for t in n.targets] == ['set'] and name(n.value) == 'push'
                   for n in find(tl, 'ThreadLocalManager').body) if find(tl, 'ThreadLocalManager') else False

    for f, qual, lean in FUNCS:
        fn = fnnodes[qual]
        tr.fn = qual
        tr.tree, tr.file = trees[f], f
        parts = qual.split('.')
        outer = find(trees[f], '.'.join(parts[:-1])) if len(parts) > 1 else None
        tr.cls = outer if isinstance(outer, ast.ClassDef) else None
        tr.types = {}
        tr.cur = fn
        tr.root_fn = qual
        tr.ctx = tr.new_ctx(fn)
        if fn is not None:
            inherited = tr.infer_types(outer, {}) if isinstance(outer, ast.FunctionDef) else {}
            tr.types = tr.infer_types(fn, inherited)
        if fn is None:
            tr.gen_plain[lean] = True
            defs.append((lean, qual, qual in GEN_CMS, tr.unknown('function not found')))
            continue
        body = _body(fn)
        if qual in GEN_CMS:
            g = tr.gen_cm(fn, qual, lean, tr.cls)
            defs.extend(tr.helper_defs)
            tr.helper_defs = []
            defs.append(g)
            continue
        if qual.endswith('.__exit__') and not _exit_ok(fn):
            defs.append((lean, qual, False, tr.unknown('__exit__ returns a value')))
            continue
        term = tr.block(body)
        defs.extend(tr.helper_defs)
        tr.helper_defs = []
        if qual == 'Router.request_context':
            last = body[-1] if body else None
            if not (isinstance(last, ast.Return) and isinstance(last.value, ast.Call) and name(last.value.func) == 'RequestContext'):
                term = tr.unknown('request_context does not return RequestContext(...)')
        if qual == 'prepare':
            rets = [n for n in own_nodes(fn) if isinstance(n, ast.Return)]
            ok = len(rets) >= 1 and all(
                isinstance(r.value, ast.Call) and name(r.value.func) == 'AppEnvironment' and
                any(k.arg == 'closer' and name(k.value) == 'closer' for k in r.value.keywords)
                for r in rets)
            if not ok:
                term = tr.unknown('prepare does not return AppEnvironment(closer=closer, …)')
        defs.append((lean, qual, False, term))

    # synthetic user sites for the scope entry points
    tr.fn = 'user'
    u_with_cfg = tr.site('with Configurator body')
    u_rpc = tr.site('route_prefix_context body')
    u_rc = tr.site('RequestContext body')
    u_prep = tr.site('with prepare body')
    u_prep2 = tr.site('prepare then closer body')
    u_root = tr.site('get_root then closer body')
    u_be = tr.site('begin/end body')
    u_resp = tr.site('response(environ, start_response)')

    owners = scan_push_pop_owners(pkg)

    L = []
    L.append('import PyramidModel.Skeleton')
    L.append('/-! GENERATED by extract/c13.py from src/pyramid/{threadlocal,router,request,tweens,view,util,scripting}.py and')
    L.append('config/{__init__,actions,routes}.py — do not edit. -/')
    L.append('namespace Pyr.Gen.C13')
    L.append('open Pyr.Skel')
    L.append('')
    L.append('/-- `ThreadLocalManager.push` is `self.stack.append(info)` -/')
    L.append('def managerPush : Stmt := %s' % ('.push' if prims['push'] else '.unknown'))
    L.append('/-- `ThreadLocalManager.pop` is `if self.stack: return self.stack.pop()` -/')
    L.append('def managerPop : Stmt := %s' % ('.pop' if prims['pop'] else '.unknown'))
    L.append('')
    for lean, qual, is_gen, term in defs:
        L.append('/-- %s%s -/' % (qual, ' (generator context manager; `body` runs at the `yield`)' if is_gen else ''))
        if is_gen:
            L.append('def %s (body : Stmt) : Stmt :=\n  %s' % (lean, term))
        else:
            L.append('def %s : Stmt :=\n  %s' % (lean, term))
        L.append('')
    L.append('/-- site id ↦ "function|callee or construct|occurrence" -/')
    L.append('def siteNames : List String := [')
    L.append(',\n'.join('  "%s"' % s.replace('\\', '\\\\').replace('"', '\\"') for s in tr.sites))
    L.append(']')
    L.append('')
    L.append('/-- site id ↦ "file:line:col:endline:endcol" of the call expression ("-" for branches, loops, synthetic sites) -/')
    L.append('def siteLocs : List String := [')
    L.append(',\n'.join('  "%s"' % s for s in tr.locs))
    L.append(']')
    L.append('')
    L.append('/-- the observation map: call site ↦ role on the request path')
    L.append('(%s) -/' % ', '.join('%d = %s' % (i, n) for i, n in enumerate(ROLE_NAMES)))
    L.append('def siteRoles : List (Nat × Nat) := [%s]' % ', '.join('(%d, %d)' % kv for kv in sorted(tr.roles.items())))
    L.append('')
    probe = probe_drain(src_root)
    L.append('/-- PROBED by running `_process_response_callbacks` / `_process_finished_callbacks` of the tree under test on')
    L.append('a deque [a, d, e] where a registers b (same deque) and x (the other deque), b registers c, and (second run) d')
    L.append('raises: (probe, callbacks run in order, left in the deque afterwards, raised?) -/')
    L.append('def drainProbe : List (String × List String × Nat × Bool) := [')
    L.append(',\n'.join('  ("%s", [%s], %d, %s)' % (n.replace('"', "'"), ', '.join('"%s"' % x for x in order), left, 'true' if r else 'false')
                        for n, order, left, r in probe))
    L.append(']')
    L.append('')
    L.append('/-- sites of total constructors (%s) assumed not to raise -/' % ', '.join(sorted(NO_RAISE)))
    L.append('def noRaise : List Nat := [%s]' % ', '.join(map(str, tr.no_raise)))
    L.append('')
    fin_site = sorted(set([i for i, s in enumerate(tr.sites) if s.startswith('CallbackMethodsMixin._process_finished_callbacks|callback')]
                          + [k for k, v in tr.roles.items() if v == 3]))
    L.append('/-- the calls inside `_process_finished_callbacks` (`callbacks.popleft()` and the finished callback itself) -/')
    L.append('def finishedCallbackSites : List Nat := [%s]' % ', '.join(map(str, fin_site)))
    L.append('')
    L.append('/-- every function of the package whose body calls `manager.push/pop/set/clear` (whole-package scan) -/')
    L.append('def pushPopOwners : List String := [')
    L.append(',\n'.join('  "%s"' % o for o in owners))
    L.append(']')
    L.append('')
    modelled = (['%s:%s' % (f, q) for f, q, _l in FUNCS] + ['%s:%s' % k for k in tr.auto]
                + sorted('%s:%s' % k for k, v in tr.helpers.items() if v))
    L.append('/-- the functions whose skeletons are translated above: the listed ones and every module-level')
    L.append('`@contextmanager` helper a listed function enters with `with` (decided balanced around any body below) -/')
    L.append('def modelledOwners : List String := [')
    L.append(',\n'.join('  "%s"' % o for o in modelled))
    L.append(']')
    L.append('')
    L.append('/-- composite scopes: the paired halves of an open/close API around one user body -/')
    L.append('def with_Configurator : Stmt := withCM Configurator_enter (.call %d) Configurator_exit' % u_with_cfg)
    L.append('def with_route_prefix_context : Stmt := route_prefix_context (.call %d)' % u_rpc)
    L.append('def with_RequestContext : Stmt := withCM RequestContext_enter (.call %d) RequestContext_exit' % u_rc)
    L.append('def with_prepare : Stmt := .seq (.scope prepare) (withCM AppEnvironment_enter (.call %d) AppEnvironment_exit)' % u_prep)
    L.append('def prepare_then_closer : Stmt := .seq (.scope prepare) (.tryFinally (.call %d) (.scope prepare_closer))' % u_prep2)
    L.append('def get_root_then_closer : Stmt := .seq (.scope get_root) (.tryFinally (.call %d) (.scope get_root_closer))' % u_root)
    L.append('def begin_then_end : Stmt := .seq (.scope Configurator_begin) (.tryFinally (.call %d) (.scope Configurator_end))' % u_be)
    L.append('def wsgi_call : Stmt := Router_call')
    L.append('')
    bal = ['Router_call', 'default_execution_policy', 'Router_invoke_request', 'Router_invoke_subrequest',
           'Router_handle_request', 'Router_finish_request', 'Router_request_context',
           'process_response_callbacks', 'process_finished_callbacks',
           'excview_tween', 'error_handler', 'invoke_exception_view', '(hide_attrs (.call %d))' % u_rc,
           'Configurator_commit', 'Configurator_action', 'Configurator_include', 'Configurator_make_wsgi_app',
           'with_Configurator', 'with_route_prefix_context', 'with_RequestContext', 'begin_then_end',
           'get_root_then_closer']
    bal += ['(%s (.call %d))' % (lean, u_rc) for lean in tr.auto.values()]
    L.append('/-- entry points that must leave the stack at the depth they found it, on every path -/')
    L.append('def entryPoints : List (String × Stmt) := [')
    L.append(',\n'.join('  ("%s", %s)' % (b.strip('()').split(' ')[0], b) for b in bal))
    L.append(']')
    L.append('')
    L.append('/-- open one frame on success, none on failure -/')
    L.append('def openers : List (String × Stmt) := [')
    L.append(',\n'.join('  ("%s", %s)' % (b, b) for b in ['RequestContext_begin', 'RequestContext_enter', 'Configurator_begin', 'Configurator_enter', 'get_root', 'prepare']))
    L.append(']')
    L.append('')
    L.append('/-- started one frame up, end at the caller\'s depth on every path -/')
    L.append('def closers : List (String × Stmt) := [')
    L.append(',\n'.join('  ("%s", %s)' % (b, b) for b in ['RequestContext_end', 'RequestContext_exit', 'Configurator_end', 'Configurator_exit', 'get_root_closer', 'prepare_closer', 'AppEnvironment_exit']))
    L.append(']')
    L.append('')
    L.append('/-- the scripting environment of `prepare`: `with prepare() as env: …` and `prepare()` … `closer()`; its closer')
    L.append('runs the finished callbacks (which may raise) and must still pop -/')
    L.append('def scriptingEnv : List (String × Stmt) := [')
    L.append(',\n'.join('  ("%s", %s)' % (b, b) for b in ['with_prepare', 'prepare_then_closer']))
    L.append(']')
    L.append('')
    def sid(nm):
        return tr.sites.index(nm) if nm in tr.sites else 0
    L.append('/-- the sites of the schedule on which `prepare`\'s closer leaked before fix 87e9fa7 (F-C13b): its')
    L.append('`if request.finished_callbacks` branch, the `while callbacks` loop and the callback call of')
    L.append('`_process_finished_callbacks` -/')
    L.append('def siteCloserIf : Nat := %d' % sid('prepare.closer|if|1'))
    fin_cb_sites = [k for k, v in sorted(tr.roles.items()) if v == 3]
    fin_cb = fin_cb_sites[0] if fin_cb_sites else 0
    fin_loops = [ls for ls, body in sorted(tr.loop_bodies.items()) if '(.call %d)' % fin_cb in body]
    L.append('/-- the three sites were found -/')
    L.append('def closerSitesKnown : Bool := %s' % ('true' if (fin_loops and fin_cb_sites and 'prepare.closer|if|1' in tr.sites) else 'false'))
    L.append('def siteFinWhile : Nat := %d' % (fin_loops[0] if fin_loops else 0))
    L.append('def siteFinCallback : Nat := %d' % fin_cb)
    L.append('')
    alld = []
    for lean, qual, is_gen, term in defs:
        alld.append((lean, '(%s (.call %d))' % (lean, u_rc) if is_gen else lean))
    for nm in ['with_Configurator', 'with_route_prefix_context', 'with_RequestContext', 'with_prepare',
               'prepare_then_closer', 'get_root_then_closer', 'begin_then_end', 'wsgi_call']:
        alld.append((nm, nm))
    L.append('/-- every skeleton by name (for the driver) -/')
    L.append('def allDefs : List (String × Stmt) := [')
    L.append(',\n'.join('  ("%s", %s)' % d for d in alld))
    L.append(']')
    L.append('')
    L.append('/-- constructs the translator could not translate (each is an `.unknown` above) -/')
    L.append('def unknowns : List String := [')
    L.append(',\n'.join('  "%s"' % u.replace('"', "'") for u in tr.unknowns))
    L.append(']')
    L.append('')
    L.append('end Pyr.Gen.C13')
    text = '\n'.join(L) + '\n'
    summary.clear()
    summary.update({'drainProbe': probe, 'roles': {tr.sites[k]: ROLE_NAMES[v] for k, v in sorted(tr.roles.items())}, 'functions': len(defs), 'sites': len(tr.sites), 'noRaise': [tr.sites[i] for i in tr.no_raise],
                    'unknowns': tr.unknowns, 'pushPopOwners': owners, 'set_is_push_alias': setalias})
    return {'PyramidModel/Gen/C13Skeleton.lean': text}


def site_table(src_root):
    """name -> id, for the harness"""
    import re
    text = generate(src_root)['PyramidModel/Gen/C13Skeleton.lean']
    blk = text[text.index('def siteNames'):]
    blk = blk[:blk.index('\n]')]
    names = re.findall(r'^  "(.*)"', blk, re.M)
    return {n: i for i, n in enumerate(names)}


if __name__ == '__main__':
    import sys
    out = generate(sys.argv[1] if len(sys.argv) > 1 else '/repo/src')
    for k, v in out.items():
        print(v)
    print(summary, file=sys.stderr)
