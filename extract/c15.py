"""Translator for C15: regenerates, from the working tree's source, the structural facts about the view lookup
cache protocol that the theorems of Props/C15.lean rest on (`Pyr.Cache.Proto`):

 * config/views.py  add_view.register : `self.registry._clear_view_lookup_cache()` is an unconditional top-level
                    statement of `register` (clears), it is the LAST statement and every `register_view(...)`
                    call precedes it, with no `return` in between (swapLast: modify BEFORE swap)
 * config/views.py  add_view.register_view : in the multiview branch (`else` of `if not want_multiview`) the
                    `registerAdapter(multiview, …, IMultiView, …)` call precedes the `for view_type in (IView,
                    ISecuredView): adapters.unregister(…)` loop (multiviewFirst: a concurrent lookup never finds the
                    triad empty; commit 7ef5d71)
 * registry.py      Registry._clear_view_lookup_cache : the body is `self._view_lookup_cache = {}` — a NEW dict
                    (freshDict), not an in-place `.clear()`; Registry.__init__ makes `_lock` a threading.Lock
 * config/__init__.py  the fallback `_clear_view_lookup_cache` closure also assigns a new dict
 * view.py          _find_views : `registry._view_lookup_cache` is read exactly once, into a local; the probe
                    (`local.get(key)`) and the only write (`local[key] = views`) go through that local with the
                    same key expression — a tuple of names, possibly bound to a local first — (singleRead); every
                    input of the scan loop (the names it reads, locals resolved to what they were computed from)
                    is a field of the key or `registry` (keyCoversScan: the key determines the scan);
                    the write sits under `with registry._lock:` (writeUnderLock)
                    and under `if views:` (cacheEmpty = false); the probe precedes the scan loop; the scan calls
                    `registered(...)` inside the loop (live reads); the function returns the probed/filled local;
                    the fields of the cache key.
Anything that does not have the expected shape sets `recognised := false` (and names the problem), which makes
the `decide`d obligation `source_protocol` in Props/C15.lean fail — never a guess.
"""
import ast, os

summary = {}


def _find(tree, path):
    """nested FunctionDef/ClassDef lookup by a list of names"""
    node = tree
    for name in path:
        nxt = None
        for n in ast.walk(node):
            if n is not node and isinstance(n, (ast.FunctionDef, ast.ClassDef)) and n.name == name:
                nxt = n
                break
        if nxt is None:
            return None
        node = nxt
    return node


def _walk_no_nested(nodes):
    """walk statements without descending into nested function/class definitions"""
    stack = list(nodes)
    while stack:
        n = stack.pop()
        yield n
        for c in ast.iter_child_nodes(n):
            if isinstance(c, (ast.FunctionDef, ast.AsyncFunctionDef, ast.ClassDef, ast.Lambda)):
                continue
            stack.append(c)


def _is_clear_call(node):
    return (isinstance(node, ast.Call) and isinstance(node.func, ast.Attribute)
            and node.func.attr == '_clear_view_lookup_cache' and not node.args and not node.keywords)


def _parents(root):
    par = {}
    for n in ast.walk(root):
        for c in ast.iter_child_nodes(n):
            par[c] = n
    return par


def facts(src_root):
    out = {'problems': []}
    P = out['problems']
    rd = lambda *p: open(os.path.join(src_root, 'pyramid', *p)).read()

    # ---- add_view.register -------------------------------------------------------------------------------
    vt = ast.parse(rd('config', 'views.py'))
    reg = _find(vt, ['ViewsConfiguratorMixin', 'add_view', 'register'])
    out['clears'] = out['swapLast'] = None
    out['registerViewCalls'] = 0
    if reg is None:
        P.append('add_view.register not found')
    else:
        body = reg.body
        top_clear = [i for i, st in enumerate(body) if isinstance(st, ast.Expr) and _is_clear_call(st.value)]
        all_clear = [n for n in _walk_no_nested(body) if _is_clear_call(n)]
        rv_idx = [i for i, st in enumerate(body) for n in _walk_no_nested([st])
                  if isinstance(n, ast.Call) and isinstance(n.func, ast.Name) and n.func.id == 'register_view']
        out['registerViewCalls'] = len(rv_idx)
        returns = [n for n in _walk_no_nested(body) if isinstance(n, ast.Return)]
        if not rv_idx:
            P.append('no register_view(...) call in add_view.register')
        if len(all_clear) == 0:
            out['clears'], out['swapLast'] = False, False
        elif len(all_clear) != len(top_clear) or len(top_clear) != 1:
            P.append('the cache clear in add_view.register is conditional or repeated')
        else:
            out['clears'] = True
            i = top_clear[0]
            out['swapLast'] = bool(rv_idx) and all(j < i for j in rv_idx) and i == len(body) - 1 and not returns
        # the adapter mutations happen inside register_view only through the registry
        rvf = _find(vt, ['ViewsConfiguratorMixin', 'add_view', 'register_view'])
        if rvf is None or any(_is_clear_call(n) for n in ast.walk(rvf)):
            P.append('register_view missing or clears the cache itself')
        # the multiview branch: register IMultiView first, then unregister IView / ISecuredView
        out['multiviewFirst'] = None
        if rvf is not None:
            br = [n for n in ast.walk(rvf) if isinstance(n, ast.If) and ast.unparse(n.test) == 'not want_multiview' and n.orelse]
            if len(br) != 1:
                P.append('register_view: no `if not want_multiview: … else: …`')
            else:
                body = br[0].orelse
                reg_i = [i for i, st in enumerate(body) if isinstance(st, ast.Expr) and isinstance(st.value, ast.Call)
                         and isinstance(st.value.func, ast.Attribute) and st.value.func.attr == 'registerAdapter'
                         and any(isinstance(a, ast.Name) and a.id == 'IMultiView' for a in st.value.args)]
                unreg_i = [i for i, st in enumerate(body) if isinstance(st, ast.For)
                           and any(isinstance(n, ast.Call) and isinstance(n.func, ast.Attribute) and n.func.attr == 'unregister'
                                   for n in ast.walk(st))
                           and ast.unparse(st.iter).replace(' ', '') == '(IView,ISecuredView)']
                other_unreg = [n for i, st in enumerate(body) if i not in unreg_i for n in ast.walk(st)
                               if isinstance(n, ast.Call) and isinstance(n.func, ast.Attribute) and n.func.attr in ('unregister', 'unregisterAdapter')]
                if len(reg_i) != 1 or len(unreg_i) != 1 or other_unreg:
                    P.append('register_view: the multiview branch does not have one registerAdapter(IMultiView) and one unregister loop')
                else:
                    out['multiviewFirst'] = reg_i[0] < unreg_i[0]

    # ---- Registry._clear_view_lookup_cache -------------------------------------------------------------
    def fresh_of(fn, owner):
        """True: `<owner>._view_lookup_cache = {}`; False: in-place `.clear()`; None: unknown"""
        if fn is None:
            return None
        body = [st for st in fn.body if not (isinstance(st, ast.Expr) and isinstance(st.value, ast.Constant))]
        while len(body) == 1 and isinstance(body[0], ast.With):      # `with self._lock:` around it changes nothing here
            body = body[0].body
        if len(body) != 1:
            return None
        st = body[0]
        if (isinstance(st, ast.Assign) and len(st.targets) == 1 and isinstance(st.targets[0], ast.Attribute)
                and st.targets[0].attr == '_view_lookup_cache' and isinstance(st.targets[0].value, ast.Name)
                and st.targets[0].value.id == owner):
            v = st.value
            if isinstance(v, ast.Dict) and not v.keys:
                return True
            if isinstance(v, ast.Call) and isinstance(v.func, ast.Name) and v.func.id == 'dict' and not v.args and not v.keywords:
                return True
            return None
        if (isinstance(st, ast.Expr) and isinstance(st.value, ast.Call) and isinstance(st.value.func, ast.Attribute)
                and st.value.func.attr == 'clear' and isinstance(st.value.func.value, ast.Attribute)
                and st.value.func.value.attr == '_view_lookup_cache'):
            return False
        return None

    rt = ast.parse(rd('registry.py'))
    out['freshDict'] = fresh_of(_find(rt, ['Registry', '_clear_view_lookup_cache']), 'self')
    if out['freshDict'] is None:
        P.append('Registry._clear_view_lookup_cache has an unexpected body')
    init = _find(rt, ['Registry', '__init__'])
    lock_ok = clear_in_init = False
    if init is not None:
        for st in init.body:
            if (isinstance(st, ast.Assign) and isinstance(st.targets[0], ast.Attribute) and st.targets[0].attr == '_lock'
                    and ast.unparse(st.value) == 'threading.Lock()'):
                lock_ok = True
            if isinstance(st, ast.Expr) and _is_clear_call(st.value):
                clear_in_init = True
            if (isinstance(st, ast.Assign) and isinstance(st.targets[0], ast.Attribute) and st.targets[0].attr == '_view_lookup_cache'
                    and isinstance(st.value, ast.Dict) and not st.value.keys):
                clear_in_init = True
    out['lockIsLock'] = lock_ok
    out['cacheCreatedInInit'] = clear_in_init
    if not lock_ok:
        P.append('Registry.__init__ does not create self._lock = threading.Lock()')
    if not clear_in_init:
        P.append('Registry.__init__ does not create the cache')
    ct = ast.parse(rd('config', '__init__.py'))
    fb = [n for n in ast.walk(ct) if isinstance(n, ast.FunctionDef) and n.name == '_clear_view_lookup_cache']
    out['fallbackFreshDict'] = (len(fb) == 1 and fresh_of(fb[0], '_registry') is True)
    if not out['fallbackFreshDict']:
        P.append('the fallback _clear_view_lookup_cache in config/__init__.py has an unexpected body')

    # ---- _find_views ------------------------------------------------------------------------------------
    wt = ast.parse(rd('view.py'))
    fv = _find(wt, ['_find_views'])
    for k in ('singleRead', 'cacheEmpty', 'writeUnderLock', 'probeBeforeScan', 'scanInLoop', 'returnsLocal', 'keyCoversScan'):
        out[k] = None
    out['keyFields'] = ['unknown']
    out['scanInputs'] = ['unknown']
    if fv is None:
        P.append('_find_views not found')
    else:
        par = _parents(fv)
        loads = [n for n in ast.walk(fv) if isinstance(n, ast.Attribute) and n.attr == '_view_lookup_cache' and isinstance(n.ctx, ast.Load)]
        stores = [n for n in ast.walk(fv) if isinstance(n, ast.Attribute) and n.attr == '_view_lookup_cache' and not isinstance(n.ctx, ast.Load)]
        if stores:
            P.append('_find_views assigns registry._view_lookup_cache')
        # the local holding the reference
        local = None
        for n in loads:
            p = par.get(n)
            if isinstance(p, ast.Assign) and p.value is n and len(p.targets) == 1 and isinstance(p.targets[0], ast.Name):
                local = p.targets[0].id
        sub_stores = [n for n in ast.walk(fv) if isinstance(n, ast.Subscript) and isinstance(n.ctx, ast.Store)
                      and ((isinstance(n.value, ast.Name) and n.value.id == local)
                           or (isinstance(n.value, ast.Attribute) and n.value.attr == '_view_lookup_cache'))]
        probes = [n for n in ast.walk(fv) if isinstance(n, ast.Call) and isinstance(n.func, ast.Attribute) and n.func.attr == 'get'
                  and ((isinstance(n.func.value, ast.Name) and n.func.value.id == local)
                       or (isinstance(n.func.value, ast.Attribute) and n.func.value.attr == '_view_lookup_cache'))]
        rebind = [n for n in ast.walk(fv) if isinstance(n, ast.Name) and n.id == local and isinstance(n.ctx, ast.Store)]
        if len(sub_stores) != 1 or len(probes) != 1 or len(probes[0].args) != 1:
            P.append('_find_views: expected exactly one cache probe and one cache write')
        else:
            w, pr = sub_stores[0], probes[0]
            wa = par.get(w)
            out['singleRead'] = (len(loads) == 1 and local is not None and len(rebind) == 1
                                 and isinstance(w.value, ast.Name) and isinstance(pr.func.value, ast.Name))
            def resolve_key(e):
                """a key given as a local name is resolved to its single assignment"""
                if isinstance(e, ast.Name):
                    asg = [n for n in ast.walk(fv) if isinstance(n, ast.Assign) and len(n.targets) == 1
                           and isinstance(n.targets[0], ast.Name) and n.targets[0].id == e.id]
                    if len(asg) == 1:
                        return asg[0].value
                return e
            key_w, key_p = resolve_key(w.slice), resolve_key(pr.args[0])
            if ast.dump(key_w) != ast.dump(key_p):
                P.append('_find_views: probe key and write key differ')
            if isinstance(key_p, ast.Tuple) and all(isinstance(e, ast.Name) for e in key_p.elts):
                out['keyFields'] = [e.id for e in key_p.elts]
            else:
                P.append('_find_views: cache key is not a tuple of names')
            # what is written / probed into
            pa = par.get(pr)
            resvar = pa.targets[0].id if isinstance(pa, ast.Assign) and len(pa.targets) == 1 and isinstance(pa.targets[0], ast.Name) else None
            if not (isinstance(wa, ast.Assign) and isinstance(wa.value, ast.Name) and wa.value.id == resvar and resvar):
                P.append('_find_views: the value written is not the result variable')
            # enclosing statements of the write
            chain, n = [], wa
            while n is not None and n is not fv:
                n = par.get(n)
                chain.append(n)
            out['writeUnderLock'] = any(isinstance(c, ast.With) and any(isinstance(i.context_expr, ast.Attribute) and i.context_expr.attr == '_lock'
                                                                         for i in c.items) for c in chain)
            guarded = [c for c in chain if isinstance(c, ast.If) and isinstance(c.test, ast.Name) and c.test.id == resvar]
            out['cacheEmpty'] = not guarded
            # the scan: a for loop calling `registered`-ish inside, after the probe, before the write; the miss test
            loops = [n for n in ast.walk(fv) if isinstance(n, ast.For)]
            regname = None
            for st in fv.body:
                if (isinstance(st, ast.Assign) and isinstance(st.value, ast.Attribute) and st.value.attr == 'registered'
                        and isinstance(st.targets[0], ast.Name)):
                    regname = st.targets[0].id
            calls = [n for n in ast.walk(fv) if isinstance(n, ast.Call) and isinstance(n.func, ast.Name) and n.func.id == regname]
            in_loop = bool(calls) and all(any(isinstance(a, ast.For) for a in _anc(par, c, fv)) for c in calls)
            out['scanInLoop'] = in_loop and bool(loops)
            # inputs of the scan: names read in the outermost scan loop, minus names bound inside it and the
            # result variable; a local computed before the loop is replaced by the names it was computed from;
            # module-level names (itertools, interfaces) are constants
            params = {a.arg for a in fv.args.args + fv.args.kwonlyargs}
            outer = [l for l in loops if not any(isinstance(a, ast.For) for a in _anc(par, l, fv))]
            inputs = set()
            if len(outer) == 1:
                lp = outer[0]
                bound = {n.id for n in ast.walk(lp) if isinstance(n, ast.Name) and isinstance(n.ctx, ast.Store)}
                reads = {n.id for n in ast.walk(lp) if isinstance(n, ast.Name) and isinstance(n.ctx, ast.Load)} - bound - {resvar}
                local_defs = {}
                for st in ast.walk(fv):
                    if (isinstance(st, ast.Assign) and len(st.targets) == 1 and isinstance(st.targets[0], ast.Name)
                            and not any(a is lp for a in _anc(par, st, fv))):
                        local_defs.setdefault(st.targets[0].id, []).append(st.value)
                todo, seen = list(reads), set()
                while todo:
                    nm = todo.pop()
                    if nm in seen:
                        continue
                    seen.add(nm)
                    if nm in params:
                        inputs.add(nm)
                    elif nm in local_defs:
                        for v in local_defs[nm]:
                            todo += [x.id for x in ast.walk(v) if isinstance(x, ast.Name)]
                    # else: module-level constant
                out['scanInputs'] = sorted(inputs)
                out['keyCoversScan'] = inputs <= set(out['keyFields']) | {'registry'}
            else:
                P.append('_find_views: expected one outermost scan loop')
            out['probeBeforeScan'] = bool(loops) and pr.lineno < min(l.lineno for l in loops) and all(l.lineno < w.lineno for l in loops)
            miss_if = [c for c in chain if isinstance(c, ast.If) and ast.unparse(c.test) == '%s is None' % resvar]
            if not miss_if:
                P.append('_find_views: the scan/write is not under `if <result> is None`')
            last = fv.body[-1]
            out['returnsLocal'] = isinstance(last, ast.Return) and isinstance(last.value, ast.Name) and last.value.id == resvar
            for k in ('writeUnderLock', 'probeBeforeScan', 'scanInLoop', 'returnsLocal'):
                if not out[k]:
                    P.append('_find_views: %s does not hold' % k)
    # the default view types scanned for a triad: IMultiView last (so the single view is read before the multiview)
    out['multiViewScannedLast'] = None
    if fv is not None:
        dv = [n for n in ast.walk(fv) if isinstance(n, ast.Assign) and len(n.targets) == 1 and isinstance(n.targets[0], ast.Name)
              and n.targets[0].id == 'view_types' and isinstance(n.value, ast.Tuple)]
        if len(dv) == 1 and all(isinstance(e, ast.Name) for e in dv[0].value.elts) and dv[0].value.elts:
            names = [e.id for e in dv[0].value.elts]
            out['multiViewScannedLast'] = names[-1] == 'IMultiView' and names.count('IMultiView') == 1
        else:
            P.append('_find_views: default view_types is not a tuple of names')
    out.setdefault('multiviewFirst', None)
    for k in ('clears', 'swapLast', 'freshDict', 'singleRead', 'cacheEmpty', 'multiviewFirst', 'multiViewScannedLast'):
        if out[k] is None:
            P.append('%s could not be determined' % k)
    out['recognised'] = not P
    summary.clear()
    summary.update({k: out[k] for k in ('recognised', 'clears', 'swapLast', 'freshDict', 'singleRead', 'cacheEmpty', 'writeUnderLock', 'keyFields', 'scanInputs', 'keyCoversScan', 'multiviewFirst', 'multiViewScannedLast', 'problems')})
    return out


def _anc(par, n, stop):
    while n is not None and n is not stop:
        n = par.get(n)
        if n is not None:
            yield n


def _b(v, default):
    return 'true' if (default if v is None else v) else 'false'


def _lstr(s):
    return '"' + str(s).replace('\\', '\\\\').replace('"', '\\"') + '"'


def generate(src_root):
    f = facts(src_root)
    # an undetermined fact is emitted as the BAD value and recognised := false, so nothing can be proved from it
    L = ['/-! GENERATED by extract/c15.py from src/pyramid/view.py, registry.py, config/views.py, config/__init__.py — do not edit. -/',
         'namespace Pyr.Gen.C15', '',
         '/-- every construct had the expected shape -/',
         'def recognised : Bool := ' + _b(f['recognised'], False),
         'def problems : List String := [' + ', '.join(_lstr(p) for p in f['problems']) + ']', '',
         '/-- `add_view.register` calls `self.registry._clear_view_lookup_cache()` unconditionally -/',
         'def clears : Bool := ' + _b(f['clears'], False),
         '/-- … as its last statement, after every `register_view(...)` call, no `return` before it -/',
         'def swapLast : Bool := ' + _b(f['swapLast'], False),
         'def registerViewCalls : Nat := %d' % f['registerViewCalls'],
         '/-- `register_view`, multiview branch: `registerAdapter(…IMultiView…)` precedes the unregister loop -/',
         'def multiviewFirst : Bool := ' + _b(f['multiviewFirst'], False),
         '/-- the default `view_types` of `_find_views` end with `IMultiView` -/',
         'def multiViewScannedLast : Bool := ' + _b(f['multiViewScannedLast'], False),
         '/-- `Registry._clear_view_lookup_cache` is `self._view_lookup_cache = {}` (a new dict object) -/',
         'def freshDict : Bool := ' + _b(f['freshDict'], False),
         'def fallbackFreshDict : Bool := ' + _b(f['fallbackFreshDict'], False),
         'def lockIsLock : Bool := ' + _b(f['lockIsLock'], False),
         '/-- `_find_views` reads `registry._view_lookup_cache` once and probes and writes through that local, same key -/',
         'def singleRead : Bool := ' + _b(f['singleRead'], False),
         '/-- the write is NOT under `if views:` -/',
         'def cacheEmpty : Bool := ' + _b(f['cacheEmpty'], True),
         '/-- the write is under `with registry._lock:` -/',
         'def writeUnderLock : Bool := ' + _b(f['writeUnderLock'], False),
         'def probeBeforeScan : Bool := ' + _b(f['probeBeforeScan'], False),
         'def scanInLoop : Bool := ' + _b(f['scanInLoop'], False),
         'def returnsLocal : Bool := ' + _b(f['returnsLocal'], False),
         '/-- the names making up the cache key tuple -/',
         'def keyFields : List String := [' + ', '.join(_lstr(x) for x in f['keyFields']) + ']',
         '/-- the parameters of `_find_views` the scan loop depends on -/',
         'def scanInputs : List String := [' + ', '.join(_lstr(x) for x in f['scanInputs']) + ']',
         '/-- every scan input is a field of the cache key (or `registry`): the key determines the scan -/',
         'def keyCoversScan : Bool := ' + _b(f['keyCoversScan'], False),
         '', 'end Pyr.Gen.C15', '']
    return {'PyramidModel/Gen/C15.lean': '\n'.join(L)}


if __name__ == '__main__':
    import sys, json
    root = sys.argv[1] if len(sys.argv) > 1 else '/repo/src'
    print(json.dumps(facts(root), indent=1))
    print(generate(root)['PyramidModel/Gen/C15.lean'])
