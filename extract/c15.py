"""Translator for C15: regenerates, from the tree under test, the facts about the view lookup cache protocol that
the theorems of Props/C15.lean rest on (`Pyr.Cache.Proto` and friends).

Robustness round: every fact that can be OBSERVED is now extracted by RUNNING the code of the tree under test
(imported from `src_root`, which must be where `pyramid` comes from — otherwise nothing is recognised) on a finite
probe domain, not by matching one source shape; it therefore survives behaviour-preserving refactorings (helpers,
guard clauses, explicit loops instead of itertools.product, renamed locals) and changes under any edit that
changes the behaviour probed.  Fail closed: any exception or unexpected observation sets `recognised := false`
and emits the BAD value of the fact, so the `decide`d obligations of Props/C15.lean fail.

PROBED (what is run, over which domain):
 * `pyramid.view._find_views` against a recording fake registry (`.adapters.registered`, `._view_lookup_cache` as a
   property that counts reads and hands out a NEW recording dict per read, `._lock` as a recording context manager)
   and fake interfaces with `__sro__` of lengths 2 x 3, default and explicit view types, classifier default/explicit:
     singleRead       one read of `registry._view_lookup_cache` per call (hit, miss, warm), and the probe (`get`) and
                      the write (`__setitem__`) go to THAT dict with the same key
     cacheEmpty       a lookup that finds nothing performs no dict write
     writeUnderLock   the dict write happens while `registry._lock` is held (and the lock is released afterwards)
     probeBeforeScan  event order: cache get, then the adapter lookups, then the write; a warm hit does no adapter lookup
     scanInLoop       the adapter lookups are exactly the product request-SRO x context-SRO x view types, in that
                      nesting order, each `registered((classifier, req, ctx), type, name=name)` — read live, one by one
     returnsLocal     the list returned is the object written (miss) / the object cached (hit)
     multiViewScannedLast   with the default view types the last type asked for each pair is IMultiView
     scanReadsCurrentSRO    a resolution order that changes in place between two lookups of the same interface objects (as
                      `classImplements` / `alsoProvides` do to a specification) is followed by the next lookup that scans:
                      after a miss, and after the cache was emptied (no memo of the scan order keyed on the objects)
     keyTracksSRO           … and a WARM entry cached before the change does not answer afterwards: the cache key follows the
                      resolution orders, not the identity of the specification objects (fix c18a9ea, F-C15c)
     cachedValuesImmutable  over a chain of three request interfaces R1 < R2 < R3 with views of their own, looked up in
                      all 6 orders, twice: no list returned earlier is ever changed by a later lookup of another key, every
                      result equals the cold result, and every cached entry stays what was written (no aliasing of values)
     keyFields / scanInputs / keyCoversScan   for each of the five inputs {view_classifier, view_types, request_iface,
                      context_iface, view_name}: does changing it alone change the adapter lookups (scan input)? does a
                      second lookup differing only in it avoid the first one's cache entry (key field)?
 * `pyramid.registry.Registry` (a real instance): freshDict (`_clear_view_lookup_cache()` installs a NEW, empty, plain
   dict object and leaves the old one untouched), lockIsLock; `Configurator._fix_registry` on a bare zope Components:
   fallbackFreshDict
 * a real `Configurator` with `adapters.register/unregister` and `_clear_view_lookup_cache` recorded, over the
   registration kinds {first view, replacement, conversion to a multiview, addition to a multiview, exception view for
   both classifiers, exception-only view, notfound view}, each committed on its own:
     clears           every kind ends up calling the clear
     swapLast         the LAST recorded event of every kind is the clear (modify before swap)
     clearDropsEverything   after every kind of registration `registry._view_lookup_cache` is a new, EMPTY dict: sentinel
                      entries planted under unrelated keys before the registration are gone (no partial invalidation)
     multiviewFirst   in the conversion `register(IMultiView)` precedes every `unregister(IView/ISecuredView)`
     registerViewCalls   adapter mutations of the first registration
 * a real application whose slot (no context, name '') holds a MultiView with `accept=` members, asked with the SAME
   Accept header string before and after a registration that adds a member without accept / adds one with accept /
   replaces a member (same phash), GET and POST, headers {application/json, text/html+json;q, text/plain}: every answer
   equals the answer of a freshly built application with the same registrations; and 20 vs 120 distinct unmatched
   Accept headers leave the container census of the MultiView unchanged:
     multiviewStateless   what a multiview answers is a function of (registrations in force, request)
STILL AST (cannot be observed by a finite probe, kept as a cross-check of singleRead): the number of textual loads of
`._view_lookup_cache` in `_find_views` and in the module-level helpers it calls (followed two levels deep) is 1 and
there is no store — accepts renamed locals, helpers, guard clauses, any loop form.
"""
import ast, os, sys, threading

summary = {}

INPUTS = ['view_classifier', 'view_types', 'request_iface', 'context_iface', 'view_name']


class _Iface:
    def __init__(self, name, bases=()):
        self.name = name
        self.__sro__ = (self,) + tuple(bases)

    def __repr__(self):
        return 'I<%s>' % self.name


class _RecDict(dict):
    def __init__(self, log, tag, init=None):
        dict.__init__(self, init or {})
        self.log, self.tag = log, tag

    def get(self, k, d=None):
        self.log.append(('get', self.tag, k))
        return dict.get(self, k, d)

    def __getitem__(self, k):
        self.log.append(('get', self.tag, k))
        return dict.__getitem__(self, k)

    def __contains__(self, k):
        self.log.append(('get', self.tag, k))
        return dict.__contains__(self, k)

    def __setitem__(self, k, v):
        self.log.append(('set', self.tag, k, v))
        dict.__setitem__(self, k, v)

    def setdefault(self, k, d=None):
        self.log.append(('get', self.tag, k))
        if not dict.__contains__(self, k):
            self.log.append(('set', self.tag, k, d))
        return dict.setdefault(self, k, d)


class _RecLock:
    def __init__(self, log):
        self.log, self.held = log, 0

    def acquire(self, *a, **k):
        self.held += 1
        self.log.append(('lock',))
        return True

    def release(self):
        self.held -= 1
        self.log.append(('unlock',))

    def __enter__(self):
        self.acquire()
        return self

    def __exit__(self, *a):
        self.release()
        return False


class _Adapters:
    def __init__(self, log, table):
        self.log, self.table = log, table

    def registered(self, required, provided, name=''):
        self.log.append(('reg', tuple(required), provided, name))
        return self.table.get((tuple(required), provided, name))


class _FakeRegistry:
    """what `_find_views` touches.  Every read of `_view_lookup_cache` is counted and returns a NEW recording dict
    object (tagged by its number within the call): the first one of a call carries what the first one of the previous
    call ended with, so a warm call hits; a second read within a call is visible as tag 1"""

    def __init__(self, table):
        self.log = []
        self.adapters = _Adapters(self.log, table)
        self._lock = _RecLock(self.log)
        self.reads = 0
        self.in_call = []
        self.persist = {}

    @property
    def _view_lookup_cache(self):
        self.reads += 1
        d = _RecDict(self.log, len(self.in_call), self.persist if not self.in_call else None)
        self.in_call.append(d)
        return d

    def begin(self):
        del self.log[:]
        self.reads = 0
        self.in_call = []

    def end(self):
        if self.in_call:
            self.persist = dict(self.in_call[0])


def _probe_find_views(out, P):
    import pyramid.view as pv
    from pyramid.interfaces import IView, ISecuredView, IMultiView, IViewClassifier, IExceptionViewClassifier
    fv = pv._find_views
    R1 = _Iface('R1')
    R2 = _Iface('R2', (R1,))
    C1 = _Iface('C1')
    C2 = _Iface('C2', (C1,))
    C3 = _Iface('C3', (C2, C1))
    X1 = _Iface('X1')                    # alternative request / context interfaces for the key probe
    Y1 = _Iface('Y1')
    default_types = (IView, ISecuredView, IMultiView)
    alt_types = (IView, IMultiView)

    def table_for(cl, name, marks):
        return {((cl, r, c), t, name): 'v:%s' % m for (r, c, t, m) in marks}

    base = dict(view_classifier=IViewClassifier, view_types=default_types, request_iface=R2, context_iface=C3, view_name='n')

    def call(reg, args, explicit=True):
        reg.begin()
        kw = {}
        if explicit:
            kw = dict(view_types=args['view_types'], view_classifier=args['view_classifier'])
        try:
            return fv(reg, args['request_iface'], args['context_iface'], args['view_name'], **kw)
        finally:
            reg.end()

    def expected_scan(args):
        return [('reg', (args['view_classifier'], r, c), t, args['view_name'])
                for r in args['request_iface'].__sro__ for c in args['context_iface'].__sro__ for t in args['view_types']]

    ok = dict(singleRead=True, cacheEmpty=False, writeUnderLock=True, probeBeforeScan=True, scanInLoop=True,
              returnsLocal=True, multiViewScannedLast=True, cachedValuesImmutable=True, scanReadsCurrentSRO=True, keyTracksSRO=True)

    # ---- a hitting lookup (cold), explicit and default arguments, then warm --------------------------------
    for explicit in (True, False):
        table = {((IViewClassifier, R1, C2), IView, 'n'): 'v:a', ((IViewClassifier, R2, C1), IMultiView, 'n'): 'v:b',
                 ((IViewClassifier, R1, C1), ISecuredView, 'n'): 'v:c'}
        reg = _FakeRegistry(table)
        res = call(reg, base, explicit)
        log = list(reg.log)
        scans = [e for e in log if e[0] == 'reg']
        gets = [e for e in log if e[0] == 'get']
        sets = [e for e in log if e[0] == 'set']
        if scans != expected_scan(base):
            ok['scanInLoop'] = False
        if not explicit and (not scans or len(scans) % 3 or any(scans[i + 2][2] is not IMultiView for i in range(0, len(scans), 3))
                             or any(e[2] is IMultiView for i, e in enumerate(scans) if i % 3 != 2)):
            ok['multiViewScannedLast'] = False
        if res != ['v:b', 'v:a', 'v:c']:
            ok['scanInLoop'] = False
        if reg.reads != 1 or len(gets) != 1 or len(sets) != 1 or gets[0][1] != 0 or sets[0][1] != 0 or gets[0][2] != sets[0][2]:
            ok['singleRead'] = False
        if sets:
            i_set = log.index(sets[0])
            if not (log[:i_set].count(('lock',)) - log[:i_set].count(('unlock',)) == 1 and reg._lock.held == 0):
                ok['writeUnderLock'] = False
            if not (gets and log.index(gets[0]) < log.index(scans[0]) and log.index(scans[-1]) < i_set):
                ok['probeBeforeScan'] = False
            if sets[0][3] is not res:
                ok['returnsLocal'] = False
        else:
            ok['writeUnderLock'] = ok['probeBeforeScan'] = ok['returnsLocal'] = False
        # warm: the same call again is answered from the cache
        res2 = call(reg, base, explicit)
        log2 = list(reg.log)
        if [e for e in log2 if e[0] == 'reg'] or [e for e in log2 if e[0] == 'set']:
            ok['probeBeforeScan'] = False
        if reg.reads != 1 or len([e for e in log2 if e[0] == 'get']) != 1:
            ok['singleRead'] = False
        if res2 != res or res2 is not reg.persist.get(sets[0][2] if sets else None):
            ok['returnsLocal'] = False

    # ---- a missing lookup writes nothing ----------------------------------------------------------------------
    reg = _FakeRegistry({})
    res = call(reg, base)
    if [e for e in reg.log if e[0] == 'set'] or reg.persist:
        ok['cacheEmpty'] = True
    if reg.reads != 1:
        ok['singleRead'] = False
    if res != [] or [e for e in reg.log if e[0] == 'reg'] != expected_scan(base):
        ok['scanInLoop'] = False
    res = call(reg, base)                               # and again: still a full scan, still nothing written
    if [e for e in reg.log if e[0] == 'set'] or reg.persist:
        ok['cacheEmpty'] = True
    if [e for e in reg.log if e[0] == 'reg'] != expected_scan(base):
        ok['scanInLoop'] = False

    # ---- the scan AND the cache key follow the CURRENT resolution orders of the interface objects -------------
    follows, tracks = True, True
    for variant in ('miss', 'hit-then-clear', 'hit-warm'):
        Cm = _Iface('Cm', (C1,))
        Rm = _Iface('Rm', (R1,))
        Inew, Rnew = _Iface('Inew'), _Iface('Rnew')
        tableS = {((IViewClassifier, R1, Inew), IView, 'n'): 'v:new', ((IViewClassifier, Rnew, C1), IView, 'n'): 'v:rnew'}
        if variant != 'miss':
            tableS[((IViewClassifier, R1, C1), IView, 'n')] = 'v:old'
        reg = _FakeRegistry(tableS)
        argsS = dict(base, request_iface=Rm, context_iface=Cm)
        call(reg, argsS)                                            # a miss, or a hit that gets cached
        Cm.__sro__ = (Cm, Inew, C1)                                 # the context now provides Inew …
        Rm.__sro__ = (Rm, Rnew, R1)                                 # … and the request interface extends Rnew
        if variant == 'hit-then-clear':
            reg.persist = {}                                        # as after a clearing registration
        res = call(reg, argsS)
        good = res == call(_FakeRegistry(tableS), argsS)
        if variant == 'hit-warm':
            if not good:
                tracks = False                                      # the entry cached for the old orders answered
        elif not good or [e for e in reg.log if e[0] == 'reg'] != expected_scan(argsS):
            follows = False
    ok['scanReadsCurrentSRO'] = follows
    ok['keyTracksSRO'] = tracks

    # ---- cached values are never mutated by lookups of other keys (no aliasing) -------------------------------
    import itertools as _it
    R3 = _Iface('R3', (R2, R1))
    tableI = {((IViewClassifier, R1, C1), IView, 'n'): 'v:1', ((IViewClassifier, R2, C2), IView, 'n'): 'v:2',
              ((IViewClassifier, R3, C1), IMultiView, 'n'): 'v:3'}
    immut = True
    for order in _it.permutations((R1, R2, R3)):
        reg = _FakeRegistry(tableI)
        returned = []
        for rq in order + order:
            args = dict(base, request_iface=rq)
            cold = call(_FakeRegistry(tableI), args)
            res = call(reg, args)
            if res != cold:
                immut = False
            returned.append((res, list(res)))
            if any(list(obj) != snap for obj, snap in returned):
                immut = False
            for k, v in reg.persist.items():
                if not any(v is obj for obj, _ in returned):
                    immut = False
    ok['cachedValuesImmutable'] = immut

    # ---- which inputs does the scan depend on, which does the key distinguish ---------------------------------
    alts = dict(view_classifier=IExceptionViewClassifier, view_types=alt_types, request_iface=X1, context_iface=Y1, view_name='m')
    scan_inputs, key_fields = [], []
    for inp in INPUTS:
        other = dict(base)
        other[inp] = alts[inp]
        # registrations that make the two lookups differ whatever the input is: one only the first lookup scans
        # (an ISecuredView slot of its own triad), one the second lookup scans first
        table = {((base['view_classifier'], R2, C3), ISecuredView, 'n'): 'v:one',
                 ((other['view_classifier'], other['request_iface'], other['context_iface']), IView, other['view_name']): 'v:two'}
        reg = _FakeRegistry(table)
        cold_other = call(_FakeRegistry(table), other)
        first = call(reg, base)
        scan_first = [e for e in reg.log if e[0] == 'reg']
        second = call(reg, other)
        scan_second = [e for e in reg.log if e[0] == 'reg']
        if scan_second == [] and second == first:
            depends = expected_scan(base) != expected_scan(other)        # answered from the first one's entry
            distinguished = False
        else:
            depends = scan_first != scan_second
            distinguished = second == cold_other and second != first
        if depends:
            scan_inputs.append(inp)
        if distinguished:
            key_fields.append(inp)
    out.update(ok)
    out['scanInputs'] = sorted(scan_inputs + ['registry'])
    out['keyFields'] = key_fields
    out['keyCoversScan'] = bool(scan_inputs) and set(scan_inputs) <= set(key_fields)
    if sorted(scan_inputs) != sorted(INPUTS):
        P.append('the scan does not depend on all five inputs: %r' % (scan_inputs,))


def _probe_registry(out, P):
    from pyramid.registry import Registry
    r = Registry('c15probe')
    d0 = r._view_lookup_cache
    d0['k'] = ['v']
    r._clear_view_lookup_cache()
    d1 = r._view_lookup_cache
    out['freshDict'] = (d1 is not d0 and type(d1) is dict and d1 == {} and d0 == {'k': ['v']})
    r._clear_view_lookup_cache()
    if r._view_lookup_cache is d1 or r._view_lookup_cache is d0:
        out['freshDict'] = False
    out['lockIsLock'] = type(r._lock) is type(threading.Lock())
    # the fallback for registries that are not pyramid Registries
    from zope.interface.registry import Components
    from pyramid.config import Configurator
    comp = Components('c15probe')
    cfg = Configurator(registry=comp, autocommit=True)
    cfg.setup_registry()
    ok = hasattr(comp, '_clear_view_lookup_cache') and hasattr(comp, '_lock')
    if ok:
        comp._clear_view_lookup_cache()
        e0 = comp._view_lookup_cache
        e0['k'] = 1
        comp._clear_view_lookup_cache()
        ok = comp._view_lookup_cache is not e0 and comp._view_lookup_cache == {} and e0 == {'k': 1}
    out['fallbackFreshDict'] = bool(ok)


def _probe_registrations(out, P):
    from pyramid.config import Configurator
    from pyramid.interfaces import IView, ISecuredView, IMultiView
    config = Configurator()
    config.commit()
    reg = config.registry
    events = []
    ad = reg.adapters
    o_reg, o_unreg, o_clear = ad.register, ad.unregister, reg._clear_view_lookup_cache

    # recorders forward their arguments untouched (the methods may grow parameters)
    def w_reg(required, provided, name, value, *a, **kw):
        events.append(('unregister' if value is None else 'register', provided))
        return o_reg(required, provided, name, value, *a, **kw)

    def w_unreg(required, provided, *a, **kw):
        events.append(('unregister', provided))
        return o_unreg(required, provided, *a, **kw)

    def w_clear(*a, **kw):
        events.append(('clear', None))
        return o_clear(*a, **kw)

    ad.register, ad.unregister, reg._clear_view_lookup_cache = w_reg, w_unreg, w_clear

    def view(n):
        def v(context, request):
            return n
        return v

    class E1(Exception):
        pass

    class E2(Exception):
        pass

    kinds = [('first', lambda: config.add_view(view(1), name='p')),
             ('replacement', lambda: config.add_view(view(2), name='p')),
             ('conversion', lambda: config.add_view(view(3), name='p', request_param='a')),
             ('addition', lambda: config.add_view(view(4), name='p', request_param='b')),
             ('exception-both', lambda: config.add_view(view(5), context=E1)),
             ('exception-only', lambda: config.add_exception_view(view(6), context=E2)),
             ('notfound', lambda: config.add_notfound_view(view(7)))]
    clears, last, first_mutations, mvfirst, drops = True, True, 0, None, True
    for kind, do in kinds:
        del events[:]
        before = reg._view_lookup_cache
        sentinels = [('sentinel', kind), (object(), object(), 'other-name'), (None, None, '')]
        for s in sentinels:
            before[s] = ['stale']
        do()
        config.commit()
        after = reg._view_lookup_cache
        if after is before or len(after) != 0 or any(s in after for s in sentinels):
            drops = False                                   # the registration left (part of) the old cache in force
        ev = list(events)
        muts = [e for e in ev if e[0] != 'clear']
        if not muts:
            P.append('registration kind %s performs no adapter mutation' % kind)
        if not any(e[0] == 'clear' for e in ev):
            clears = False
        if not ev or ev[-1][0] != 'clear':
            last = False
        if kind == 'first':
            first_mutations = len(muts)
        if kind == 'conversion':
            regs = [i for i, e in enumerate(ev) if e == ('register', IMultiView)]
            unregs = [i for i, e in enumerate(ev) if e[0] == 'unregister' and e[1] in (IView, ISecuredView)]
            if len(regs) != 1 or not unregs:
                P.append('the conversion to a multiview does not register one IMultiView and unregister the single view')
            else:
                mvfirst = regs[0] < min(unregs)
    out['clears'], out['swapLast'] = clears, clears and last
    out['clearDropsEverything'] = drops
    out['registerViewCalls'] = first_mutations
    out['multiviewFirst'] = mvfirst


def _probe_multiview(out, P):
    from pyramid.config import Configurator
    from pyramid.request import Request
    from pyramid.response import Response
    from pyramid.interfaces import IMultiView

    def view(tag):
        def v(request):
            return Response(tag)
        return v

    def build(regs):
        config = Configurator()
        for r in regs:
            kw = dict(r)
            config.add_view(view(kw.pop('tag')), name='', **kw)
            config.commit()
        return config, config.make_wsgi_app()

    def ask(app, method, accept):
        req = Request.blank('/', headers=({'Accept': accept} if accept else {}))
        req.method = method
        resp = req.get_response(app)
        return (resp.status_int, resp.text if resp.status_int == 200 else '')

    base = [dict(tag='html', accept='text/html', request_method='GET'), dict(tag='json', accept='application/json', request_method='GET')]
    later = [dict(tag='post', request_method='POST'), dict(tag='txt', accept='text/plain'),
             dict(tag='json2', accept='application/json', request_method='GET'), dict(tag='any')]
    headers = ['application/json', 'text/html, application/json;q=0.5', 'text/plain', None]
    ok = True
    for extra in later:
        for h in headers:
            for m1 in ('GET', 'POST'):
                config, app = build(base)
                ask(app, m1, h)                                    # history: the same header string was seen before
                kw = dict(extra)
                config.add_view(view(kw.pop('tag')), name='', **kw)
                config.commit()
                for m2 in ('GET', 'POST'):
                    if ask(app, m2, h) != ask(build(base + [extra])[1], m2, h):
                        ok = False
    # unmatched headers must not accumulate in the multiview
    config, app = build(base)
    mvs = [a.factory for a in config.registry.registeredAdapters() if a.provided is IMultiView]
    if len(mvs) != 1:
        P.append('the multiview probe application has no single MultiView')
        ok = False
    else:
        def size(o, seen, d=0):
            if id(o) in seen or d > 6:
                return 0
            seen.add(id(o))
            if isinstance(o, dict):
                return len(o) + sum(size(v, seen, d + 1) for v in o.values())
            if isinstance(o, (list, tuple, set, frozenset)):
                return len(o) + sum(size(v, seen, d + 1) for v in o)
            return 0
        for n in range(120):
            ask(app, 'GET', 'application/x-odd%d' % n)
            if n == 19:
                c20 = size(vars(mvs[0]), set())
        if size(vars(mvs[0]), set()) != c20:
            ok = False
    out['multiviewStateless'] = ok


def _ast_cache_loads(src_root, P):
    """textual loads / stores of `._view_lookup_cache` in `_find_views` and the module-level helpers it calls"""
    tree = ast.parse(open(os.path.join(src_root, 'pyramid', 'view.py')).read())
    funcs = {n.name: n for n in tree.body if isinstance(n, ast.FunctionDef)}
    if '_find_views' not in funcs:
        P.append('_find_views not found')
        return None
    seen, todo = set(), [('_find_views', 0)]
    loads = stores = 0
    while todo:
        name, depth = todo.pop()
        if name in seen:
            continue
        seen.add(name)
        for n in ast.walk(funcs[name]):
            if isinstance(n, ast.Attribute) and n.attr == '_view_lookup_cache':
                if isinstance(n.ctx, ast.Load):
                    loads += 1
                else:
                    stores += 1
            if isinstance(n, ast.Call) and isinstance(n.func, ast.Name) and n.func.id in funcs and depth < 2:
                todo.append((n.func.id, depth + 1))
    return loads == 1 and stores == 0


def facts(src_root):
    out = {'problems': []}
    P = out['problems']
    src_root = os.path.realpath(src_root)
    if src_root not in [os.path.realpath(p) for p in sys.path[:3]]:
        sys.path.insert(0, src_root)
    defaults = dict(clears=None, swapLast=None, freshDict=None, singleRead=None, cacheEmpty=None, writeUnderLock=None,
                    probeBeforeScan=None, scanInLoop=None, returnsLocal=None, keyCoversScan=None, multiviewFirst=None,
                    multiViewScannedLast=None, cachedValuesImmutable=None, scanReadsCurrentSRO=None, keyTracksSRO=None, multiviewStateless=None, clearDropsEverything=None, fallbackFreshDict=None, lockIsLock=None, registerViewCalls=0,
                    keyFields=['unknown'], scanInputs=['unknown'])
    out.update(defaults)
    try:
        import pyramid
        if not os.path.realpath(pyramid.__file__).startswith(src_root + os.sep):
            P.append('pyramid is imported from %s, not from the tree under test' % os.path.dirname(pyramid.__file__))
        else:
            for probe in (_probe_find_views, _probe_registry, _probe_registrations, _probe_multiview):
                try:
                    probe(out, P)
                except Exception as e:                      # fail closed
                    P.append('%s failed: %s: %s' % (probe.__name__, type(e).__name__, str(e)[:120]))
    except Exception as e:
        P.append('cannot import the tree under test: %s' % e)
    try:
        a = _ast_cache_loads(src_root, P)
        out['astSingleLoad'] = a
        if a is not True:
            out['singleRead'] = False if out['singleRead'] is not None else None
    except Exception as e:
        P.append('ast cross-check failed: %s' % e)
        out['astSingleLoad'] = None
    for k in ('clears', 'swapLast', 'freshDict', 'singleRead', 'cacheEmpty', 'writeUnderLock', 'probeBeforeScan', 'scanInLoop',
              'returnsLocal', 'keyCoversScan', 'multiviewFirst', 'multiViewScannedLast', 'cachedValuesImmutable', 'scanReadsCurrentSRO', 'keyTracksSRO', 'multiviewStateless', 'clearDropsEverything', 'fallbackFreshDict', 'lockIsLock'):
        if out[k] is None:
            P.append('%s could not be determined' % k)
    out['recognised'] = not P
    summary.clear()
    summary.update({k: out[k] for k in ('recognised', 'clears', 'swapLast', 'freshDict', 'singleRead', 'cacheEmpty', 'writeUnderLock',
                                        'keyFields', 'scanInputs', 'keyCoversScan', 'multiviewFirst', 'multiViewScannedLast', 'cachedValuesImmutable', 'scanReadsCurrentSRO', 'keyTracksSRO', 'multiviewStateless', 'clearDropsEverything', 'problems')})
    return out


def _b(v, default):
    return 'true' if (default if v is None else v) else 'false'


def _lstr(s):
    return '"' + str(s).replace('\\', '\\\\').replace('"', '\\"') + '"'


def generate(src_root):
    f = facts(src_root)
    # an undetermined fact is emitted as the BAD value and recognised := false, so nothing can be proved from it
    L = ['/-! GENERATED by extract/c15.py by probing pyramid.view._find_views, pyramid.registry.Registry and a Configurator of the tree under test — do not edit. -/',
         'namespace Pyr.Gen.C15', '',
         '/-- every probe ran and every fact was determined -/',
         'def recognised : Bool := ' + _b(f['recognised'], False),
         'def problems : List String := [' + ', '.join(_lstr(p) for p in f['problems']) + ']', '',
         '/-- every kind of view registration calls `_clear_view_lookup_cache()` -/',
         'def clears : Bool := ' + _b(f['clears'], False),
         '/-- … as the last thing it does, after every adapter mutation -/',
         'def swapLast : Bool := ' + _b(f['swapLast'], False),
         '/-- after every kind of registration the cache is a new EMPTY dict (no partial invalidation) -/',
         'def clearDropsEverything : Bool := ' + _b(f['clearDropsEverything'], False),
         '/-- adapter mutations of a first registration -/',
         'def registerViewCalls : Nat := %d' % f['registerViewCalls'],
         '/-- converting a single view into a multiview registers IMultiView before it unregisters IView/ISecuredView -/',
         'def multiviewFirst : Bool := ' + _b(f['multiviewFirst'], False),
         '/-- with the default view types `IMultiView` is asked last for every (request type, context type) -/',
         'def multiViewScannedLast : Bool := ' + _b(f['multiViewScannedLast'], False),
         '/-- `Registry._clear_view_lookup_cache` installs a NEW empty dict object and leaves the old one alone -/',
         'def freshDict : Bool := ' + _b(f['freshDict'], False),
         'def fallbackFreshDict : Bool := ' + _b(f['fallbackFreshDict'], False),
         'def lockIsLock : Bool := ' + _b(f['lockIsLock'], False),
         '/-- `_find_views` reads `registry._view_lookup_cache` once per call and probes and writes that dict, same key -/',
         'def singleRead : Bool := ' + _b(f['singleRead'], False),
         '/-- a lookup that finds nothing writes to the cache -/',
         'def cacheEmpty : Bool := ' + _b(f['cacheEmpty'], True),
         '/-- the dict write happens with `registry._lock` held -/',
         'def writeUnderLock : Bool := ' + _b(f['writeUnderLock'], False),
         'def probeBeforeScan : Bool := ' + _b(f['probeBeforeScan'], False),
         'def scanInLoop : Bool := ' + _b(f['scanInLoop'], False),
         'def returnsLocal : Bool := ' + _b(f['returnsLocal'], False),
         '/-- a list returned / cached by `_find_views` is never changed by a later lookup of another key -/',
         'def cachedValuesImmutable : Bool := ' + _b(f['cachedValuesImmutable'], False),
         '/-- a lookup that scans uses the resolution orders the interface objects have AT THAT MOMENT -/',
         'def scanReadsCurrentSRO : Bool := ' + _b(f['scanReadsCurrentSRO'], False),
         '/-- the cache key follows the resolution orders: an entry cached before they changed does not answer afterwards -/',
         'def keyTracksSRO : Bool := ' + _b(f['keyTracksSRO'], False),
         '/-- a MultiView answers as a function of (registrations in force, request): same Accept header before/after a member is added/replaced; no growth under odd headers -/',
         'def multiviewStateless : Bool := ' + _b(f['multiviewStateless'], False),
         '/-- the inputs of `_find_views` the cache key distinguishes -/',
         'def keyFields : List String := [' + ', '.join(_lstr(x) for x in f['keyFields']) + ']',
         '/-- the inputs of `_find_views` the adapter lookups depend on -/',
         'def scanInputs : List String := [' + ', '.join(_lstr(x) for x in f['scanInputs']) + ']',
         '/-- every scan input is distinguished by the cache key: the key determines the scan -/',
         'def keyCoversScan : Bool := ' + _b(f['keyCoversScan'], False),
         '', 'end Pyr.Gen.C15', '']
    return {'PyramidModel/Gen/C15.lean': '\n'.join(L)}


if __name__ == '__main__':
    import json
    root = sys.argv[1] if len(sys.argv) > 1 else '/repo/src'
    print(json.dumps(facts(root), indent=1, default=str))
