"""Translator for C06.

What the Lean model depends on — the safe-character set of each of the six quoting sites — is MEASURED on the tree
under test through its public entry points (`Route(name, pattern).generate`, `Request.route_path`), in a subprocess:
for every ASCII byte outside urllib's always-safe set, does it come out unquoted?  Nothing here reads closure
variables or requires a particular shape of `_compile_route`.

The older structural reading (below: the `gen.append` sites, the `generator` closure statement by statement,
`quote_path_segment`, `_join_elements`, the tail of `route_url`) is kept as an OPTIONAL, informational summary in the
evidence (`structure_optional`): a restructured but equivalent source makes those entries `false`/absent and is not an
alarm; no Lean term depends on them.

Structural reading (informational):

 * urldispatch.py  the four `gen.append(...)` sites (both literals through `quote_path_segment(·, safe=…)` and
                   `.replace('%', '%%')`; placeholder and remainder as `'%%(%s)s' % name`), `gen = ''.join(gen)`,
                   `q(v) = quote_path_segment(v, safe=…)`, and the body of the `generator` closure statement by
                   statement (bytes decoded first / remainder branch / plain branch / `gen % newdict`)
 * traversal.py    PATH_SEGMENT_SAFE, PATH_SAFE; the body of `quote_path_segment` (str() of other objects,
                   `_segment_cache[(segment, safe)]` read and written, `url_quote(text_(segment, 'utf-8'), safe)`)
 * url.py          `_join_elements` (uncached wrapper: elements → texts) and `_join_text_elements` (`lru_cache`, its `safe`), `_quoted_script_name` (its `safe`), the tail of `route_url`
                   (`path = route.generate(kw)`, the suffix rule, `app_url + path + suffix + qs + anchor`) and
                   `route_path` (`kw['_app_url'] = self._quoted_script_name()`)

Local names are irrelevant (functions are alpha-renamed before comparison); statement order matters only among the
statements compared.  A site whose shape is not the expected one makes `recognised` (and its own flag) false and its
safe set a poison set containing `% / ? #`; the `decide`d obligations of Props/C06.lean then fail.
"""
import ast, copy, os

summary = {}
POISON = sorted(b'%/?#')


class Unknown(Exception):
    pass


def _strip_doc(body):
    if body and isinstance(body[0], ast.Expr) and isinstance(getattr(body[0], 'value', None), ast.Constant) \
            and isinstance(body[0].value.value, str):
        return body[1:]
    return body


class _Rename(ast.NodeTransformer):
    """alpha-rename every name bound inside the function (arguments, assignment / loop / comprehension targets)"""

    def __init__(self, bound):
        self.map = {}
        self.bound = bound

    def _nm(self, s):
        if s in self.bound:
            if s not in self.map:
                self.map[s] = 'v%d' % len(self.map)
            return self.map[s]
        return s

    def visit_Name(self, n):
        return ast.copy_location(ast.Name(id=self._nm(n.id), ctx=n.ctx), n)

    def visit_arg(self, n):
        return ast.copy_location(ast.arg(arg=self._nm(n.arg), annotation=None), n)


def _bound_names(fn):
    out = set(a.arg for a in fn.args.args + fn.args.kwonlyargs)
    if fn.args.vararg:
        out.add(fn.args.vararg.arg)
    if fn.args.kwarg:
        out.add(fn.args.kwarg.arg)
    for n in ast.walk(fn):
        if isinstance(n, ast.Name) and isinstance(n.ctx, ast.Store):
            out.add(n.id)
    return out


def _norm_fn(fn):
    """list of dumps of the function's statements (docstring dropped), after alpha-renaming"""
    fn = copy.deepcopy(fn)
    r = _Rename(_bound_names(fn))
    args = [r._nm(a.arg) for a in fn.args.args]
    stmts = [ast.dump(r.visit(s)) for s in _strip_doc(list(fn.body))]
    return args, stmts


def _renamed(fn):
    """a renamed deep copy of the function: arguments first, then the statements in order (docstring dropped)"""
    fn = copy.deepcopy(fn)
    r = _Rename(_bound_names(fn))
    for a in fn.args.args:
        r._nm(a.arg)
    fn.body = [r.visit(s) for s in _strip_doc(list(fn.body))]
    return fn


def _norm_src(src):
    fn = ast.parse(src).body[0]
    return _norm_fn(fn)


def _find_func(node, name):
    for n in ast.walk(node):
        if isinstance(n, ast.FunctionDef) and n.name == name:
            return n
    raise Unknown('no function %s' % name)


def _find_method(tree, cls, name):
    for n in tree.body:
        if isinstance(n, ast.ClassDef) and n.name == cls:
            for m in n.body:
                if isinstance(m, ast.FunctionDef) and m.name == name:
                    return m
    raise Unknown('no method %s.%s' % (cls, name))


def _consts(tree):
    env = {}

    def ev(n):
        if isinstance(n, ast.Constant) and isinstance(n.value, str):
            return n.value
        if isinstance(n, ast.Name) and env.get(n.id) is not None:
            return env[n.id]
        if isinstance(n, ast.BinOp) and isinstance(n.op, ast.Add):
            return ev(n.left) + ev(n.right)
        raise Unknown(ast.dump(n))
    for st in tree.body:
        if isinstance(st, ast.Assign) and len(st.targets) == 1 and isinstance(st.targets[0], ast.Name):
            nm = st.targets[0].id
            if nm.isupper() and nm.endswith('SAFE'):
                try:
                    env[nm] = ev(st.value)
                except Unknown:
                    env[nm] = None
    return env, ev


def _safe_of_call(call, ev):
    """`quote_path_segment(x, safe=E)` / `url_quote(x, E)` -> the evaluated E"""
    if not isinstance(call, ast.Call):
        raise Unknown('not a call')
    for k in call.keywords:
        if k.arg == 'safe':
            return ev(k.value)
    if len(call.args) > 1:
        return ev(call.args[1])
    raise Unknown('no safe argument')


def _bytes_of(s):
    b = s.encode('utf-8')
    if any(x >= 128 for x in b):
        raise Unknown('non-ASCII safe set')
    return sorted(set(b))


GENERATOR_SRC = '''
def generator(dict):
    newdict = {}
    for k, v in dict.items():
        if v.__class__ is bytes:
            v = v.decode('utf-8')
        if k == remainder:
            if is_nonstr_iter(v):
                v = '/'.join([q(x) for x in v])
            else:
                if v.__class__ is not str:
                    v = str(v)
                v = q(v)
        else:
            if v.__class__ is not str:
                v = str(v)
            v = q(v)
        newdict[k] = v
    result = gen % newdict
    return result
'''

QUOTE_SEGMENT_SRC = '''
def quote_path_segment(segment, safe=PATH_SEGMENT_SAFE):
    try:
        if segment.__class__ not in (str, bytes):
            segment = str(segment)
        return _segment_cache[(segment, safe)]
    except KeyError:
        result = url_quote(text_(segment, 'utf-8'), safe)
        _segment_cache[(segment, safe)] = result
        return result
'''

ROUTE_URL_TAIL_SRC = '''
def route_url(self, route_name, *elements, **kw):
    path = route.generate(kw)
    if elements:
        suffix = _join_elements(elements)
        if not path.endswith('/'):
            suffix = '/' + suffix
    else:
        suffix = ''
    return app_url + path + suffix + qs + anchor
'''

JOIN_WRAPPER_SRC = '''
def _join_elements(elements):
    return _join_text_elements(
        tuple([s if s.__class__ in (str, bytes) else str(s) for s in elements])
    )
'''

ROUTE_PATH_SRC = '''
def route_path(self, route_name, *elements, **kw):
    kw['_app_url'] = self._quoted_script_name()
    return self.route_url(route_name, *elements, **kw)
'''


def _is_gen_append(st):
    return (isinstance(st, ast.Expr) and isinstance(st.value, ast.Call) and isinstance(st.value.func, ast.Attribute)
            and st.value.func.attr == 'append' and isinstance(st.value.func.value, ast.Name)
            and st.value.func.value.id == 'gen' and len(st.value.args) == 1)


def _ordered_walk(node):
    """statements in source order, not descending into nested function definitions"""
    for st in node.body:
        yield st
        for field in ('body', 'orelse', 'finalbody'):
            sub = getattr(st, field, None)
            if sub and not isinstance(st, ast.FunctionDef):
                holder = ast.Module(body=sub, type_ignores=[])
                yield from _ordered_walk(holder)


def _structure(src_root):
    flags = {k: False for k in ('pctDoubled', 'placeholderTpl', 'formatsTemplate', 'bytesDecoded', 'restPerElement',
                                'plainStringified', 'cacheKeyedBySafe', 'quoteSegmentShape', 'assemblyShape',
                                'elemCacheLru', 'elemKeyIsText')}
    sets = {k: None for k in ('valSafe', 'litSafePrefix', 'litSafeInner', 'elemSafe', 'scriptSafe')}
    notes = []
    try:
        trav = ast.parse(open(os.path.join(src_root, 'pyramid', 'traversal.py')).read())
        disp = ast.parse(open(os.path.join(src_root, 'pyramid', 'urldispatch.py')).read())
        url = ast.parse(open(os.path.join(src_root, 'pyramid', 'url.py')).read())
        env, ev = _consts(trav)
        # url.py defines more constants over the imported ones
        env_u, ev_u = _consts(url)
        for k, v in env.items():
            env_u.setdefault(k, v)

        # ---- _compile_route: the gen.append sites
        cr = _find_func(disp, '_compile_route')
        appends = [st.value.args[0] for st in _ordered_walk(cr) if _is_gen_append(st)]
        lit_sites, tpl_sites = [], []
        for a in appends:
            if isinstance(a, ast.BinOp) and isinstance(a.op, ast.Mod):
                tpl_sites.append(a)
            else:
                lit_sites.append(a)
        if len(lit_sites) == 2 and len(tpl_sites) == 2 and len(appends) == 4:
            doubled = []
            for key, a in zip(('litSafePrefix', 'litSafeInner'), lit_sites):
                inner = a
                d = False
                if (isinstance(a, ast.Call) and isinstance(a.func, ast.Attribute) and a.func.attr == 'replace'
                        and len(a.args) == 2 and all(isinstance(x, ast.Constant) for x in a.args)
                        and a.args[0].value == '%' and a.args[1].value == '%%' and not a.keywords):
                    inner = a.func.value
                    d = True
                doubled.append(d)
                try:
                    if not (isinstance(inner, ast.Call) and getattr(inner.func, 'id', None) == 'quote_path_segment'
                            and len(inner.args) == 1 and isinstance(inner.args[0], ast.Name)):
                        raise Unknown('literal site is not quote_path_segment(name, safe=…)')
                    sets[key] = _bytes_of(_safe_of_call(inner, ev))
                except Unknown as e:
                    notes.append('%s: %s' % (key, e))
            flags['pctDoubled'] = all(doubled)
            flags['placeholderTpl'] = all(
                isinstance(a.left, ast.Constant) and a.left.value == '%%(%s)s' and isinstance(a.right, ast.Name)
                for a in tpl_sites)
            # order: literal, placeholder, literal, remainder
            kinds = ['t' if (isinstance(a, ast.BinOp) and isinstance(a.op, ast.Mod)) else 'l' for a in appends]
            if kinds != ['l', 't', 'l', 't']:
                flags['placeholderTpl'] = False
                notes.append('gen.append sites in unexpected order: %s' % kinds)
        else:
            notes.append('expected 4 gen.append sites, found %d' % len(appends))
        # gen = ''.join(gen)
        joined = any(isinstance(st, ast.Assign) and len(st.targets) == 1 and getattr(st.targets[0], 'id', None) == 'gen'
                     and ast.dump(st.value) == ast.dump(ast.parse("''.join(gen)").body[0].value) for st in cr.body)
        # q(v)
        try:
            q = _find_func(cr, 'q')
            if len(q.args.args) != 1 or len(q.body) != 1 or not isinstance(q.body[0], ast.Return):
                raise Unknown('q has another shape')
            c = q.body[0].value
            if not (isinstance(c, ast.Call) and getattr(c.func, 'id', None) == 'quote_path_segment' and len(c.args) == 1
                    and getattr(c.args[0], 'id', None) == q.args.args[0].arg):
                raise Unknown('q does not call quote_path_segment(v, safe=…)')
            sets['valSafe'] = _bytes_of(_safe_of_call(c, ev))
        except Unknown as e:
            notes.append('q: %s' % e)
        # the generator closure
        try:
            g = _renamed(_find_func(cr, 'generator'))
            w = _renamed(ast.parse(GENERATOR_SRC).body[0])
            d = ast.dump
            if len(g.body) == 4 and d(g.body[0]) == d(w.body[0]) and d(g.body[3]) == d(w.body[3]):
                flags['formatsTemplate'] = joined and d(g.body[2]) == d(w.body[2])
                loop, wloop = g.body[1], w.body[1]
                if (isinstance(loop, ast.For) and d(loop.target) == d(wloop.target) and d(loop.iter) == d(wloop.iter)
                        and len(loop.body) == 3 and not loop.orelse):
                    flags['bytesDecoded'] = d(loop.body[0]) == d(wloop.body[0]) and d(loop.body[2]) == d(wloop.body[2])
                    b1, w1 = loop.body[1], wloop.body[1]
                    if isinstance(b1, ast.If) and d(b1.test) == d(w1.test):
                        flags['restPerElement'] = [d(x) for x in b1.body] == [d(x) for x in w1.body]
                        flags['plainStringified'] = [d(x) for x in b1.orelse] == [d(x) for x in w1.orelse]
                    else:
                        notes.append('generator: the `k == remainder` test differs')
                else:
                    notes.append('generator: loop header or length differs')
            else:
                notes.append('generator: outer statements differ')
        except Unknown as e:
            notes.append('generator: %s' % e)

        # ---- quote_path_segment
        try:
            qp = _find_func(trav, 'quote_path_segment')
            ga, got = _norm_fn(qp)
            wa, want = _norm_src(QUOTE_SEGMENT_SRC)
            dflt = qp.args.defaults
            flags['quoteSegmentShape'] = (got == want and ga == wa and len(dflt) == 1
                                          and getattr(dflt[0], 'id', None) == 'PATH_SEGMENT_SAFE')
            # the cache key, judged on its own
            keys = []
            for n in ast.walk(qp):
                if isinstance(n, ast.Subscript) and getattr(n.value, 'id', None) == '_segment_cache':
                    keys.append(n.slice)
            a0, a1 = qp.args.args[0].arg, qp.args.args[1].arg
            flags['cacheKeyedBySafe'] = len(keys) == 2 and all(
                isinstance(k, ast.Tuple) and [getattr(e, 'id', None) for e in k.elts] == [a0, a1] for k in keys)
        except (Unknown, IndexError) as e:
            notes.append('quote_path_segment: %s' % e)

        # ---- url.py
        try:
            # since 9c714c3: an uncached wrapper that turns the elements into texts, and the cached joiner
            wrapper = _find_func(url, '_join_elements')
            je = copy.deepcopy(_find_func(url, '_join_text_elements'))
            calls = [n for n in ast.walk(je) if isinstance(n, ast.Call) and getattr(n.func, 'id', None) == 'quote_path_segment']
            ret = je.body[-1]
            if len(calls) != 1 or not isinstance(ret, ast.Return) or len(_strip_doc(list(je.body))) != 1:
                raise Unknown('_join_text_elements has another shape')
            c = calls[0]
            probe = ast.parse("'/'.join([quote_path_segment(s, safe=X) for s in elements])").body[0].value
            saved = [k.value for k in c.keywords if k.arg == 'safe']
            if len(saved) != 1:
                raise Unknown('_join_text_elements: no safe= keyword')
            sets['elemSafe'] = _bytes_of(ev_u(saved[0]))
            for k in c.keywords:
                if k.arg == 'safe':
                    k.value = ast.Name(id='X', ctx=ast.Load())
            r = _Rename(_bound_names(je)); rp = _Rename({'s', 'elements'})
            for a in je.args.args:
                r._nm(a.arg)
            rp._nm('elements')
            if len(je.args.args) != 1 or ast.dump(r.visit(ret.value)) != ast.dump(rp.visit(probe)):
                sets['elemSafe'] = None
                raise Unknown('_join_text_elements is not a per-element quote joined with /')
            flags['elemCacheLru'] = (any(isinstance(d, ast.Call) and getattr(d.func, 'id', None) == 'lru_cache'
                                         for d in je.decorator_list) and not wrapper.decorator_list)
            wa, ws = _norm_fn(wrapper)
            ka, ks = _norm_src(JOIN_WRAPPER_SRC)
            flags['elemKeyIsText'] = wa == ka and ws == ks
            if not flags['elemKeyIsText']:
                notes.append('_join_elements does not key the cache on the elements\' texts')
        except Unknown as e:
            notes.append('_join_elements: %s' % e)
        try:
            qsn = _find_method(url, 'URLMethodsMixin', '_quoted_script_name')
            ret = qsn.body[-1]
            if not (isinstance(ret, ast.Return) and isinstance(ret.value, ast.Call)
                    and getattr(ret.value.func, 'id', None) == 'url_quote'):
                raise Unknown('_quoted_script_name does not return url_quote(…)')
            sets['scriptSafe'] = _bytes_of(_safe_of_call(ret.value, ev_u))
        except Unknown as e:
            notes.append('_quoted_script_name: %s' % e)
        try:
            ru = copy.deepcopy(_find_method(url, 'URLMethodsMixin', 'route_url'))
            rp_ = _find_method(url, 'URLMethodsMixin', 'route_path')
            body = _strip_doc(list(ru.body))
            # the tail: from `path = route.generate(kw)` on
            idx = [i for i, s in enumerate(body) if isinstance(s, ast.Assign) and isinstance(s.value, ast.Call)
                   and getattr(s.value.func, 'attr', None) == 'generate']
            if len(idx) != 1:
                raise Unknown('route_url: no single `path = route.generate(kw)`')
            tail = body[idx[0]:]
            wfn = ast.parse(ROUTE_URL_TAIL_SRC).body[0]
            names = _bound_names(ru)
            r = _Rename(names); rw = _Rename(_bound_names(wfn) | {'app_url', 'qs', 'anchor', 'route'})
            # bind the same names in the same order on both sides: the ones the tail reads
            for nm in ('self', 'route_name', 'elements', 'kw', 'route', 'app_url', 'qs', 'anchor'):
                r._nm(nm); rw._nm(nm)
            r.bound = names | {'route', 'app_url', 'qs', 'anchor'}
            # the parse_url_overrides line must bind app_url, qs, anchor (in this order) from parse_url_overrides(self, kw)
            pre = [s for s in body[:idx[0]] if isinstance(s, ast.Assign) and isinstance(s.value, ast.Call)
                   and getattr(s.value.func, 'id', None) == 'parse_url_overrides']
            ok_pre = (len(pre) == 1 and isinstance(pre[0].targets[0], ast.Tuple) and len(pre[0].targets[0].elts) == 3)
            if ok_pre:
                a_, q_, f_ = [e.id for e in pre[0].targets[0].elts]
                r.map.update({a_: rw.map['app_url'], q_: rw.map['qs'], f_: rw.map['anchor']})
            got = [ast.dump(r.visit(s)) for s in tail]
            want = [ast.dump(rw.visit(s)) for s in wfn.body]
            ga, gs = _norm_fn(rp_)
            wa, ws = _norm_src(ROUTE_PATH_SRC)
            flags['assemblyShape'] = ok_pre and got == want and gs == ws and ga == wa
            if not flags['assemblyShape']:
                notes.append('route_url tail / route_path differ from the expected statements')
        except (Unknown, KeyError, AttributeError) as e:
            notes.append('route_url: %s' % e)
    except (OSError, SyntaxError, Unknown) as e:
        notes.append('source not readable: %s' % e)

    return flags, sets, notes


PROBE = r"""
import json, sys
out = {'sets': {}, 'notes': []}
UNRES = set(b'abcdefghijklmnopqrstuvwxyzABCDEFGHIJKLMNOPQRSTUVWXYZ0123456789_.-~')
CAND = [b for b in range(128) if b not in UNRES]


def measure(name, fn):
    # the ASCII bytes (other than the always-safe ones) that come out of fn(char) unquoted
    got = []
    try:
        for b in CAND:
            c = chr(b)
            r = fn(c)
            if r is None:
                continue
            if r == c:
                got.append(b)
            elif r.upper() != '%%%02X' % b:
                raise ValueError('unexpected quoting of %r: %r' % (c, r))
        out['sets'][name] = got
    except Exception as e:
        out['sets'][name] = None
        out['notes'].append('%s: %s: %s' % (name, type(e).__name__, e))


try:
    from pyramid.urldispatch import Route

    def val(c):
        r = Route('r', '/v/{x}').generate({'x': 'a' + c + 'b'})
        return r[len('/v/a'):-1] if r.startswith('/v/a') and r.endswith('b') else '?' + r

    def rest(c):
        r = Route('r', '/v/*x').generate({'x': ('a' + c + 'b',)})
        return r[len('/v/a'):-1] if r.startswith('/v/a') and r.endswith('b') else '?' + r

    def lit_prefix(c):
        if c in '{}*':
            return None                      # not literal text in the pattern grammar
        r = Route('r', '/a' + c + '1/x').generate({})
        return r[len('/a'):-len('1/x')] if r.startswith('/a') and r.endswith('1/x') else '?' + r

    def lit_inner(c):
        if c in '{}*':
            return None
        r = Route('r', '/{p}/a' + c + '1/x').generate({'p': 'v'})
        return r[len('/v/a'):-len('1/x')] if r.startswith('/v/a') and r.endswith('1/x') else '?' + r
    measure('valSafe', val)
    measure('restSafe', rest)
    measure('litSafePrefix', lit_prefix)
    measure('litSafeInner', lit_inner)
except Exception as e:
    out['notes'].append('route probes: %s: %s' % (type(e).__name__, e))
try:
    from pyramid.config import Configurator
    from pyramid.request import Request
    config = Configurator()
    config.add_route('r', '/s')
    config.commit()

    def req(script):
        env = {'REQUEST_METHOD': 'GET', 'SCRIPT_NAME': script, 'SERVER_NAME': 'localhost', 'SERVER_PORT': '80',
               'wsgi.url_scheme': 'http', 'HTTP_HOST': 'localhost', 'PATH_INFO': '/', 'QUERY_STRING': ''}
        r = Request(env)
        r.registry = config.registry
        return r

    def elem(c):
        r = req('').route_path('r', 'a' + c + 'b')
        return r[len('/s/a'):-1] if r.startswith('/s/a') and r.endswith('b') else '?' + r

    def script(c):
        r = req('/a' + c + 'b').route_path('r')
        return r[len('/a'):-len('b/s')] if r.startswith('/a') and r.endswith('b/s') else '?' + r
    measure('elemSafe', elem)
    measure('scriptSafe', script)
except Exception as e:
    out['notes'].append('request probes: %s: %s' % (type(e).__name__, e))
print(json.dumps(out))
"""


def _probe(src_root):
    """the safe sets, MEASURED on the tree under test through its public entry points (Route.generate,
    Request.route_path): which ASCII bytes come out unquoted at each of the six quoting sites"""
    import subprocess, sys, json
    env = dict(os.environ, PYTHONPATH=src_root, PYTHONWARNINGS='ignore')
    py = '/venv/bin/python' if os.path.exists('/venv/bin/python') else sys.executable
    p = subprocess.run([py, '-c', PROBE], env=env, stdout=subprocess.PIPE, stderr=subprocess.PIPE, timeout=120)
    if p.returncode != 0:
        raise Unknown('probe process failed: %s' % p.stderr.decode(errors='replace')[-300:])
    return json.loads(p.stdout.decode().strip().splitlines()[-1])


def generate(src_root):
    notes = []
    names = ('valSafe', 'restSafe', 'litSafePrefix', 'litSafeInner', 'elemSafe', 'scriptSafe')
    sets = {k: None for k in names}
    try:
        pr = _probe(src_root)
        for k in names:
            sets[k] = pr['sets'].get(k)
        notes += pr['notes']
    except Exception as e:
        notes.append('probe: %s: %s' % (type(e).__name__, e))
    probed = all(sets[k] is not None for k in names)
    for k in names:
        if sets[k] is None:
            sets[k] = POISON
    # optional: what the source text looks like (informational only — a restructured but equivalent
    # `_compile_route` is not an alarm; nothing in Lean depends on this)
    structure = None
    try:
        flags, ssets, snotes = _structure(src_root)
        structure = {'flags': flags, 'sets_read_from_source': {k: (None if v is None else bytes(v).decode('latin-1')) for k, v in ssets.items()},
                     'notes': snotes}
    except Exception as e:
        structure = {'error': '%s: %s' % (type(e).__name__, e)}
    summary.clear()
    summary.update({'probed': probed, 'sets': {k: bytes(v).decode('latin-1') for k, v in sets.items()}, 'notes': notes,
                    'structure_optional': structure})

    def lst(v):
        return '[' + ', '.join(str(x) for x in v) + ']'
    text = """/- GENERATED by extract/c06.py — do not edit.  The safe sets are MEASURED on the tree under test through
Route.generate / Request.route_path: the ASCII bytes, other than urllib's always-safe ones, that come out unquoted. -/
namespace Pyr.Gen.C06

/-- every probe ran and every byte came out either as itself or as its %%HH escape -/
def probed : Bool := %s

/-- a `{name}` value -/
def valSafe : List UInt8 := %s

/-- an element of a `*remainder` sequence -/
def restSafe : List UInt8 := %s

/-- the pattern's leading literal -/
def litSafePrefix : List UInt8 := %s

/-- a literal after a placeholder -/
def litSafeInner : List UInt8 := %s

/-- an extra positional element of `route_path` -/
def elemSafe : List UInt8 := %s

/-- `SCRIPT_NAME` in front of a `route_path` result -/
def scriptSafe : List UInt8 := %s

end Pyr.Gen.C06
""" % ('true' if probed else 'false', lst(sets['valSafe']), lst(sets['restSafe']), lst(sets['litSafePrefix']),
       lst(sets['litSafeInner']), lst(sets['elemSafe']), lst(sets['scriptSafe']))
    return {'PyramidModel/Gen/C06.lean': text}


if __name__ == '__main__':
    import sys, json
    out = generate(sys.argv[1] if len(sys.argv) > 1 else '/repo/src')
    print(json.dumps(summary, indent=1))
