"""Translator for X08: regenerates, by RUNNING the Configurator of the tree under test (fresh interpreter with
`src_root` first on the path), the behavioural tables the route-prefix model is checked against.  No AST matching: a
refactoring that keeps the behaviour leaves the tables unchanged, a change of behaviour inside the probed domain
changes them and the `decide`d obligations of Props/X08.lean fail.

Probed facts (Lean data in Gen/X08.lean):
 * combineCube  (outer, argument, config.route_prefix inside `with config.route_prefix_context(argument)`)     14 x 14
 * includeCube  (a, b, c, route_prefix of the configurator handed to the innermost includeme) for
                Configurator(route_prefix=a).include(f, route_prefix=b) -> f: config.include(g, route_prefix=c)   7 x 7 x 7
 * applyCube    (config.route_prefix, pattern, inherit_slash, outcome of add_route: refused | (pattern in the mapper, static))
 * staticCube   (route prefix of an include, name, outcome of add_static_view: URL registration | (route name, pattern, static))
 * restoreCube  (top, argument, include?, body raises?, prefix seen inside, prefix afterwards, threadlocal stack balanced)
 * urlProbe     (text, urlparse(text).netloc, bool(.hostname), .path) for a list of patterns and every text of
                length <= 4 over {'/', ':', 'a'}                                                  (CPython's urlparse)
Fail closed: any exception, inconsistency or time-out makes `probeStatus` an "unknown: …" string and empties the tables.
"""
import json, os, subprocess, sys

summary = {}

PFX = [None, '', '/', '//', 'a', '/a', 'a/', '/a/', '//a//', 'a/b', '/a//b/', '{u}', '\xe9/', 'a b']
PFX3 = [None, '', '/', 'a', '/a/', '//b//c//', '{u}']
APFX = [None, '', '/', '//', 'a', '/a', 'a/', '/a/', '//a//', 'a/b', '{u}', '\xe9']
PATS = ['', '/', '//', 'x', '/x', 'x/', '/x/', '///x', '/x//y', '{id}', '/x*rest', 'http://h/x', 'https://h', '//h/x', 'http:/x', 'http:x', '//:80/x', '/\xe9']
SPFX = [None, 'a', '/a/', 'a/b', '/']
SNAMES = ['static', '/static', 'static/', '/static/', 'a/b', '//cdn.example.com/x', 'http://cdn.example.com/s', 'https://h', '', '/', '\xe9', 'http:static',
          '//:80/s', '///s', '//', 'http://']
URLS = PATS + SNAMES + ['a:b//c', 'ab:', 'x://', 'x:///', 'x://h:', '//h:8', 'a.b+c-d://h', 'http://\xe9/x', 'A://B', 'a//b', 'http//h/x', 'z9://h/p', 'z_://h/p',
                        '//h/p:q', 'x:y:z', 'x://h:1:2/p', '1a://h/p', '\xe9://h/p', '//h*subpath', '//*subpath', 'http://*subpath']


def _probe():
    out = {}
    try:
        import itertools, warnings
        warnings.simplefilter('ignore')
        import pyramid.config as C
        import pyramid.config.routes as CR
        import pyramid.config.views as CV
        from pyramid.config import Configurator
        from pyramid.exceptions import ConfigurationError
        from pyramid.interfaces import IStaticURLInfo
        from pyramid.threadlocal import manager
        from urllib.parse import urlparse
        out['module'] = [os.path.realpath(m.__file__) for m in (C, CR, CV)]
        uid = [0]

        def named(f):
            uid[0] += 1
            f.__name__ = f.__qualname__ = 'x08_probe_%d' % uid[0]
            return f
        shared = Configurator(autocommit=True)
        rows = []
        for a in PFX:
            for b in PFX:
                shared.route_prefix = a
                with shared.route_prefix_context(b):
                    inside = shared.route_prefix
                if shared.route_prefix != a and not (shared.route_prefix is None and a is None):
                    raise RuntimeError('combine probe: prefix not restored')
                rows.append([a, b, inside])
        shared.route_prefix = None
        out['combine'] = rows
        rows = []
        for a in PFX3:
            config = Configurator(route_prefix=a, autocommit=True)
            for b in PFX3:
                for c in PFX3:
                    seen = []

                    def inner(cfg):
                        seen.append(cfg.route_prefix)

                    def outer(cfg, c=c):
                        cfg.include(named(inner), route_prefix=c)
                    config.include(named(outer), route_prefix=b)
                    if len(seen) != 1:
                        raise RuntimeError('include probe: innermost includeme not run exactly once')
                    rows.append([a, b, c, seen[0]])
        out['include'] = rows

        def add_route_obs(config, pfx, pat, inh):
            config.route_prefix = pfx
            try:
                config.add_route('r', pat, inherit_slash=inh)
            except ConfigurationError:
                return {'err': 'inheritSlash'}
            finally:
                config.route_prefix = None
            mapper = config.get_routes_mapper()
            r = mapper.get_route('r')
            static = r in mapper.static_routes
            if static:
                mapper.static_routes.remove(r)
            elif r not in mapper.routelist:
                raise RuntimeError('apply probe: route in neither list')
            return {'ok': [r.pattern, static]}
        rows = []
        for p in APFX:
            for pat in PATS:
                for inh in (False, True):
                    rows.append([p, pat, inh, add_route_obs(shared, p, pat, inh)])
        out['apply'] = rows
        rows = []
        for p in SPFX:
            for n in SNAMES:
                config = Configurator(autocommit=True)

                def inc(cfg, n=n):
                    cfg.add_static_view(n, 'pyramid:static')
                config.include(named(inc), route_prefix=p)
                mapper = config.get_routes_mapper()
                regs = config.registry.queryUtility(IStaticURLInfo).registrations
                if len(regs) != 1:
                    raise RuntimeError('static probe: not exactly one registration')
                url, _spec, rn = regs[0]
                if rn is None:
                    if mapper.routelist or mapper.static_routes:
                        raise RuntimeError('static probe: URL registration with a route')
                    rows.append([p, n, {'url': url}])
                else:
                    rs = [(r, False) for r in mapper.routelist] + [(r, True) for r in mapper.static_routes]
                    if len(rs) != 1 or rs[0][0].name != rn or url is not None:
                        raise RuntimeError('static probe: unexpected routes')
                    rows.append([p, n, {'route': [rn, rs[0][0].pattern, rs[0][1]]}])
        out['static'] = rows

        class Boom(Exception):
            pass
        rows = []
        for top in (None, 'a', '/t/'):
            for p in (None, '', '/', 'b', '/b/', 'b/c'):
                for is_inc in (False, True):
                    for raises in (False, True):
                        config = Configurator(route_prefix=top, autocommit=True)
                        depth = len(manager.stack)
                        seen = []

                        def body(cfg):
                            seen.append(cfg.route_prefix)
                            if raises:
                                raise Boom()
                        try:
                            if is_inc:
                                config.include(named(body), route_prefix=p)
                            else:
                                with config.route_prefix_context(p):
                                    body(config)
                        except Boom:
                            if not raises:
                                raise
                        balanced = len(manager.stack) == depth
                        while len(manager.stack) > depth:
                            manager.pop()
                        rows.append([top, p, is_inc, raises, seen[0], config.route_prefix, balanced])
        out['restore'] = rows

        def up(t):
            u = urlparse(t)
            return [t, u.netloc, bool(u.hostname), u.path]
        out['url'] = [up(t) for t in URLS] + [up(''.join(t)) for L in range(5) for t in itertools.product('/:a', repeat=L)]
        out['status'] = 'ok'
    except BaseException as e:      # noqa — fail closed
        out = {'status': 'unknown: %s: %s' % (type(e).__name__, str(e)[:200])}
    return out


def facts(src_root):
    py = '/venv/bin/python' if os.path.exists('/venv/bin/python') else sys.executable
    env = dict(os.environ, PYTHONPATH=src_root, PYTHONWARNINGS='ignore')
    try:
        p = subprocess.run([py, os.path.abspath(__file__), '--probe', src_root], env=env, stdout=subprocess.PIPE, stderr=subprocess.PIPE,
                           timeout=300)
        f = json.loads(p.stdout.decode().strip().splitlines()[-1])
    except Exception as e:          # noqa
        return {'status': 'unknown: probe did not answer: %s' % type(e).__name__}
    if f.get('status') == 'ok':
        want = [os.path.realpath(os.path.join(src_root, 'pyramid', 'config', n)) for n in ('__init__.py', 'routes.py', 'views.py')]
        if f.get('module') != want:
            return {'status': 'unknown: the probe imported %s, not the tree under test' % f.get('module')}
        for k in ('combine', 'include', 'apply', 'static', 'restore', 'url'):
            if not isinstance(f.get(k), list):
                return {'status': 'unknown: probe answer lacks %s' % k}
    return f


def _txt(s):
    return 'T [' + ', '.join(str(ord(c)) for c in s) + ']'


def _otxt(s):
    return 'none' if s is None else '(some (%s))' % _txt(s)


def _b(x):
    return 'true' if x else 'false'


def _add(r):
    if 'err' in r:
        return '.refused'
    return '(.connected (%s) %s)' % (_txt(r['ok'][0]), _b(r['ok'][1]))


def _static(r):
    if 'url' in r:
        return '(.url (%s))' % _txt(r['url'])
    return '(.route (%s) (%s) %s)' % (_txt(r['route'][0]), _txt(r['route'][1]), _b(r['route'][2]))


def generate(src_root):
    f = facts(src_root)
    ok = f.get('status') == 'ok'
    status = f.get('status', 'unknown: no status')
    summary.clear()
    summary.update({'status': status})
    summary.update({k + '_rows': len(f.get(k, [])) for k in ('combine', 'include', 'apply', 'static', 'restore', 'url')})
    g = (lambda k: f[k]) if ok else (lambda k: [])
    L = ['/- GENERATED by extract/x08.py by probing the running Configurator of the tree under test (route_prefix_context, include,',
         '   add_route, add_static_view) — do not edit. -/',
         'import PyramidModel.Prefix',
         'namespace Pyr.Prefix.Gen', '',
         'def T (cs : List Nat) : Text := cs.map Char.ofNat', '',
         '/-- outcome of `add_route` as observed -/',
         'inductive AddObs where', '  | refused', '  | connected (pattern : Text) (static : Bool)', 'deriving Repr, DecidableEq', '',
         '/-- "ok", or why the probe of the tree under test could not be trusted -/',
         'def probeStatus : Text := %s' % _txt(status.replace('\n', ' ')), '',
         '/-- (route_prefix outside, argument of route_prefix_context, route_prefix inside) -/',
         'def combineCube : List (Pfx × Pfx × Pfx) := [',
         ',\n'.join('  (%s, %s, %s)' % (_otxt(a), _otxt(b), _otxt(r)) for a, b, r in g('combine')), ']', '',
         '/-- (Configurator(route_prefix=a), include(route_prefix=b), nested include(route_prefix=c), prefix of the innermost configurator) -/',
         'def includeCube : List (Pfx × Pfx × Pfx × Pfx) := [',
         ',\n'.join('  (%s, %s, %s, %s)' % (_otxt(a), _otxt(b), _otxt(c), _otxt(r)) for a, b, c, r in g('include')), ']', '',
         '/-- (config.route_prefix, pattern, inherit_slash, what add_route did) -/',
         'def applyCube : List (Pfx × Text × Bool × AddObs) := [',
         ',\n'.join('  (%s, %s, %s, %s)' % (_otxt(p), _txt(pat), _b(inh), _add(r)) for p, pat, inh, r in g('apply')), ']', '',
         '/-- (route_prefix of the include, static view name, what add_static_view did) -/',
         'def staticCube : List (Pfx × Text × StaticOut) := [',
         ',\n'.join('  (%s, %s, %s)' % (_otxt(p), _txt(n), _static(r)) for p, n, r in g('static')), ']', '',
         '/-- (Configurator(route_prefix=top), argument, via include?, body raises?, prefix inside, prefix afterwards, manager stack balanced) -/',
         'def restoreCube : List (Pfx × Pfx × Bool × Bool × Pfx × Pfx × Bool) := [',
         ',\n'.join('  (%s, %s, %s, %s, %s, %s, %s)' % (_otxt(t), _otxt(p), _b(i), _b(r), _otxt(s), _otxt(a), _b(bal)) for t, p, i, r, s, a, bal in g('restore')), ']', '',
         '/-- (text, urlparse(text).netloc, bool(urlparse(text).hostname), urlparse(text).path) -/',
         'def urlProbe : List (Text × Text × Bool × Text) := [',
         ',\n'.join('  (%s, %s, %s, %s)' % (_txt(t), _txt(n), _b(h), _txt(p)) for t, n, h, p in g('url')), ']', '',
         'end Pyr.Prefix.Gen', '']
    return {'PyramidModel/Gen/X08.lean': '\n'.join(L)}


if __name__ == '__main__':
    if len(sys.argv) > 2 and sys.argv[1] == '--probe':
        print(json.dumps(_probe()))
    else:
        print(generate(sys.argv[1] if len(sys.argv) > 1 else '/repo/src')['PyramidModel/Gen/X08.lean'])
