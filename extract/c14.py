"""Translator for C14: regenerates lean/PyramidModel/Gen/C14Probe.lean by RUNNING the view mapper of the tree under
test (child interpreter whose sys.path starts with `src_root`, with a timeout).

The probe table: for every kind of view callable `DefaultViewMapper` supports
    fn2   function (context, request)            fn1   function (request)
    cls2  class __init__(context, request) + attr=     cls2c  the same with __call__
    cls1  class __init__(request) + attr=
    inst2 instance, attr= method (context, request)    inst1  instance, attr= method (request)
x { ordinary view, exception view, exception view after an ordinary view OF THE SAME CLASS / OBJECT raised in this
request } a small application is built and one request is sent through Router.__call__; the view reports what it was
handed as its context (the constructor's argument for a class) and whether its constructor ran for this call:
    row = (kind, exception path?, same class before?, "exception" | "resource" | "none" | "other", constructed for this call?)
Props/C14.lean decides the whole table against the model's calling convention (`ViewKind.userContext`,
`ViewKind.constructsPerCall`).  Fail closed: any exception / timeout / import from another tree gives "unknown" rows.
"""
import json, os, subprocess, sys

summary = {}

KINDS = ['fn2', 'fn1', 'cls2', 'cls2c', 'cls1', 'inst2', 'inst1']

_PROBE = r'''
import sys, os, json, warnings
src = sys.argv[1]
sys.path.insert(0, src)
warnings.simplefilter('ignore')
import pyramid
assert os.path.realpath(os.path.dirname(pyramid.__file__)).startswith(os.path.realpath(src)), 'pyramid imported from another tree'
from pyramid.config import Configurator
from pyramid.request import Request
from pyramid.response import Response

KINDS = ['fn2', 'fn1', 'cls2', 'cls2c', 'cls1', 'inst2', 'inst1']


class Boom(ValueError):
    pass


class Root(dict):
    pass


def probe(kind, excpath, before):
    root = Root()
    log = {'seen': None, 'constructed': 0, 'calls': 0}
    NO = object()

    def report(ctx, constructed):
        log['seen'] = ctx
        log['constructed_for_call'] = constructed

    def classify(request):
        c = log['seen']
        if c is NO:
            return 'none'
        if c is root:
            return 'resource'
        if isinstance(c, Boom):
            return 'exception'
        return 'other'
    # the callable(s): `index` is the ordinary entry (raises when asked to), `failed` the exception entry
    raising = excpath and before

    def body(ctx, request, which, constructed):
        if which == 'index' and raising_now[0]:
            raise Boom()
        report(ctx, constructed)
        return Response('ok')
    raising_now = [False]
    config = Configurator(root_factory=lambda request: root)
    if kind in ('cls2', 'cls2c', 'cls1'):
        made = []
        if kind == 'cls1':
            class Pages:
                def __init__(self, request):
                    self.request = request
                    made.append(self)

                def index(self):
                    return body(NO, self.request, 'index', made[-1] is self)

                def failed(self):
                    return body(NO, self.request, 'failed', made[-1] is self and len(made) == expected_made[0])
        else:
            class Pages:
                def __init__(self, context, request):
                    self.context = context
                    self.request = request
                    made.append(self)

                def index(self):
                    return body(self.context, self.request, 'index', made[-1] is self)

                def failed(self):
                    return body(self.context, self.request, 'failed', made[-1] is self and len(made) == expected_made[0])
        expected_made = [1]
        if kind == 'cls2c':
            # __call__ can serve one registration only: the class is its own exception view; the ordinary view of the
            # "same class before" probe is a subclass-free second registration through attr
            Pages.__call__ = Pages.failed
            ordinary = dict(view=Pages, attr='index')
            exc = dict(view=Pages)
        else:
            ordinary = dict(view=Pages, attr='index')
            exc = dict(view=Pages, attr='failed')
    elif kind in ('inst2', 'inst1'):
        if kind == 'inst2':
            class Obj:
                def index(self, context, request):
                    return body(context, request, 'index', False)

                def failed(self, context, request):
                    return body(context, request, 'failed', False)
        else:
            class Obj:
                def index(self, request):
                    return body(NO, request, 'index', False)

                def failed(self, request):
                    return body(NO, request, 'failed', False)
        o = Obj()
        ordinary = dict(view=o, attr='index')
        exc = dict(view=o, attr='failed')
        expected_made = [0]
    elif kind == 'fn2':
        def index(context, request):
            return body(context, request, 'index', False)

        def failed(context, request):
            return body(context, request, 'failed', False)
        ordinary, exc = dict(view=index), dict(view=failed)
        expected_made = [0]
    else:
        def index(request):
            return body(NO, request, 'index', False)

        def failed(request):
            return body(NO, request, 'failed', False)
        ordinary, exc = dict(view=index), dict(view=failed)
        expected_made = [0]

    def other_raiser(context, request):
        raise Boom()
    if not excpath:
        config.add_view(**ordinary)
    else:
        config.add_exception_view(context=Boom, **exc)
        if before:
            raising_now[0] = True
            if kind in ('cls2', 'cls2c', 'cls1'):
                expected_made[0] = 2            # one instance for the ordinary call, a new one for the exception view
            config.add_view(**ordinary)
        else:
            config.add_view(other_raiser)
    app = config.make_wsgi_app()
    resp = Request.blank('/').get_response(app)
    assert resp.status_int == 200 and resp.text == 'ok', (resp.status, resp.text[:80])
    return [kind, bool(excpath), bool(before), classify(None), bool(log['constructed_for_call'])]


rows = []
for kind in KINDS:
    for excpath, before in ((False, False), (True, False), (True, True)):
        try:
            rows.append(probe(kind, excpath, before))
        except Exception as e:
            rows.append([kind, bool(excpath), bool(before), 'unknown:%s' % type(e).__name__, False])
print(json.dumps(rows))
'''


def _lean_str(s):
    return '"' + s.replace('\\', '\\\\').replace('"', '\\"') + '"'


def generate(src_root):
    rows = None
    err = None
    try:
        env = dict(os.environ, PYTHONWARNINGS='ignore')
        env.pop('PYTHONPATH', None)
        p = subprocess.run([sys.executable, '-c', _PROBE, src_root], stdout=subprocess.PIPE, stderr=subprocess.PIPE, timeout=120, env=env)
        if p.returncode == 0:
            rows = json.loads(p.stdout.decode().strip().splitlines()[-1])
        else:
            err = p.stderr.decode()[-300:]
    except Exception as e:
        err = '%s: %s' % (type(e).__name__, e)
    if rows is None:
        rows = [[k, x, b, 'unknown', False] for k in KINDS for x, b in ((False, False), (True, False), (True, True))]
    summary.clear()
    summary.update({'rows': len(rows), 'error': err,
                    'unexpected': [r for r in rows if r[3].startswith('unknown') or r[3] == 'other']})
    body = ',\n   '.join('(%s, %s, %s, %s, %s)' % (_lean_str(r[0]), str(bool(r[1])).lower(), str(bool(r[2])).lower(), _lean_str(r[3]),
                                                 str(bool(r[4])).lower()) for r in rows)
    text = ('/- GENERATED by extract/c14.py by RUNNING the view mapper of src/pyramid (viewderivers.py DefaultViewMapper, reached through\n'
            '   add_view / add_exception_view and Router.__call__) on probe applications.  Do not edit: rewritten on every check.\n'
            '   "unknown…" entries mean a probe failed. -/\n'
            'namespace Pyr.Gen.C14\n\n'
            '/-- (view kind, on the exception path?, an ordinary view of the same class / object raised earlier in this request?,\n'
            '    what the user\'s callable was handed as its context, was the class instance constructed for this very call?) -/\n'
            'def probe : List (String × Bool × Bool × String × Bool) :=\n  [' + body + ']\n\nend Pyr.Gen.C14\n')
    return {'PyramidModel/Gen/C14Probe.lean': text}


if __name__ == '__main__':
    out = generate(sys.argv[1] if len(sys.argv) > 1 else '/repo/src')
    print(list(out.values())[0])
    print(summary)
