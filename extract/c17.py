"""Translator for C17: regenerates, from the working tree's source, the safe-character set that every URL
component is quoted with — the constants *and* which constant each call site uses.

 * traversal.py   PATH_SEGMENT_SAFE, PATH_SAFE; `_join_path_tuple` -> quote_path_segment(x) (default `safe`)
 * url.py         QUERY_SAFE, ANCHOR_SAFE; parse_url_overrides -> url_quote(query, …), url_quote(anchor, …);
                  _quoted_script_name -> url_quote(bscript_name, …); _join_elements (the uncached
                  stringifying wrapper) -> _join_text_elements -> quote_path_segment(s, safe=…)
 * urldispatch.py _compile_route -> quote_path_segment(prefix|s, safe='/') for pattern literals,
                  q(v) = quote_path_segment(v, safe=…) for placeholder values
 * encode.py      quote_plus(val, safe='') default and urlencode(…, quote_via=quote_plus); quote_via(·) is
                  called with one argument for keys and values
 * the standard library's `urllib.parse._ALWAYS_SAFE` (read from the running interpreter)

A site whose shape is not the expected one makes `recognised` false and its set a poison set containing
`% / ? # & =`; the `decide`d obligations of Props/C17.lean then fail.
"""
import ast, os

summary = {}
POISON = sorted(b'%/?#&=')


class Unknown(Exception):
    pass


def _consts(tree, env):
    """module-level NAME = <str expr> assignments, evaluated over `env` (str constants, names, +)"""
    def ev(n):
        if isinstance(n, ast.Constant) and isinstance(n.value, str):
            return n.value
        if isinstance(n, ast.Name) and n.id in env:
            return env[n.id]
        if isinstance(n, ast.BinOp) and isinstance(n.op, ast.Add):
            return ev(n.left) + ev(n.right)
        raise Unknown(ast.dump(n))
    for st in tree.body:
        if isinstance(st, ast.Assign) and len(st.targets) == 1 and isinstance(st.targets[0], ast.Name):
            nm = st.targets[0].id
            if nm.isupper() and nm.endswith('SAFE'):
                try:
                    env[nm] = ev(st.value)
                except Unknown:
                    env[nm] = None
    return ev


def _func(tree, name, cls=None):
    for n in ast.walk(tree):
        if isinstance(n, ast.FunctionDef) and n.name == name:
            return n
    return None


def _calls(func, callee):
    out = []
    for n in ast.walk(func):
        if isinstance(n, ast.Call) and (getattr(n.func, 'id', None) == callee or getattr(n.func, 'attr', None) == callee):
            out.append(n)
    return out


def _safe_arg(call, ev, pos=1, default=None):
    """the `safe` argument of a url_quote/quote_path_segment call (2nd positional or keyword)"""
    for k in call.keywords:
        if k.arg == 'safe':
            return ev(k.value)
        if k.arg is None:
            raise Unknown('**kw')
    if len(call.args) > pos:
        return ev(call.args[pos])
    if default is None:
        raise Unknown('no safe argument')
    return default


def _first_arg_name(call):
    a = call.args[0] if call.args else None
    return getattr(a, 'id', None)


def facts(src_root):
    p = lambda *a: os.path.join(src_root, 'pyramid', *a)
    env = {}
    trees = {}
    for f in ('traversal.py', 'url.py', 'urldispatch.py', 'encode.py'):
        trees[f] = ast.parse(open(p(f)).read())
    ev_t = _consts(trees['traversal.py'], env)
    ev = _consts(trees['url.py'], env)          # url.py imports PATH_SAFE / PATH_SEGMENT_SAFE from traversal
    out, problems = {}, []

    def site(name, thunk):
        try:
            v = thunk()
            if v is None or any(ord(c) > 127 for c in v):
                raise Unknown('non-ASCII or unresolved constant')
            out[name] = sorted(set(v.encode('ascii')))
        except Exception as e:  # noqa
            problems.append('%s: %s' % (name, e))
            out[name] = POISON

    # constants themselves
    for c in ('PATH_SEGMENT_SAFE', 'PATH_SAFE', 'QUERY_SAFE', 'ANCHOR_SAFE'):
        site('const_' + c, lambda c=c: env.get(c))

    # url.py call sites
    def one(fn, callee, argname):
        f = _func(trees['url.py'], fn)
        if f is None:
            raise Unknown('no function ' + fn)
        cs = [c for c in _calls(f, callee) if _first_arg_name(c) == argname]
        if len(cs) != 1:
            raise Unknown('%d calls of %s(%s, …) in %s' % (len(cs), callee, argname, fn))
        return cs[0]
    site('querySafe', lambda: _safe_arg(one('parse_url_overrides', 'url_quote', 'query'), ev))
    site('anchorSafe', lambda: _safe_arg(one('parse_url_overrides', 'url_quote', 'anchor'), ev))
    site('scriptSafe', lambda: _safe_arg(one('_quoted_script_name', 'url_quote', 'bscript_name'), ev))

    def element_site():
        # `_join_elements(elements)` must be the *uncached* wrapper that turns every non-str/bytes element into
        # its text and hands the tuple to the cached `_join_text_elements`, whose body holds the quoting call;
        # any other shape (e.g. the cache back on the raw element tuple, where True, 1 and 1.0 share an entry)
        # is not recognised
        w = _func(trees['url.py'], '_join_elements')
        if w is None:
            raise Unknown('no function _join_elements')
        if w.decorator_list:
            raise Unknown('_join_elements is decorated (a cache keyed on the raw elements?)')
        body = [st for st in w.body if not (isinstance(st, ast.Expr) and isinstance(st.value, ast.Constant))]
        want = 'return _join_text_elements(tuple([s if s.__class__ in (str, bytes) else str(s) for s in elements]))'
        if [a.arg for a in w.args.args] != ['elements'] or len(body) != 1 or ast.unparse(body[0]) != want:
            raise Unknown('_join_elements is not the stringifying wrapper')
        t = _func(trees['url.py'], '_join_text_elements')
        if t is None or [a.arg for a in t.args.args] != ['elements']:
            raise Unknown('no function _join_text_elements(elements)')
        tb = [st for st in t.body if not (isinstance(st, ast.Expr) and isinstance(st.value, ast.Constant))]
        if len(tb) != 1 or not isinstance(tb[0], ast.Return):
            raise Unknown('_join_text_elements body')
        src = ast.unparse(tb[0])
        if not (src.startswith("return '/'.join([quote_path_segment(s, safe=") and src.endswith(') for s in elements])')):
            raise Unknown('_join_text_elements body')
        return _safe_arg(one('_join_text_elements', 'quote_path_segment', 's'), ev)
    site('elementSafe', element_site)

    # quote_path_segment's own default (used by _join_path_tuple for resource names)
    def qps_default():
        f = _func(trees['traversal.py'], 'quote_path_segment')
        if f is None or [a.arg for a in f.args.args] != ['segment', 'safe'] or len(f.args.defaults) != 1:
            raise Unknown('quote_path_segment signature')
        return ev_t(f.args.defaults[0])

    def resname():
        f = _func(trees['traversal.py'], '_join_path_tuple')
        cs = _calls(f, 'quote_path_segment') if f else []
        if len(cs) != 1:
            raise Unknown('_join_path_tuple')
        return _safe_arg(cs[0], ev_t, default=qps_default())
    site('resNameSafe', resname)

    # urldispatch._compile_route
    def route_lit():
        f = _func(trees['urldispatch.py'], '_compile_route')
        cs = [c for c in _calls(f, 'quote_path_segment') if _first_arg_name(c) in ('prefix', 's')]
        if len(cs) != 2:
            raise Unknown('expected 2 literal-quoting calls, found %d' % len(cs))
        vals = {_safe_arg(c, ev) for c in cs}
        if len(vals) != 1:
            raise Unknown('literal sites disagree')
        return vals.pop()

    def route_val():
        f = _func(trees['urldispatch.py'], '_compile_route')
        q = [n for n in ast.walk(f) if isinstance(n, ast.FunctionDef) and n.name == 'q']
        if len(q) != 1:
            raise Unknown('no q()')
        cs = _calls(q[0], 'quote_path_segment')
        if len(cs) != 1 or _first_arg_name(cs[0]) != 'v':
            raise Unknown('q() body')
        env2 = dict(env)
        return _safe_arg(cs[0], ev)
    site('routeLitSafe', route_lit)
    site('routeValSafe', route_val)

    # encode.py
    def plus():
        t = trees['encode.py']
        qp = _func(t, 'quote_plus')
        ue = _func(t, 'urlencode')
        if qp is None or ue is None:
            raise Unknown('encode.py functions')
        if [a.arg for a in qp.args.args] != ['val', 'safe'] or len(qp.args.defaults) != 1:
            raise Unknown('quote_plus signature')
        d = qp.args.defaults[0]
        if not (isinstance(d, ast.Constant) and isinstance(d.value, str)):
            raise Unknown('quote_plus default')
        names = [a.arg for a in ue.args.args]
        if 'quote_via' not in names:
            raise Unknown('urlencode signature')
        dv = ue.args.defaults[len(ue.args.defaults) - (len(names) - names.index('quote_via'))]
        if getattr(dv, 'id', None) != 'quote_plus':
            raise Unknown('urlencode quote_via default')
        calls = _calls(ue, 'quote_via')
        if len(calls) != 3 or any(len(c.args) != 1 or c.keywords for c in calls):
            raise Unknown('quote_via call shape')
        inner = _calls(qp, '_quote_plus')
        if len(inner) != 1 or _safe_arg(inner[0], lambda n: 'S' if getattr(n, 'id', None) == 'safe' else (_ for _ in ()).throw(Unknown('safe arg'))) != 'S':
            raise Unknown('quote_plus body')
        return d.value
    site('plusSafe', plus)

    # urlencode is called by parse_url_overrides without a quote_via override
    def ue_call():
        f = _func(trees['url.py'], 'parse_url_overrides')
        cs = _calls(f, 'urlencode')
        if len(cs) != 1 or any(k.arg == 'quote_via' or k.arg is None for k in cs[0].keywords) or len(cs[0].args) > 2:
            raise Unknown('urlencode call in parse_url_overrides')
        return ''
    site('_urlencode_call', ue_call)

    import urllib.parse as up
    out['alwaysSafe'] = sorted(up._ALWAYS_SAFE)
    return out, problems


def lean_list(bs):
    return '[' + ', '.join(str(b) for b in bs) + ']'


def generate(src_root):
    out, problems = facts(src_root)
    summary.clear()
    summary.update({'problems': problems, 'sets': {k: bytes(v).decode('ascii') for k, v in out.items()}})
    L = ['/- GENERATED by extract/c17.py from src/pyramid/{url,traversal,urldispatch,encode}.py — do not edit. -/',
         'namespace Pyr.Url.Gen', '',
         '/-- false when some quoting call site did not have the expected shape (%s) -/' % ('; '.join(problems).replace('-/', '- /') or 'all recognised'),
         'def recognised : Bool := %s' % ('true' if not problems else 'false'), '']
    doc = {
        'elementSafe': '`_join_elements` → `_join_text_elements`: quote_path_segment(s, safe=…)',
        'scriptSafe': '`_quoted_script_name`: url_quote(bscript_name, …)',
        'routeLitSafe': '`_compile_route`: quote_path_segment(prefix|s, safe=…) for pattern literals',
        'routeValSafe': '`_compile_route`: q(v) = quote_path_segment(v, safe=…) for placeholder values',
        'resNameSafe': '`_join_path_tuple`: quote_path_segment(x) (its default `safe`)',
        'querySafe': '`parse_url_overrides`: url_quote(query, …) for a `str` query',
        'anchorSafe': '`parse_url_overrides`: url_quote(anchor, …)',
        'plusSafe': '`encode.quote_plus(val, safe=…)` default, used by `urlencode` for keys and values',
        'alwaysSafe': "the interpreter's urllib.parse._ALWAYS_SAFE",
    }
    for k in ('elementSafe', 'scriptSafe', 'routeLitSafe', 'routeValSafe', 'resNameSafe', 'querySafe', 'anchorSafe', 'plusSafe', 'alwaysSafe'):
        L.append('/-- %s -/' % doc[k])
        L.append('def %s : List UInt8 := %s' % (k, lean_list(out[k])))
        L.append('')
    L.append('/-- the named constants as written in the source -/')
    L.append('def constPathSegmentSafe : List UInt8 := %s' % lean_list(out['const_PATH_SEGMENT_SAFE']))
    L.append('def constPathSafe : List UInt8 := %s' % lean_list(out['const_PATH_SAFE']))
    L.append('def constQuerySafe : List UInt8 := %s' % lean_list(out['const_QUERY_SAFE']))
    L.append('def constAnchorSafe : List UInt8 := %s' % lean_list(out['const_ANCHOR_SAFE']))
    L.append('')
    L.append('end Pyr.Url.Gen')
    return {'PyramidModel/Gen/C17.lean': '\n'.join(L) + '\n'}


if __name__ == '__main__':
    import sys
    for k, v in generate(sys.argv[1] if len(sys.argv) > 1 else '/repo/src').items():
        print(v)
    print(summary)
