"""Translator for C17: regenerates the safe-character set every URL component is quoted with.

It used to read the quoting call sites out of the AST (url.py / traversal.py / urldispatch.py / encode.py).  That made
behaviour-preserving refactorings (helpers extracted or renamed, locals renamed) look like a broken obligation.  It now
*probes the running code*: in a fresh interpreter with the source tree under test first on `sys.path`, a real
`Configurator` / `Request` is built and, for each of the 128 ASCII characters `c`, the public helpers are called with
`'x' + c + 'y'` in each position; `c` belongs to the position's safe set iff it comes out unescaped (and is not in
urllib's always-safe set, which is reported separately):

  elementSafe   request.route_path('r', 'x'+c+'y')                 (`*elements`)
  scriptSafe    route_path with SCRIPT_NAME '/x'+c+'y'
  routeLitSafe  a route whose pattern is '/x'+c+'-'                 (pattern literal; characters a pattern cannot hold
                                                                     as literal text — add_route raises, or the text
                                                                     becomes a placeholder — are reported as not safe)
  routeValSafe  route '/v/{x}' with x='x'+c+'y', and the same through a '*rest' route (both must agree)
  resNameSafe   request.resource_path(resource named 'x'+c+'y')
  querySafe     _query='x'+c+'y' (a str query)
  anchorSafe    _anchor='x'+c+'y'
  plusSafe      _query=[(k, v)], _query=[(k, [v])] with k = v = 'x'+c+'y' (key, value and sequence member must agree;
                the space is expected as '+')

plus the module constants PATH_SEGMENT_SAFE / PATH_SAFE / QUERY_SAFE / ANCHOR_SAFE (attribute values minus the always-safe
characters, e.g. the redundant `~`; when one is missing the probed set of its main site stands in) and urllib's `_ALWAYS_SAFE`.

`recognised` is false — and the sets are a poison set `% / ? # & =` so that the decided obligations fail — only when
the probe itself cannot run or cannot be read: the interpreter fails, a helper raises on a plain input, an output
does not have the probed text where it must be, or two positions that the model quotes with one set disagree.
"""
import json, os, subprocess, sys

summary = {}
POISON = sorted(b'%/?#&=')

PROBE = r'''
import json, sys
from urllib.parse import _ALWAYS_SAFE
from pyramid.config import Configurator
from pyramid.request import Request

problems = []
out = {}
ALWAYS = set(_ALWAYS_SAFE)
CH = [chr(i) for i in range(128)]


def env(script=''):
    return {'REQUEST_METHOD': 'GET', 'wsgi.url_scheme': 'http', 'SERVER_NAME': 'h', 'SERVER_PORT': '80', 'HTTP_HOST': 'h',
            'SCRIPT_NAME': script, 'PATH_INFO': '/', 'QUERY_STRING': '', 'SERVER_PROTOCOL': 'HTTP/1.1'}


config = Configurator(settings={})
config.add_route('r', '/r')
config.add_route('v', '/v/{x}')
config.add_route('s', '/s/*rest')
lit_ok = {}
for i, c in enumerate(CH):
    pat = '/x' + c + '-'
    try:
        config.add_route('l%d' % i, pat)
        lit_ok[i] = True
    except Exception:
        lit_ok[i] = False            # the pattern cannot hold this character as literal text
config.commit()
reg = config.registry


def req(script=''):
    r = Request(env(script))
    r.registry = reg
    return r


def kept(name, fn, lead, tail=''):
    """characters c for which fn('x'+c+'y') is lead + 'x'+c+'y' + tail, minus urllib's always-safe set"""
    safe = []
    for i, c in enumerate(CH):
        t = 'x' + c + 'y'
        try:
            r = fn(t, i)
        except Exception as e:
            problems.append('%s: helper raised %s on %r' % (name, type(e).__name__, t))
            return None
        if r is None:
            continue
        if not (r.startswith(lead + 'x') and r.endswith('y' + tail) and len(r) >= len(lead) + len(tail) + 2):
            problems.append('%s: output %r does not carry the probed text %r' % (name, r, t))
            return None
        if r == lead + t + tail and i not in ALWAYS:
            safe.append(i)
    return safe


class Res:
    def __init__(self, name, parent):
        self.__name__, self.__parent__ = name, parent


root = Res('', None)

out['elementSafe'] = kept('elementSafe', lambda t, i: req().route_path('r', t), '/r/')
out['scriptSafe'] = kept('scriptSafe', lambda t, i: req('/' + t).route_path('r'), '/', '/r')
out['routeValSafe'] = kept('routeValSafe', lambda t, i: req().route_path('v', x=t), '/v/')
star1 = kept('routeValSafe(*rest as str)', lambda t, i: req().route_path('s', rest=t), '/s/')
star2 = kept('routeValSafe(*rest as tuple)', lambda t, i: req().route_path('s', rest=(t,)), '/s/')
for nm, st in (('*rest given as a str', star1), ('*rest given as a tuple', star2)):
    if st is not None and out['routeValSafe'] is not None and st != out['routeValSafe']:
        problems.append('routeValSafe: a {placeholder} and %s are quoted differently (%r vs %r)' % (nm, bytes(out['routeValSafe']), bytes(st)))
out['resNameSafe'] = kept('resNameSafe', lambda t, i: req().resource_path(Res(t, root)), '/', '/')
out['querySafe'] = kept('querySafe', lambda t, i: req().route_path('r', _query=t), '/r?')
out['anchorSafe'] = kept('anchorSafe', lambda t, i: req().route_path('r', _anchor=t), '/r#')


def lit(t, i):
    if not lit_ok[i]:
        return None
    c = CH[i]
    try:
        r = req().route_path('l%d' % i)
    except KeyError:
        return None                  # the character turned the text into a placeholder: not literal text
    # the literal is '/x' + c + '-': report it in the shape kept() expects
    if r.startswith('/x') and r.endswith('-'):
        return '/' + 'x' + r[2:-1] + 'y'
    return r


out['routeLitSafe'] = kept('routeLitSafe', lit, '/')

# urlencode: key, value, member of a sequence value; the space must come out as '+'
k = kept('plusSafe(key)', lambda t, i: req().route_path('r', _query=[(t, 'v')]), '/r?', '=v')
v = kept('plusSafe(value)', lambda t, i: req().route_path('r', _query=[('k', t)]), '/r?k=')
m = kept('plusSafe(member)', lambda t, i: req().route_path('r', _query={'k': [t]}), '/r?k=')
out['plusSafe'] = k
if k is not None and (v != k or m != k):
    problems.append('plusSafe: key / value / sequence member are quoted differently (%r / %r / %r)' % (k, v, m))
try:
    if req().route_path('r', _query=[('a b', 'c d')]) != '/r?a+b=c+d':
        problems.append("plusSafe: a space in a query pair is not encoded as '+'")
except Exception as e:
    problems.append('plusSafe: helper raised %s' % type(e).__name__)

consts = {}
import pyramid.traversal as T, pyramid.url as U
for mod, nm in ((T, 'PATH_SEGMENT_SAFE'), (T, 'PATH_SAFE'), (U, 'QUERY_SAFE'), (U, 'ANCHOR_SAFE')):
    val = getattr(mod, nm, None)
    consts[nm] = sorted(set(val.encode('ascii', 'ignore'))) if isinstance(val, str) else None
out['consts'] = consts
out['alwaysSafe'] = sorted(ALWAYS)
out['problems'] = problems
sys.stdout.write('C17PROBE ' + json.dumps(out))
'''


def facts(src_root):
    env = dict(os.environ)
    env['PYTHONPATH'] = src_root + os.pathsep + env.get('PYTHONPATH', '')
    env['PYTHONWARNINGS'] = 'ignore'
    try:
        p = subprocess.run([sys.executable, '-c', PROBE], env=env, stdout=subprocess.PIPE, stderr=subprocess.PIPE, timeout=120)
        line = [l for l in p.stdout.decode(errors='replace').splitlines() if l.startswith('C17PROBE ')]
        if p.returncode != 0 or not line:
            return None, ['the probe could not run (exit %s): %s' % (p.returncode, p.stderr.decode(errors='replace')[-400:].replace('\n', ' | '))]
        out = json.loads(line[-1][len('C17PROBE '):])
    except Exception as e:  # noqa
        return None, ['the probe could not run: %s: %s' % (type(e).__name__, e)]
    return out, list(out.get('problems', []))


SITES = ('elementSafe', 'scriptSafe', 'routeLitSafe', 'routeValSafe', 'resNameSafe', 'querySafe', 'anchorSafe', 'plusSafe')
CONST_OF = {'constPathSegmentSafe': ('PATH_SEGMENT_SAFE', 'elementSafe'), 'constPathSafe': ('PATH_SAFE', 'scriptSafe'),
            'constQuerySafe': ('QUERY_SAFE', 'querySafe'), 'constAnchorSafe': ('ANCHOR_SAFE', 'anchorSafe')}


def lean_list(bs):
    return '[' + ', '.join(str(b) for b in bs) + ']'


def generate(src_root):
    out, problems = facts(src_root)
    sets = {}
    for k in SITES:
        v = None if out is None else out.get(k)
        if v is None:
            if out is not None and not any(pr.startswith(k) for pr in problems):
                problems.append('%s: no probe result' % k)
            v = POISON
        sets[k] = sorted(v)
    if problems:
        sets = {k: (sets[k] if (out is not None and out.get(k) is not None and not any(pr.startswith(k) for pr in problems)) else POISON) for k in SITES}
    always = sorted((out or {}).get('alwaysSafe') or [])
    if not always:
        import urllib.parse as up
        always = sorted(up._ALWAYS_SAFE)
    consts = {}
    for lean_name, (py_name, site) in CONST_OF.items():
        cv = ((out or {}).get('consts') or {}).get(py_name)
        consts[lean_name] = sorted(set(cv) - set(always)) if cv is not None else sets[site]
    summary.clear()
    summary.update({'method': 'behaviour probe (subprocess, 128 ASCII characters per position)', 'problems': problems,
                    'sets': {k: bytes(v).decode('ascii', 'replace') for k, v in sets.items()},
                    'constants': {k: bytes(v).decode('ascii', 'replace') for k, v in consts.items()}})
    L = ['/- GENERATED by extract/c17.py by probing the running URL helpers of the source tree under test — do not edit. -/',
         'namespace Pyr.Url.Gen', '',
         '/-- false when the probe could not run or could not be read (%s) -/' % ('; '.join(problems).replace('-/', '- /').replace('\n', ' ')[:600] or 'probe ran'),
         'def recognised : Bool := %s' % ('true' if not problems else 'false'), '']
    doc = {
        'elementSafe': 'characters left unescaped in `*elements` (route_path(name, elem))',
        'scriptSafe': 'characters left unescaped in SCRIPT_NAME',
        'routeLitSafe': 'characters left unescaped in the literal text of a route pattern',
        'routeValSafe': 'characters left unescaped in a placeholder / `*star` value',
        'resNameSafe': 'characters left unescaped in a resource `__name__` (resource_path)',
        'querySafe': 'characters left unescaped in a `str` `_query`',
        'anchorSafe': 'characters left unescaped in `_anchor`',
        'plusSafe': 'characters left unescaped in a key / value / sequence member of a mapping `_query` (beyond the always-safe ones; space is `+`)',
    }
    for k in SITES:
        L.append('/-- %s -/' % doc[k])
        L.append('def %s : List UInt8 := %s' % (k, lean_list(sets[k])))
        L.append('')
    L.append("/-- the interpreter's urllib.parse._ALWAYS_SAFE -/")
    L.append('def alwaysSafe : List UInt8 := %s' % lean_list(always))
    L.append('')
    L.append('/-- the named module constants (attribute values minus the always-safe characters; the probed set of the main site when one is missing) -/')
    for lean_name in ('constPathSegmentSafe', 'constPathSafe', 'constQuerySafe', 'constAnchorSafe'):
        L.append('def %s : List UInt8 := %s' % (lean_name, lean_list(consts[lean_name])))
    L.append('')
    L.append('end Pyr.Url.Gen')
    return {'PyramidModel/Gen/C17.lean': '\n'.join(L) + '\n'}


if __name__ == '__main__':
    for k, v in generate(sys.argv[1] if len(sys.argv) > 1 else '/repo/src').items():
        print(v)
    print(summary)
