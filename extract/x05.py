"""Translator for X05: regenerates, by RUNNING the code of the tree under test (src/pyramid/authentication.py,
src/pyramid/security.py, src/pyramid/authorization.py, in a fresh interpreter with `src_root` first on the path), the
behavioural tables the authentication-policy model rests on.  No AST matching: a refactoring that keeps the behaviour leaves
the tables unchanged, a change of behaviour inside the probed domain changes them and the `decide`d obligations of
Props/X05.lean fail.

Probed facts (Lean data in Gen/X05.lean):
 * everyoneConst / authenticatedConst     pyramid.authorization.Everyone / Authenticated
 * refusedProbe    (class index, candidate principal, refused?) for `_clean_principal` of each of the four policy classes over a
                   candidate list (the two system principals, near misses in case / padding, '', ints); a row is emitted only
                   when a kept principal comes back unchanged
 * spaceCodes      every code point c with (chr(c) + 'x').strip() != chr(c) + 'x'      (what `auth.strip()` removes)
 * lowerIntoBasic  every code point whose str.lower() consists of letters of 'basic'     (what `authmeth.lower()` can fold in)
 * parserCube      (header, outcome) of extract_http_basic_credentials over schemes x separators x payloads and a payload list
 * policyCube      (flavour, claimed userid, callback mode, authenticated_userid, effective_principals, principals the
                   authorization policy is handed by LegacySecurityPolicy.permits) for the four policy classes
                   flavour 0 RemoteUser, 1 Session, 2 RepozeWho1, 3 BasicAuth, 4 RepozeWho1 without identity,
                   5 RepozeWho1 with an identity that lacks the userid key; callback mode 0 none, 1 answers None, 2 [], 3 [g1, g2]
 * challengeProbe  (realm, forget() headers of BasicAuthAuthenticationPolicy)
 * noPolicyProbe   (class name, truthiness, msg) of request.has_permission without a security policy
 * legacyForgetKw  LegacySecurityPolicy.forget(request, x=1) raises ValueError
Fail closed: any exception, inconsistency or time-out makes `probeStatus` an "unknown: …" string and empties the tables.
"""
import json, os, subprocess, sys

summary = {}

SCHEMES = ['Basic', 'basic', 'BASIC', 'bAsIc', 'Basi', 'Basicc', 'Bearer', '', 'Basic:', 'basıc']
SEPS = [' ', '  ', '\t', '']
PAYLOADS = ['ZnJlZDpwdw==', 'ZnJlZDpwOnc=', 'Og==', 'ZnJlZA==', '', 'ZnJlZDpwdw', 'w6k6w7w=', '/zrp', 'Zg', 'ZnJl ZDpw\tdw==  ']
EXTRA = ['Basic', 'Basic ' + 'Z', 'Basic =Og==', 'Basic Og==Og==', 'Basic ZnJlZDpwdw==ZnJlZDpwdw==', 'Basic \xa0Og==\x85', 'Basic OgĀ',
         'Basic  Og==', 'Basic 4oKsOjo6', 'Basic 8J+YgDo=', 'Basic wDo=', 'Basic 7aCAOg==', 'Basic !!!!', 'Basic Og=', 'Basic O', 'basic\x0bOg==',
         ' Basic Og==', 'Basic Ojo=', 'Basic YTpiOmM6ZA==', 'Basic w6k6/w==']


def _probe():
    out = {}
    try:
        import warnings
        warnings.simplefilter('ignore')
        import pyramid.authentication as A
        import pyramid.security as S
        import pyramid.authorization as Z
        from pyramid.request import Request
        from pyramid.registry import Registry
        from pyramid.interfaces import IAuthenticationPolicy, IAuthorizationPolicy
        out['module'] = [os.path.realpath(m.__file__) for m in (A, S, Z)]
        Everyone, Authenticated = Z.Everyone, Z.Authenticated
        if not (isinstance(Everyone, str) and isinstance(Authenticated, str)):
            raise RuntimeError('system principals are not strings')
        out['everyone'], out['authenticated'] = Everyone, Authenticated

        def prin(v):
            if v is None or (isinstance(v, (str, int)) and not isinstance(v, bool)):
                return v
            raise RuntimeError('a principal outside None/str/int came back: %r' % (v,))

        def mk(kind, cb):
            if kind == 0: return A.RemoteUserAuthenticationPolicy(callback=cb)
            if kind == 1: return A.SessionAuthenticationPolicy(callback=cb)
            if kind in (2, 4, 5): return A.RepozeWho1AuthenticationPolicy(callback=cb)
            return A.BasicAuthAuthenticationPolicy(check=(lambda u, p, r: cb(u, r)) if cb else (lambda u, p, r: None))
        # refused principals
        cands = [Everyone, Authenticated, Everyone.lower(), Authenticated.upper(), Everyone + ' ', ' ' + Authenticated, Everyone[:-1],
                 'Everyone', 'Authenticated', 'system.Anonymous', '', 'fred', 0, 1, -1]
        refused = []
        for k in range(4):
            pol = mk(k, None)
            for c in cands:
                r = pol._clean_principal(c)
                if r is None:
                    refused.append([k, c, True])
                elif r is c or r == c and type(r) is type(c):
                    refused.append([k, c, False])
                else:
                    raise RuntimeError('_clean_principal(%r) = %r' % (c, r))
        out['refused'] = refused
        # interpreter facts the parser model relies on
        cps = [c for c in range(0x110000) if not 0xD800 <= c <= 0xDFFF]
        out['space'] = [c for c in cps if (chr(c) + 'x').strip() != chr(c) + 'x']
        if out['space'] != [c for c in cps if ('x' + chr(c)).strip() != 'x' + chr(c)]:
            raise RuntimeError('strip is not symmetric')
        out['lower'] = [c for c in cps if all(x in 'basic' for x in chr(c).lower())]
        # parser cube
        import base64

        def parse(h):
            req = Request.blank('/')
            if h is not None:
                req.environ['HTTP_AUTHORIZATION'] = h
            try:
                r = A.extract_http_basic_credentials(req)
            except UnicodeEncodeError:
                return 'raises'
            if r is None:
                return None
            u, p = r
            if not (isinstance(u, str) and isinstance(p, str) and r.username == u and r.password == p and bool(r)):
                raise RuntimeError('credentials of an unexpected shape: %r' % (r,))
            return [u, p]
        headers = [None, ''] + [s + sep + p for s in SCHEMES for sep in SEPS for p in PAYLOADS] + EXTRA
        out['parser'] = [[h, parse(h)] for h in headers]
        # policy cube
        G = {0: 'nocb', 1: None, 2: [], 3: ['g1', 'g2']}
        uids = [None, 'fred', '', Everyone, Authenticated, 7]
        cube = []
        for kind in range(6):
            for uid in uids:
                if kind == 3 and not (uid is None or isinstance(uid, str)):
                    continue
                if kind in (4, 5) and uid is not None:
                    continue
                for mode in range(4):
                    if kind == 3 and mode == 0:
                        continue
                    cb = None if mode == 0 else (lambda g: lambda arg, request: None if g is None else list(g))(G[mode])
                    pol = mk(kind, cb)
                    reg = Registry('x05probe')
                    seen = []

                    class Authz:
                        def permits(self, context, principals, permission):
                            seen.append((context, [prin(p) for p in principals], permission))
                            return S.Allowed('ok')
                    reg.registerUtility(pol, IAuthenticationPolicy)
                    reg.registerUtility(Authz(), IAuthorizationPolicy)

                    def req():
                        r = Request.blank('/')
                        r.registry = reg
                        r.session = {}
                        if kind == 0 and uid is not None: r.environ['REMOTE_USER'] = uid
                        if kind == 1 and uid is not None: r.session['auth.userid'] = uid
                        if kind == 2: r.environ['repoze.who.identity'] = {'repoze.who.userid': uid}
                        if kind == 5: r.environ['repoze.who.identity'] = {}
                        if kind == 3 and uid is not None:
                            r.environ['HTTP_AUTHORIZATION'] = 'Basic ' + base64.b64encode((uid + ':pw').encode()).decode()
                        return r

                    def att(f):
                        try:
                            return {'ok': f()}
                        except KeyError:
                            return {'err': 'KeyError'}
                    a = att(lambda: prin(pol.authenticated_userid(req())))
                    e = att(lambda: [prin(p) for p in pol.effective_principals(req())])
                    ctx = object()
                    s = att(lambda: bool(S.LegacySecurityPolicy().permits(req(), ctx, 'view')))
                    if 'ok' in s:
                        if len(seen) != 1 or seen[0][0] is not ctx or seen[0][2] != 'view' or s['ok'] is not True:
                            raise RuntimeError('LegacySecurityPolicy.permits did not hand context/permission through')
                        s = {'ok': seen[0][1]}
                    cube.append([kind, uid, mode, a, e, s])
        out['cube'] = cube
        out['challenge'] = [[realm, [list(h) for h in A.BasicAuthAuthenticationPolicy(None, realm=realm).forget(Request.blank('/'))]]
                            for realm in ['Realm', '', 'a"b', 'Ünï']]
        r = Request.blank('/')
        r.registry = Registry('x05probe2')
        hp = r.has_permission('view', context=object())
        out['nopolicy'] = [type(hp).__name__, bool(hp), hp.msg, r.authenticated_userid is None and r.identity is None and r.is_authenticated is False,
                           S.remember(r, 'fred') == [] and S.forget(r) == []]
        reg = Registry('x05probe3')
        reg.registerUtility(A.RemoteUserAuthenticationPolicy(), IAuthenticationPolicy)
        r = Request.blank('/'); r.registry = reg
        try:
            S.LegacySecurityPolicy().forget(r, x=1)
            out['forget_kw'] = 'returned'
        except ValueError:
            out['forget_kw'] = 'ValueError'
        out['status'] = 'ok'
    except BaseException as e:      # noqa — fail closed
        out = {'status': 'unknown: %s: %s' % (type(e).__name__, str(e)[:200])}
    return out


def facts(src_root):
    py = '/venv/bin/python' if os.path.exists('/venv/bin/python') else sys.executable
    env = dict(os.environ, PYTHONPATH=src_root, PYTHONWARNINGS='ignore')
    try:
        p = subprocess.run([py, os.path.abspath(__file__), '--probe', src_root], env=env, stdout=subprocess.PIPE, stderr=subprocess.PIPE,
                           timeout=300)
        f = json.loads(p.stdout.decode().strip().splitlines()[-1])
    except Exception as e:          # noqa
        return {'status': 'unknown: probe did not answer: %s' % type(e).__name__}
    if f.get('status') == 'ok':
        want = [os.path.realpath(os.path.join(src_root, 'pyramid', n)) for n in ('authentication.py', 'security.py', 'authorization.py')]
        if f.get('module') != want:
            return {'status': 'unknown: the probe imported %s, not the tree under test' % f.get('module')}
        for k in ('refused', 'space', 'lower', 'parser', 'cube', 'challenge', 'nopolicy'):
            if not isinstance(f.get(k), list):
                return {'status': 'unknown: probe answer lacks %s' % k}
    return f


def _txt(s):
    return 'T [' + ', '.join(str(ord(c)) for c in s) + ']'


def _prin(v):
    if isinstance(v, str):
        return '(.str (%s))' % _txt(v)
    return '(.int (%d))' % v


def _oprin(v):
    return 'none' if v is None else '(some %s)' % _prin(v)


def _prins(vs):
    return '[' + ', '.join(_prin(v) for v in vs) + ']'


def _bool(b):
    return 'true' if b else 'false'


def _res(r, f):
    return 'none' if 'err' in r else '(some %s)' % f(r['ok'])


def _parse(o):
    if o is None:
        return '.none'
    if o == 'raises':
        return '.raises'
    return '(.creds (%s) (%s))' % (_txt(o[0]), _txt(o[1]))


def generate(src_root):
    f = facts(src_root)
    ok = f.get('status') == 'ok'
    status = f.get('status', 'unknown: no status')
    summary.clear()
    summary.update({'status': status, 'refused': [r[:2] for r in f.get('refused', []) if r[2] and r[0] == 0],
                    'parser_rows': len(f.get('parser', [])), 'cube_rows': len(f.get('cube', [])), 'space': f.get('space'),
                    'lower': f.get('lower'), 'nopolicy': f.get('nopolicy')})
    g = (lambda k: f[k]) if ok else (lambda k: [])
    np_ = f['nopolicy'] if ok else ['', False, '', False, False]
    L = ['/- GENERATED by extract/x05.py by probing the running code of src/pyramid/authentication.py, security.py and',
         '   authorization.py — do not edit. -/',
         'import PyramidModel.AuthPolicy',
         'namespace Pyr.AuthPolicy.Gen', '',
         'def T (cs : List Nat) : Text := cs.map Char.ofNat', '',
         '/-- "ok", or why the probe of the tree under test could not be trusted -/',
         'def probeStatus : Text := %s' % _txt(status.replace('\n', ' ')), '',
         'def everyoneConst : Text := %s' % _txt(f['everyone'] if ok else ''),
         'def authenticatedConst : Text := %s' % _txt(f['authenticated'] if ok else ''), '',
         '/-- (policy class, candidate, `_clean_principal` refuses it) -/',
         'def refusedProbe : List (Nat × Prin × Bool) := [',
         ',\n'.join('  (%d, %s, %s)' % (k, _prin(c), _bool(r)) for k, c, r in g('refused')), ']', '',
         '/-- code points `str.strip()` removes -/',
         'def spaceCodes : List Nat := %s' % json.dumps(g('space')), '',
         '/-- code points whose `str.lower()` consists of letters of "basic" -/',
         'def lowerIntoBasic : List Nat := %s' % json.dumps(g('lower')), '',
         '/-- (Authorization header, what `extract_http_basic_credentials` answers) -/',
         'def parserCube : List (Option Text × Parse) := [',
         ',\n'.join('  (%s, %s)' % ('none' if h is None else '(some (%s))' % _txt(h), _parse(o)) for h, o in g('parser')), ']', '',
         '/-- (flavour, claimed userid, callback mode, authenticated_userid, effective_principals, principals handed to the',
         'authorization policy by LegacySecurityPolicy.permits); `none` = KeyError -/',
         'def policyCube : List (Nat × Option Prin × Nat × Option (Option Prin) × Option (List Prin) × Option (List Prin)) := [',
         ',\n'.join('  (%d, %s, %d, %s, %s, %s)' % (k, _oprin(u), m, _res(a, _oprin), _res(e, _prins), _res(s, _prins))
                    for k, u, m, a, e, s in g('cube')), ']', '',
         '/-- (realm, headers of `BasicAuthAuthenticationPolicy.forget`) -/',
         'def challengeProbe : List (Text × List (Text × Text)) := [',
         ',\n'.join('  (%s, [%s])' % (_txt(r), ', '.join('(%s, %s)' % (_txt(a), _txt(b)) for a, b in hs)) for r, hs in g('challenge')), ']', '',
         '/-- `has_permission` without a policy: (class name, truthiness, msg, the userid/identity properties are None/False,',
         '`remember` / `forget` return []) -/',
         'def noPolicyProbe : Text × Bool × Text × Bool × Bool := (%s, %s, %s, %s, %s)' % (_txt(np_[0]), _bool(np_[1]), _txt(np_[2]), _bool(np_[3]), _bool(np_[4])), '',
         '/-- `LegacySecurityPolicy.forget(request, x=1)` raises ValueError -/',
         'def legacyForgetKwRaises : Bool := %s' % _bool(ok and f.get('forget_kw') == 'ValueError'), '',
         'end Pyr.AuthPolicy.Gen', '']
    return {'PyramidModel/Gen/X05.lean': '\n'.join(L)}


if __name__ == '__main__':
    if len(sys.argv) > 2 and sys.argv[1] == '--probe':
        print(json.dumps(_probe()))
    else:
        print(generate(sys.argv[1] if len(sys.argv) > 1 else '/repo/src')['PyramidModel/Gen/X05.lean'])
