"""Translator for C03/C14: regenerates lean/PyramidModel/Gen/C03Tables.lean from the source tree.

What is read (python `ast`, nothing is executed):
  * config/views.py  `add_default_view_predicates`  -> the default predicate names, in order
  * config/predicates.py `MAX_ORDER = 1 << K`, and in `PredicateList.make` the two arithmetic shapes
       `weights.append(1 << n + 1)`  and  `order = (MAX_ORDER - score) // (len(preds) + 1)`
  * view.py `_find_views`: the loop `for req_type, ctx_type in itertools.product(R.__sro__, C.__sro__)`
       (which SRO is the outer one), the order of `source_ifaces = (classifier, req, ctx)` and the default
       `view_types` tuple
  * config/views.py `register_view`: the tuple of view types probed for an old view
Anything with an unexpected shape is emitted as the string "unknown" / a sentinel number so that the
theorems over the table (Props/C03.lean, `decide`d) and the model's correspondence fail rather than guess.
"""
import ast, os

summary = {}


def _find_func(tree, name):
    for node in ast.walk(tree):
        if isinstance(node, (ast.FunctionDef,)) and node.name == name:
            return node
    return None


def _names_of_tuple(node):
    if isinstance(node, (ast.Tuple, ast.List)) and all(isinstance(e, ast.Name) for e in node.elts):
        return [e.id for e in node.elts]
    return None


def _pred_names(tree):
    f = _find_func(tree, 'add_default_view_predicates')
    if f is None:
        return None
    for node in ast.walk(f):
        if isinstance(node, ast.For) and isinstance(node.iter, (ast.Tuple, ast.List)):
            out = []
            for e in node.iter.elts:
                if not (isinstance(e, ast.Tuple) and len(e.elts) == 2 and isinstance(e.elts[0], ast.Constant)
                        and isinstance(e.elts[0].value, str)):
                    return None
                out.append(e.elts[0].value)
            # the loop body must be exactly self.add_view_predicate(name, factory)
            body = node.body
            if not (len(body) == 1 and isinstance(body[0], ast.Expr) and isinstance(body[0].value, ast.Call)
                    and isinstance(body[0].value.func, ast.Attribute) and body[0].value.func.attr == 'add_view_predicate'
                    and len(body[0].value.args) == 2 and not body[0].value.keywords):
                return None
            return out
    return None


def _max_order(tree):
    for node in tree.body:
        if isinstance(node, ast.Assign) and len(node.targets) == 1 and isinstance(node.targets[0], ast.Name) \
                and node.targets[0].id == 'MAX_ORDER':
            v = node.value
            if isinstance(v, ast.BinOp) and isinstance(v.op, ast.LShift) and isinstance(v.left, ast.Constant) \
                    and isinstance(v.right, ast.Constant) and v.left.value == 1:
                return 1 << v.right.value
            if isinstance(v, ast.Constant) and isinstance(v.value, int):
                return v.value
    return None


def _make_shapes(tree):
    """(weight shift addend, divisor addend) or None"""
    f = _find_func(tree, 'make')
    if f is None:
        return None
    shift = div = None
    for node in ast.walk(f):
        # weights.append(1 << n + 1)
        if isinstance(node, ast.Call) and isinstance(node.func, ast.Attribute) and node.func.attr == 'append' \
                and isinstance(node.func.value, ast.Name) and node.func.value.id == 'weights' and len(node.args) == 1:
            a = node.args[0]
            if isinstance(a, ast.BinOp) and isinstance(a.op, ast.LShift) and isinstance(a.left, ast.Constant) and a.left.value == 1 \
                    and isinstance(a.right, ast.BinOp) and isinstance(a.right.op, ast.Add) \
                    and isinstance(a.right.left, ast.Name) and a.right.left.id == 'n' \
                    and isinstance(a.right.right, ast.Constant):
                shift = a.right.right.value
            else:
                return None
        # order = (MAX_ORDER - score) // (len(preds) + 1)
        if isinstance(node, ast.Assign) and len(node.targets) == 1 and isinstance(node.targets[0], ast.Name) \
                and node.targets[0].id == 'order':
            v = node.value
            ok = (isinstance(v, ast.BinOp) and isinstance(v.op, ast.FloorDiv)
                  and isinstance(v.left, ast.BinOp) and isinstance(v.left.op, ast.Sub)
                  and isinstance(v.left.left, ast.Name) and v.left.left.id == 'MAX_ORDER'
                  and isinstance(v.left.right, ast.Name) and v.left.right.id == 'score'
                  and isinstance(v.right, ast.BinOp) and isinstance(v.right.op, ast.Add)
                  and isinstance(v.right.left, ast.Call) and isinstance(v.right.left.func, ast.Name)
                  and v.right.left.func.id == 'len' and isinstance(v.right.right, ast.Constant))
            if not ok:
                return None
            div = v.right.right.value
    # score must be accumulated with `|`
    ors = [n for n in ast.walk(f) if isinstance(n, ast.Assign) and isinstance(n.targets[0], ast.Name)
           and n.targets[0].id == 'score' and isinstance(n.value, ast.BinOp)]
    if len(ors) != 1 or not isinstance(ors[0].value.op, ast.BitOr):
        return None
    if shift is None or div is None:
        return None
    return shift, div


def _find_views_shape(tree):
    """(request_major: bool, source order ok: bool, view_types list) or None"""
    f = _find_func(tree, '_find_views')
    if f is None:
        return None
    major = None
    src_ok = None
    vtypes = None
    loopvars = None
    for node in ast.walk(f):
        if isinstance(node, ast.For) and isinstance(node.iter, ast.Call):
            c = node.iter
            fn = c.func
            if isinstance(fn, ast.Attribute) and fn.attr == 'product' and len(c.args) == 2 and not c.keywords:
                def sro_of(a):
                    if isinstance(a, ast.Attribute) and a.attr == '__sro__' and isinstance(a.value, ast.Name):
                        return a.value.id
                    return None
                a0, a1 = sro_of(c.args[0]), sro_of(c.args[1])
                tv = _names_of_tuple(node.target)
                if a0 is None or a1 is None or tv is None or len(tv) != 2:
                    return None
                loopvars = {tv[0]: a0, tv[1]: a1}
                if (a0, a1) == ('request_iface', 'context_iface'):
                    major = True
                elif (a0, a1) == ('context_iface', 'request_iface'):
                    major = False
                else:
                    return None
        if isinstance(node, ast.Assign) and isinstance(node.targets[0], ast.Name) and node.targets[0].id == 'source_ifaces':
            names = _names_of_tuple(node.value)
            if names is None or len(names) != 3 or loopvars is None:
                return None
            src_ok = (names[0] == 'view_classifier' and loopvars.get(names[1]) == 'request_iface'
                      and loopvars.get(names[2]) == 'context_iface')
        if isinstance(node, ast.Assign) and isinstance(node.targets[0], ast.Name) and node.targets[0].id == 'view_types':
            vtypes = _names_of_tuple(node.value)
    if major is None or src_ok is None or vtypes is None:
        return None
    # the nested `for view_type in view_types` must be inside the product loop
    inner = False
    for node in ast.walk(f):
        if isinstance(node, ast.For) and isinstance(node.iter, ast.Call):
            for sub in ast.walk(node):
                if sub is not node and isinstance(sub, ast.For) and isinstance(sub.iter, ast.Name) and sub.iter.id == 'view_types':
                    inner = True
    if not inner:
        return None
    return major, src_ok, vtypes


def _register_types(tree):
    f = _find_func(tree, 'register_view')
    if f is None:
        return None
    for node in f.body:
        for sub in ast.walk(node):
            if isinstance(sub, ast.For) and isinstance(sub.target, ast.Name) and sub.target.id == 'view_type':
                names = _names_of_tuple(sub.iter)
                if names and len(names) == 3:
                    return names
    return None


def _lean_str_list(xs):
    return '[' + ', '.join('"%s"' % x for x in xs) + ']'


def generate(src_root):
    p = os.path.join(src_root, 'pyramid')
    views = ast.parse(open(os.path.join(p, 'config', 'views.py')).read())
    preds = ast.parse(open(os.path.join(p, 'config', 'predicates.py')).read())
    view = ast.parse(open(os.path.join(p, 'view.py')).read())
    names = _pred_names(views)
    mo = _max_order(preds)
    shapes = _make_shapes(preds)
    fv = _find_views_shape(view)
    rt = _register_types(views)
    unknown = []
    if names is None:
        names = ['unknown']; unknown.append('add_default_view_predicates')
    if mo is None:
        mo = 0; unknown.append('MAX_ORDER')
    if shapes is None:
        shapes = (0, 0); unknown.append('PredicateList.make arithmetic')
    if fv is None:
        fv = (False, False, ['unknown']); unknown.append('_find_views loop')
    if rt is None:
        rt = ['unknown']; unknown.append('register_view view types')
    summary.clear()
    summary.update({'pred_names': names, 'max_order': mo, 'weight_shift_plus': shapes[0], 'order_div_plus': shapes[1],
                    'request_major': fv[0], 'source_ifaces_order_ok': fv[1], 'view_types': fv[2],
                    'register_view_types': rt, 'unknown': unknown})
    text = '''/- GENERATED by extract/c03.py from src/pyramid (config/views.py, config/predicates.py, view.py).
   Do not edit: rewritten on every check.  "unknown" / 0 entries mean the translator did not recognise the source. -/
namespace Pyr.Gen.C03

/-- `add_default_view_predicates`: predicate names in registration (= weight) order -/
def predNames : List String := %s

/-- `MAX_ORDER` -/
def maxOrder : Nat := %d

/-- `weights.append(1 << n + K)`: K -/
def weightShiftPlus : Nat := %d

/-- `order = (MAX_ORDER - score) // (len(preds) + K)`: K -/
def orderDivPlus : Nat := %d

/-- `_find_views`: `itertools.product(request_iface.__sro__, context_iface.__sro__)` (request SRO is the outer loop) -/
def requestMajor : Bool := %s

/-- `source_ifaces = (view_classifier, req_type, ctx_type)` with the loop variables bound in that order -/
def sourceIfacesOk : Bool := %s

/-- default `view_types` tuple of `_find_views` (inner loop) -/
def viewTypes : List String := %s

/-- the tuple probed by `register_view` for a previously registered view -/
def registerViewTypes : List String := %s

end Pyr.Gen.C03
''' % (_lean_str_list(names), mo, shapes[0], shapes[1], 'true' if fv[0] else 'false', 'true' if fv[1] else 'false',
       _lean_str_list(fv[2]), _lean_str_list(rt))
    return {'PyramidModel/Gen/C03Tables.lean': text}


if __name__ == '__main__':
    import sys
    for k, v in generate(sys.argv[1] if len(sys.argv) > 1 else '/repo/src').items():
        print(v)
    print(summary)
