"""Translator for C03/C14: regenerates lean/PyramidModel/Gen/C03Tables.lean from the source tree.

Robustness round: every generated fact is now a BEHAVIOURAL table obtained by RUNNING the code of the tree under
test (in a child interpreter whose sys.path starts with `src_root`, with a timeout), not by matching its AST:

  * default predicate order      `Configurator().get_predlist('view')`: the names of the predicate sorter, cross-checked
                                 against the order in which `PredicateList.make` returns the predicates of a call that
                                 uses all of them
  * order arithmetic             `PredicateList.make` on the empty set, every single default predicate, every pair,
                                 every triple, all of them, and two `custom=predvalseq(..)` calls with 2 / 3 predicates
                                 of the SAME name (tells `|` from `+`): rows (positions of the returned predicates,
                                 observed `order`).  MAX_ORDER, the addend of `1 << n + K` and of `// (len + K)` are the
                                 unique parameters (K_shift in 0..3, K_div in 1..3, MAX from the empty row) that
                                 reproduce ALL rows with an or-ed score; the rows themselves are emitted as
                                 `orderProbes` and Props/C03.lean decides the model's closed form over the whole table.
  * `_find_views` iteration      a scratch `Registry` with a marker registered for every (request iface, context iface,
                                 view type) of two 3-element resolution orders (27 markers); the order of the returned
                                 list gives the outer loop, the binding order of the triple (a swapped triple finds
                                 nothing) and the inner `view_types` tuple; emitted also as `findViewsProbe`
  * `register_view` probe tuple  `add_view` on an autocommitting scratch Configurator whose `registry.adapters` logs the
                                 `registered(...)` calls for the probe's view name

Fail closed: any exception, timeout, import from another tree, incomplete / inconsistent observation makes the fact
"unknown" / 0 / false / an empty table, and the obligations in Props/C03.lean (whole-table `decide`) fail.
No AST extraction is left in this translator.
"""
import json, os, subprocess, sys

summary = {}

_PROBE = r'''
import sys, os, json, itertools, warnings
src = sys.argv[1]
sys.path.insert(0, src)
warnings.simplefilter('ignore')
out = {}


def guard(key, fn):
    try:
        out[key] = fn()
    except BaseException as e:          # fail closed, whatever it is
        out[key] = {'error': '%s: %s' % (type(e).__name__, str(e)[:200])}


import pyramid
out['pyramid_file'] = os.path.realpath(pyramid.__file__)


def probe_predicates():
    from pyramid.config import Configurator
    from pyramid.registry import predvalseq
    from pyramid.interfaces import IRequest
    config = Configurator(autocommit=True)
    predlist = config.get_predlist('view')
    ordered = list(predlist.sorter.sorted())
    names = [n for n, _ in ordered]
    factories = [f for _, f in ordered]
    if len(set(names)) != len(names) or len(set(map(id, factories))) != len(factories):
        raise ValueError('duplicate predicate names/factories')

    class Ctx:
        pass
    f1 = lambda context, request: True
    f2 = lambda context, request: False
    f3 = lambda context, request: True
    values = {'xhr': True, 'request_method': 'GET', 'path_info': '/a', 'request_param': 'a', 'header': 'X-A',
              'accept': 'text/html', 'containment': Ctx, 'request_type': IRequest, 'match_param': 'a=1',
              'physical_path': '/a', 'is_authenticated': True, 'effective_principals': 'x',
              'custom': predvalseq((f1,))}

    def row(kw):
        order, preds, phash = predlist.make(config, **dict(kw))
        kinds = []
        for p in preds:
            hits = [i for i, f in enumerate(factories) if type(p) is f]
            if len(hits) != 1:
                raise ValueError('predicate object of unexpected type %r' % type(p))
            kinds.append(hits[0])
        if isinstance(order, bool) or not isinstance(order, int) or order < 0:
            raise ValueError('order is not a natural number: %r' % (order,))
        return [kinds, order]

    rows = []
    idx = range(len(names))
    for k in (0, 1, 2, 3):
        for sub in itertools.combinations(idx, k):
            r = row({names[i]: values[names[i]] for i in sub})
            if r[0] != list(sub):
                raise ValueError('make returned predicates %r for the names at %r' % (r[0], sub))
            rows.append(r)
    full = row({n: values[n] for n in names})
    if full[0] != list(idx):
        raise ValueError('make does not iterate the predicate names in sorter order: %r' % (full[0],))
    rows.append(full)
    if 'custom' in names:
        c = names.index('custom')
        r2 = row({'custom': predvalseq((f1, f2))})
        r3 = row({'custom': predvalseq((f1, f2, f3)), names[0]: values[names[0]]})
        if r2[0] != [c, c] or r3[0] != ([0, c, c, c] if c != 0 else [c, c, c]):
            raise ValueError('unexpected predicates for custom=predvalseq(..)')
        rows += [r2, r3]
    else:
        raise ValueError('no custom predicate: cannot tell | from +')
    from pyramid.config import predicates as cp
    return {'names': names, 'rows': rows, 'module_max_order': getattr(cp, 'MAX_ORDER', None)}


def probe_find_views():
    from zope.interface import Interface
    from zope.interface.interface import InterfaceClass
    from pyramid.registry import Registry
    from pyramid.interfaces import IView, ISecuredView, IMultiView, IViewClassifier
    from pyramid.view import _find_views
    R1 = InterfaceClass('R1', (Interface,))
    R2 = InterfaceClass('R2', (R1,))
    C1 = InterfaceClass('C1', (Interface,))
    C2 = InterfaceClass('C2', (C1,))
    rs, cs = tuple(R2.__sro__), tuple(C2.__sro__)
    if rs != (R2, R1, Interface) or cs != (C2, C1, Interface):
        raise ValueError('unexpected resolution orders')
    types = {'IView': IView, 'ISecuredView': ISecuredView, 'IMultiView': IMultiView}
    registry = Registry('c03probe')
    markers = {}
    for qi, q in enumerate(rs):
        for ci, c in enumerate(cs):
            for tn, t in types.items():
                m = ('marker', qi, ci, tn)
                markers[m] = [qi, ci, tn]
                registry.registerAdapter(m, (IViewClassifier, q, c), t, name='c03probe')
    first = _find_views(registry, R2, C2, 'c03probe')
    again = _find_views(registry, R2, C2, 'c03probe')
    other = _find_views(registry, R2, C2, 'c03probe-unregistered')
    if list(first) != list(again):
        raise ValueError('two identical lookups differ')
    if list(other):
        raise ValueError('a name nobody registered finds views')
    return [markers[m] for m in first]


def probe_register_view():
    from pyramid.config import Configurator
    config = Configurator(autocommit=True)
    real = config.registry.adapters
    log = []

    class Adapters:
        def __getattr__(self, name):
            return getattr(real, name)

        def registered(self, required, provided, name=''):
            log.append((tuple(required), provided, name))
            return real.registered(required, provided, name)
    config.registry.adapters = Adapters()
    try:
        config.add_view(lambda context, request: None, name='c03probe')
    finally:
        config.registry.adapters = real
    mine = [e for e in log if e[2] == 'c03probe']
    if len({e[0] for e in mine}) != 1:
        raise ValueError('probes for more than one (or no) triple: %d' % len({e[0] for e in mine}))
    return [e[1].__name__ for e in mine]


guard('predicates', probe_predicates)
guard('find_views', probe_find_views)
guard('register_view', probe_register_view)
sys.stdout.write('\nC03PROBE ' + json.dumps(out) + '\n')
'''


def run_probe(src_root, timeout=120):
    """observations of the tree under `src_root`, or {'error': ...}"""
    try:
        p = subprocess.run([sys.executable, '-c', _PROBE, src_root], stdout=subprocess.PIPE, stderr=subprocess.PIPE,
                           timeout=timeout, cwd=src_root)
        lines = [l for l in p.stdout.decode(errors='replace').splitlines() if l.startswith('C03PROBE ')]
        if not lines:
            return {'error': 'probe produced no result (rc=%s): %s' % (p.returncode, p.stderr.decode(errors='replace')[-400:])}
        obs = json.loads(lines[-1][len('C03PROBE '):])
    except Exception as e:
        return {'error': 'probe failed: %s: %s' % (type(e).__name__, str(e)[:300])}
    want = os.path.realpath(os.path.join(src_root, 'pyramid')) + os.sep
    if not str(obs.get('pyramid_file', '')).startswith(want):
        return {'error': 'probe imported pyramid from %s, not from %s' % (obs.get('pyramid_file'), want)}
    return obs


def _bad(v):
    return not v or (isinstance(v, dict) and 'error' in v)


def _fit_arithmetic(rows):
    """the unique (MAX_ORDER, K_shift, K_div) that reproduces every probed row with an or-ed score, else None"""
    empty = [r for r in rows if r[0] == []]
    if len(empty) != 1:
        return None
    e = empty[0][1]
    fits = []
    for kd in (1, 2, 3):
        for mx in sorted({e * kd + r for r in range(kd)}):
            for ks in (0, 1, 2, 3):
                ok = True
                for kinds, order in rows:
                    score = 0
                    for k in kinds:
                        score |= 1 << (k + ks)
                    if mx - score < 0 or (mx - score) // (len(kinds) + kd) != order:
                        ok = False
                        break
                if ok:
                    fits.append((mx, ks, kd))
    return fits[0] if len(fits) == 1 else None


def _find_views_shape(seq):
    """(request_major, triple_order_ok, view_types) from the observed marker sequence, else None"""
    if _bad(seq) or len(seq) != 27 or len({tuple(x) for x in seq}) != 27:
        return None
    vtypes = [t for _, _, t in seq[:3]]
    if len(set(vtypes)) != 3:
        return None
    req_major = [[q, c, t] for q in range(3) for c in range(3) for t in vtypes]
    ctx_major = [[q, c, t] for c in range(3) for q in range(3) for t in vtypes]
    if seq == req_major:
        return True, True, vtypes
    if seq == ctx_major:
        return False, True, vtypes
    return None


def _lean_str_list(xs):
    return '[' + ', '.join('"%s"' % x for x in xs) + ']'


def generate(src_root):
    obs = run_probe(src_root)
    unknown = []
    if 'error' in obs:
        unknown.append(obs['error'])
        obs = {}
    pr = obs.get('predicates')
    names, rows, fit = ['unknown'], [], None
    if _bad(pr):
        unknown.append('PredicateList.make probe: %s' % ((pr or {}).get('error', 'missing'),))
    else:
        ok_names = isinstance(pr.get('names'), list) and pr['names'] and all(
            isinstance(n, str) and n.isidentifier() for n in pr['names'])
        if not ok_names:
            unknown.append('default predicate names')
        else:
            names = pr['names']
            rows = pr['rows']
            fit = _fit_arithmetic(rows)
            if fit is None:
                unknown.append('PredicateList.make arithmetic (no unique closed form fits the %d probed rows)' % len(rows))
            elif pr.get('module_max_order') != fit[0]:
                unknown.append('MAX_ORDER constant (%r) differs from the observed one (%r)' % (pr.get('module_max_order'), fit[0]))
                fit = None
    mo, shift, div = fit if fit else (0, 0, 0)
    fv_seq = obs.get('find_views')
    fv = _find_views_shape(fv_seq)
    if fv is None:
        unknown.append('_find_views probe: %s' % (fv_seq.get('error') if isinstance(fv_seq, dict) else
                                                  'unexpected sequence of %d markers' % len(fv_seq or [])))
        fv = (False, False, ['unknown'])
        fv_seq = fv_seq if isinstance(fv_seq, list) else []
    rt = obs.get('register_view')
    if _bad(rt) or not all(isinstance(x, str) and x.isidentifier() for x in rt):
        unknown.append('register_view probe: %s' % (rt.get('error') if isinstance(rt, dict) else rt))
        rt = ['unknown']
    summary.clear()
    summary.update({'pred_names': names, 'max_order': mo, 'weight_shift_plus': shift, 'order_div_plus': div,
                    'order_probe_rows': len(rows), 'request_major': fv[0], 'source_ifaces_order_ok': fv[1],
                    'view_types': fv[2], 'find_views_probe_len': len(fv_seq), 'register_view_types': rt,
                    'how': 'probed by running the tree under test (extract/c03.py child interpreter)',
                    'unknown': unknown})
    row_txt = ',\n  '.join('([%s], %d)' % (', '.join(str(k) for k in kinds), order) for kinds, order in rows)
    seq_txt = ', '.join('(%d, %d, "%s")' % (q, c, t) for q, c, t in fv_seq
                        if isinstance(q, int) and isinstance(c, int) and str(t).isidentifier())
    text = '''/- GENERATED by extract/c03.py by RUNNING src/pyramid (config/views.py, config/predicates.py, view.py) on probe
   inputs.  Do not edit: rewritten on every check.  "unknown" / 0 / empty entries mean a probe failed or was inconsistent. -/
namespace Pyr.Gen.C03

/-- default view predicate names in weight order (order in which `PredicateList.make` visits them) -/
def predNames : List String := %s

/-- `MAX_ORDER` (= observed `order` of the empty predicate list, and the module constant) -/
def maxOrder : Nat := %d

/-- `1 << n + K`: the K fitting every probed row -/
def weightShiftPlus : Nat := %d

/-- `order = (MAX_ORDER - score) // (len(preds) + K)`: the K fitting every probed row -/
def orderDivPlus : Nat := %d

/-- `PredicateList.make` observed: (positions of the returned predicates, returned `order`) for the empty set, every
single default predicate, every pair, every triple, all of them, and two calls with several `custom` predicates -/
def orderProbes : List (List Nat × Nat) := [
  %s
]

/-- `_find_views`: the request resolution order is the outer loop -/
def requestMajor : Bool := %s

/-- views are looked up under (classifier, request iface, context iface) in that order -/
def sourceIfacesOk : Bool := %s

/-- default `view_types` tuple of `_find_views` (inner loop) -/
def viewTypes : List String := %s

/-- `_find_views` observed on a scratch registry holding a marker for every (request iface index, context iface index,
view type) of two 3-element resolution orders: the returned markers, in order -/
def findViewsProbe : List (Nat × Nat × String) := [%s]

/-- the view types `register_view` asks `registered(...)` for, in order, when nothing is registered yet -/
def registerViewTypes : List String := %s

end Pyr.Gen.C03
''' % (_lean_str_list(names), mo, shift, div, row_txt, 'true' if fv[0] else 'false', 'true' if fv[1] else 'false',
       _lean_str_list(fv[2]), seq_txt, _lean_str_list(rt))
    return {'PyramidModel/Gen/C03Tables.lean': text}


if __name__ == '__main__':
    for k, v in generate(sys.argv[1] if len(sys.argv) > 1 else '/repo/src').items():
        print(v)
    print(summary)
