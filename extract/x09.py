"""Translator for X09: regenerates, by RUNNING the DottedNameResolver of the tree under test in a fresh interpreter
(`src_root` first on the path) over a synthetic package tree written into a temporary directory on sys.path, the behavioural
table the dotted-name model is checked against (Gen/X09.lean).  No AST matching: a refactoring that keeps the behaviour leaves
the table unchanged; a change of behaviour inside the probed cube changes it and the `decide`d obligation of Props/X09.lean
fails.

Probed cube: the fixed universe U0 of harness/x09.py (packages, modules, an attribute `qa.m` shadowing the submodule `qa/m.py`,
`qa.n` shadowing the package `qa/n/`, a module raising ImportError) x 15 constructor arguments (None, names of a package / a
module / a top-level module / a raising module / a missing module / malformed, module objects, CALLER_PACKAGE from three
callers) x 58 names (both styles, relative and absolute, '.', '..', ':', '', doubled / trailing dots, unicode) — once on a fresh
interpreter state and once with `qa.m` and `qa.sub.k` already imported.  Each row: constructor outcome and its imports, the
outcome of resolve(name), path.py's own __import__ / import_module calls, the modules the import system looked for, and the
universe's modules in sys.modules afterwards.
Fail closed: any exception / time-out / foreign pyramid makes `probeStatus` an "unknown: …" text and empties the table.
"""
import json, os, subprocess, sys

summary = {}
HERE = os.path.dirname(os.path.abspath(__file__))


def _probe(src_root):
    out = {}
    try:
        sys.path.insert(0, os.path.join(os.path.dirname(HERE), 'lib'))
        import importlib.util, random
        spec = importlib.util.spec_from_file_location('hx09', os.path.join(os.path.dirname(HERE), 'harness', 'x09.py'))
        H = importlib.util.module_from_spec(spec)
        spec.loader.exec_module(H)

        class Ctx:
            src = src_root
        M = H.mods(Ctx())
        out['module'] = os.path.realpath(M['P'].__file__)
        rows = []
        for pre in ([], ['qa.m', 'qa.sub.k']):
            for pk in (H.FIXED_PKGS if not pre else H.FIXED_PKGS[1:3] + H.FIXED_PKGS[12:13]):
                for s in H.FIXED_NAMES:
                    case = dict(H.U0, pre=pre, mode='dnr', pkg=pk, ops=[{'m': 'resolve', 's': s}])
                    if not H.well_formed(case):
                        raise RuntimeError('ill-formed probe case')
                    got = H.impl(M, case)
                    if got['init'] == 'invalid':
                        continue
                    if got['init'] != 'ok' and s != H.FIXED_NAMES[0]:
                        continue                      # the constructor failed: one row per argument is enough
                    rows.append({'pkg': pk, 'pre': pre, 'name': s, 'got': got})
        out['rows'] = rows
        out['universe'] = H.U0
        out['status'] = 'ok'
    except Exception as e:  # noqa
        out = {'status': 'unknown: %s: %s' % (type(e).__name__, str(e)[:200])}
    return out


def facts(src_root):
    py = '/venv/bin/python' if os.path.exists('/venv/bin/python') else sys.executable
    env = dict(os.environ, PYTHONPATH=src_root, PYTHONWARNINGS='ignore')
    try:
        p = subprocess.run([py, os.path.abspath(__file__), '--probe', src_root], env=env, stdout=subprocess.PIPE, stderr=subprocess.PIPE,
                           timeout=300)
        f = json.loads(p.stdout.decode().strip().splitlines()[-1])
    except Exception as e:          # noqa
        return {'status': 'unknown: probe did not answer: %s' % type(e).__name__}
    if f.get('status') == 'ok':
        if f.get('module') != os.path.realpath(os.path.join(src_root, 'pyramid', 'path.py')):
            return {'status': 'unknown: the probe imported %s, not the tree under test' % f.get('module')}
        if not isinstance(f.get('rows'), list):
            return {'status': 'unknown: probe answer lacks rows'}
    return f


def _txt(s):
    return 'T [' + ', '.join(str(ord(c)) for c in s) + ']'


def _path(s):
    return '[' + ', '.join(_txt(x) for x in s.split('.')) + ']'


def _texts(xs):
    return '[' + ', '.join(_txt(x) for x in xs) + ']'


ERR = {'ImportError': '.importError', 'AttributeError': '.attributeError', 'ValueErrorRel': '.relValueError', 'ValueError': '.valueError',
       'IndexError': '.indexError'}


def _out(o):
    if 'err' in o:
        return '(.err %s)' % ERR[o['err']]          # KeyError (an exception kind the model does not know) -> fail closed
    k, v = o['ok']
    if k == 'mod':
        return '(.obj (.mod %s))' % _path(v)
    if k == 'att':
        return '(.obj (.att %d))' % v
    if k == 'str':
        return '(.str (%s))' % _txt(v)
    if k == 'same':
        return '(.same %d)' % v
    raise KeyError(k)


def _pkg(pk):
    return '.none' if pk['k'] == 'none' else '(.%s %s)' % (pk['k'], _path(pk['v']))


def _row(r):
    g = r['got']
    init = 'none' if g['init'] == 'ok' else '(some %s)' % ERR[g['init']]
    op = g['ops'][0] if g['ops'] else {'out': {'ok': ['same', 0]}, 'calls': [], 'finds': []}
    return ('  ProbeRow.mk %s [%s] (%s) %s %s %s\n    %s %s %s %s'
            % (_pkg(r['pkg']), ', '.join(_path(m) for m in r['pre']), _txt(r['name']), init, _texts(g['init_calls']), _texts(g['init_finds']),
               _out(op['out']), _texts(op['calls']), _texts(op['finds']), _texts(g['loaded'])))


def generate(src_root):
    f = facts(src_root)
    status = f.get('status', 'unknown: no status')
    rows, uni = [], {'mods': [], 'attrs': []}
    if status == 'ok':
        try:
            rows = [_row(r) for r in f['rows']]
            uni = f['universe']
        except Exception as e:  # noqa
            status = 'unknown: cannot encode the probe answer: %s %s' % (type(e).__name__, e)
            rows, uni = [], {'mods': [], 'attrs': []}
    summary.clear()
    summary.update({'status': status, 'rows': len(rows)})
    kinds = {'pkg': '.pkg', 'module': '.module', 'bad': '.bad'}
    L = ['/- GENERATED by extract/x09.py by probing the running DottedNameResolver of the tree under test over a synthetic package tree',
         '   — do not edit. -/',
         'import PyramidModel.Dotted',
         'namespace Pyr.Dotted.Gen', '',
         'def T (cs : List Nat) : Text := cs.map Char.ofNat', '',
         '/-- "ok", or why the probe of the tree under test could not be trusted -/',
         'def probeStatus : Text := %s' % _txt(status.replace('\n', ' ')), '',
         '/-- the synthetic package tree the probe wrote to disk -/',
         'def probeUniv : Univ := {',
         '  mods := [' + ', '.join('(%s, %s)' % (_path(m), kinds[k]) for m, k in uni['mods']) + '],',
         '  attrs := [' + ', '.join('(%s, %s, %d)' % ('.mod ' + _path(o[1]) if o[0] == 'm' else '.att %d' % o[1], _txt(n), i)
                                    for o, n, i in uni['attrs']) + '] }', '',
         '/-- one row per (imported beforehand, constructor argument, name) -/',
         ] + ['def probeRows%d : List ProbeRow := [\n%s]\n' % (i // 40, ',\n'.join(rows[i:i + 40])) for i in range(0, len(rows), 40)] + [
         'def probeRows : List ProbeRow := ' + (' ++ '.join('probeRows%d' % (i // 40) for i in range(0, len(rows), 40)) or '[]'), '',
         'end Pyr.Dotted.Gen', '']
    return {'PyramidModel/Gen/X09.lean': '\n'.join(L)}


if __name__ == '__main__':
    if len(sys.argv) > 2 and sys.argv[1] == '--probe':
        print(json.dumps(_probe(sys.argv[2])))
    else:
        print(generate(sys.argv[1] if len(sys.argv) > 1 else '/repo/src')['PyramidModel/Gen/X09.lean'])
