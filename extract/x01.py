"""Translator for X01: regenerates lean/PyramidModel/Gen/X01.lean from src/pyramid/router.py.

What is read (python `ast`, nothing is executed): the body of `Router.handle_request`, statement by statement, as the
ORDER OF ITS STEPS — the event notifications, the route match, which request attributes are set and from what, which
request interface is installed, how the root factory is chosen and when it is called, the traverser call, the
`attrs.update`, how `context_iface` is computed, the arguments of `_call_view`, and the `HTTPNotFound` on `None`.
Local aliases (`adapters = registry.adapters`, …) and the two debug-logging blocks are skipped; local variable names are
abstracted where they do not matter (the name of the traverser's result).  Any other statement is emitted as
"unknown: …", which makes `Props/X01.lean: steps_as_modelled` (a `decide`d equation) fail rather than guess.
"""
import ast, os

summary = {}


def _u(node):
    return ast.unparse(node)


def _is_debug_block(stmts):
    """only `msg = …` assignments and `logger and logger.debug(msg)`"""
    for s in stmts:
        if isinstance(s, ast.Assign) and len(s.targets) == 1 and isinstance(s.targets[0], ast.Name) and s.targets[0].id == 'msg':
            continue
        if isinstance(s, ast.Expr) and 'logger' in _u(s) and 'debug' in _u(s):
            continue
        return False
    return True


class _Walk:
    def __init__(self):
        self.steps = []
        self.tdict = None
        self.saw_query_adapter = False

    def emit(self, s):
        self.steps.append(s)

    def block(self, stmts):
        for s in stmts:
            self.stmt(s)

    def stmt(self, s):
        # notifications
        if isinstance(s, ast.Expr) and isinstance(s.value, ast.BoolOp) and isinstance(s.value.op, ast.And) and len(s.value.values) == 2:
            a, b = s.value.values
            if isinstance(a, ast.Name) and a.id == 'has_listeners' and isinstance(b, ast.Call) and _u(b.func) == 'notify' \
                    and len(b.args) == 1 and isinstance(b.args[0], ast.Call) and _u(b.args[0].args[0] if b.args[0].args else b) == 'request':
                return self.emit('notify ' + _u(b.args[0].func))
        if isinstance(s, ast.Expr) and isinstance(s.value, ast.Call) and _u(s.value.func) == 'attrs.update' and len(s.value.args) == 1:
            arg = _u(s.value.args[0])
            return self.emit('attrs.update(tdict)' if arg == self.tdict else 'unknown: ' + _u(s))
        if isinstance(s, ast.Return):
            return self.emit('return ' + (_u(s.value) if s.value is not None else ''))
        if isinstance(s, ast.If):
            test = _u(s.test)
            if test in ('debug_routematch', 'self.debug_notfound') and _is_debug_block(s.body):
                # the else-branch of `if self.debug_notfound:` is `msg = request.path_info`
                if _is_debug_block(s.orelse):
                    return
            if test == 'routes_mapper is not None' and not s.orelse:
                self.emit('if routes_mapper')
                self.block(s.body)
                return self.emit('end')
            if test == 'route is None' and _is_debug_block([x for x in s.body if not (isinstance(x, ast.If) and _u(x.test) == 'debug_routematch' and _is_debug_block(x.body))]) \
                    and all((isinstance(x, ast.If) and _u(x.test) == 'debug_routematch') or _is_debug_block([x]) for x in s.body):
                self.emit('if route')
                self.block(s.orelse)
                return self.emit('end')
            if test == 'traverser is None' and not s.orelse and len(s.body) == 1 and _u(s.body[0]) == 'traverser = ResourceTreeTraverser(root)' \
                    and self.saw_query_adapter:
                return self.emit('traverser=queryAdapter(root, ITraverser) or ResourceTreeTraverser(root)')
            if test == 'response is None' and not s.orelse and s.body and isinstance(s.body[-1], ast.Raise) \
                    and _u(s.body[-1]) == 'raise HTTPNotFound(msg)' \
                    and all((isinstance(x, ast.If) and _u(x.test) == 'self.debug_notfound') for x in s.body[:-1]):
                for x in s.body[:-1]:
                    self.stmt(x)
                return self.emit('if response is None: raise HTTPNotFound')
            return self.emit('unknown: ' + _u(s).split('\n')[0])
        if isinstance(s, ast.Assign) and len(s.targets) == 1:
            t, v = s.targets[0], s.value
            tu, vu = _u(t), _u(v)
            if isinstance(t, ast.Subscript) and _u(t.value) == 'attrs' and isinstance(t.slice, ast.Constant):
                return self.emit('attrs[%s]=%s' % (t.slice.value, vu))
            if tu == 'request.request_iface':
                return self.emit('iface=' + vu)
            if tu == 'root_factory':
                return self.emit('factory=' + vu)
            if tu == 'context_iface':
                return self.emit('context_iface=' + vu)
            if isinstance(t, ast.Tuple) and [_u(e) for e in t.elts] == ['match', 'route'] and isinstance(v, ast.Tuple):
                return self.emit('match,route=' + ','.join(_u(e) for e in v.elts))
            if isinstance(t, ast.Tuple) and isinstance(v, ast.Tuple) and self.tdict is not None and len(t.elts) == len(v.elts):
                want = {'context': 'context', 'view_name': 'view_name', 'subpath': 'subpath', 'traversed': 'traversed',
                        'vroot': 'virtual_root', 'vroot_path': 'virtual_root_path'}
                ok = True
                for a, b in zip(t.elts, v.elts):
                    if not (isinstance(a, ast.Name) and a.id in want and _u(b) == "%s['%s']" % (self.tdict, want[a.id])):
                        ok = False
                return self.emit('unpack tdict' if ok else 'unknown: ' + _u(s).split('\n')[0])
            if isinstance(t, ast.Name) and isinstance(v, ast.Call):
                fu = _u(v.func)
                args = ', '.join(_u(a) for a in v.args) + ''.join(', %s=%s' % (k.arg, _u(k.value)) for k in v.keywords)
                if fu == 'routes_mapper' and args == 'request' and tu == 'info':
                    return self.emit('info=routes_mapper(request)')
                if fu == 'root_factory' and args == 'request' and tu == 'root':
                    return self.emit('root=root_factory(request)')
                if fu == 'traverser' and args == 'request':
                    self.tdict = tu
                    return self.emit('tdict=traverser(request)')
                if fu == '_call_view' and tu == 'response':
                    return self.emit('response=_call_view(%s)' % args)
                if fu == 'adapters.queryAdapter' and tu == 'traverser' and args == 'root, ITraverser':
                    self.saw_query_adapter = True
                    return
                return self.emit('unknown: ' + _u(s))
            if isinstance(t, ast.Name) and isinstance(v, (ast.Attribute, ast.Subscript, ast.Constant, ast.Name)):
                return            # a local alias / initialisation (`context = None`, `adapters = registry.adapters`, …)
        return self.emit('unknown: ' + _u(s).split('\n')[0])


def _lean_str(s):
    return '"' + s.replace('\\', '\\\\').replace('"', '\\"') + '"'


def generate(src_root):
    path = os.path.join(src_root, 'pyramid', 'router.py')
    tree = ast.parse(open(path).read())
    f = None
    for node in ast.walk(tree):
        if isinstance(node, ast.ClassDef) and node.name == 'Router':
            for x in node.body:
                if isinstance(x, ast.FunctionDef) and x.name == 'handle_request':
                    f = x
    steps = ['unknown: Router.handle_request not found']
    if f is not None:
        w = _Walk()
        w.block(f.body)
        steps = w.steps
        # adjacent `attrs[k] = v` assignments are independent of each other: their relative order is canonicalised
        out, run = [], []
        for st in steps + [None]:
            if st is not None and st.startswith('attrs['):
                run.append(st)
                continue
            out += sorted(run)
            run = []
            if st is not None:
                out.append(st)
        steps = out
    summary.clear()
    summary.update({'steps': len(steps), 'unknown': [s for s in steps if s.startswith('unknown')]})
    text = ('/- GENERATED by extract/x01.py from src/pyramid/router.py (`Router.handle_request`).\n'
            '   Do not edit: rewritten on every check.  An "unknown: …" entry means the translator did not recognise a statement. -/\n'
            'namespace Pyr.Gen.X01\n\n'
            '/-- the steps of `handle_request`, in source order (local aliases and debug logging skipped) -/\n'
            'def steps : List String := [\n  ' + ',\n  '.join(_lean_str(s) for s in steps) + ']\n\n'
            'end Pyr.Gen.X01\n')
    return {'PyramidModel/Gen/X01.lean': text}
