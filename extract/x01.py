"""Translator for X01: regenerates lean/PyramidModel/Gen/X01.lean from the tree under test.

Robustness round: the order of the steps of `Router.handle_request` — and WHAT OF THE REQUEST IS ALREADY SET AT EACH STEP —
is no longer read off one source shape but OBSERVED by running the router of the tree under test (`src_root` must be
where `pyramid` is imported from, otherwise nothing is recognised) on one scratch application and six request shapes:

  traversal        GET /a/v      no route matches -> default root factory, view `v` on the resource `a`
  route-factory    GET /r/7      route `/r/{id}` with its own factory, route-bound view
  route-traverse   GET /t/a/v    route `/t/*traverse` (use_global_views) -> traversal along the match dictionary, global view
  factory-raises   GET /x/1      the route's factory raises ValueError -> route-bound exception view
  not-found        GET /zz       nothing registered -> HTTPNotFound -> notfound view
  undecodable      PATH_INFO /\\xff -> URLDecodeError -> global exception view
  marked-at-context-found  GET /a/m  a ContextFound subscriber marks the context with a marker interface (`alsoProvides`);
                   the only view named `m` is registered for that marker -> it must be found: the lookup classifies the
                   context AFTER the ContextFound subscribers ran

Logging subscribers (NewRequest, BeforeTraversal, ContextFound), logging root / route factories and a logging `ITraverser`
adapter record, at each event, `matched_route`, `matchdict`, `request_iface.__sro__`, `root`, `context`, `view_name` as the
request carries them AT THAT MOMENT, and what the context PROVIDES at that moment (`providedBy(context).__sro__`, read by the
probe through zope.interface, not taken from the router); the outcome is the tag of the answering view (or the class of the exception leaving the
router) and the class of the exception a tween under the excview tween saw passing.  The table is emitted as Lean data and
`Props/X01.lean: probed_router_matches_model` `decide`s it against the composed model run on the same application.
Fail closed: an exception while probing, a foreign `pyramid`, or an unexpected value yields `ownTree := false` / an empty
table, and the obligation fails.  Helper extraction, renamed locals, reordered independent statements do not change the table.

STILL AST (cross-check only, tolerant): the order of the key calls in `handle_request` — followed into `self._helper(...)`
methods two levels deep — `notify(NewRequest)`, `routes_mapper(`, `notify(BeforeTraversal)`, `root_factory(`, `traverser(`,
`notify(ContextFound)`, `_call_view(`, `raise HTTPNotFound`.  If the walk does not find all of them it emits `[]`
("not recognised"), which the obligation `ast_order_cross_check` accepts; a recognised but DIFFERENT order fails it.
"""
import ast, os, sys

summary = {}

EXC_IDS = {'HTTPForbidden': 44, 'HTTPNotFound': 45, 'KeyError': 46, 'PredicateMismatch': 48, 'URLDecodeError': 49, 'ValueError': 52}


def _probe(src_root):
    import pyramid
    own = os.path.realpath(os.path.dirname(pyramid.__file__)).startswith(os.path.realpath(src_root))
    if not own:
        return False, []
    from zope.interface import Interface, alsoProvides, noLongerProvides, providedBy, implementedBy
    from zope.interface.interface import InterfaceClass
    from pyramid.config import Configurator
    from pyramid.events import NewRequest, BeforeTraversal, ContextFound
    from pyramid.exceptions import URLDecodeError
    from pyramid.interfaces import IRequest, IRouteRequest
    from pyramid.request import Request
    from pyramid.response import Response
    from pyramid.traversal import ResourceTreeTraverser
    from pyramid.tweens import EXCVIEW

    log = []
    state = {}

    class Root(dict):
        pass

    class A(dict):
        pass

    def tree(ri, kid):
        r = Root()
        r._pos = (ri, [])
        a = A()
        a._pos = (ri, [kid])
        dict.__setitem__(r, kid, a)
        return r
    roots = [tree(0, 'a'), tree(1, 'b')]
    names = ['rt0', 'rt1', 'rt2']
    IMark = InterfaceClass('IMark', (Interface,), __doc__='probe marker')

    def provides_ids(ctx):
        out = []
        for sp in providedBy(ctx).__sro__:
            out.append(0 if sp is Interface else 3 if sp is IMark else 10 if sp is implementedBy(Root) else
                       11 if sp is implementedBy(A) else 90)
        return out

    def iface_id(config, i):
        if i is IRequest:
            return 0
        if i is Interface:
            return 50
        for k, n in enumerate(names):
            ri = config.registry.queryUtility(IRouteRequest, name=n)
            if i is ri:
                return 1 + k
            if i is getattr(ri, 'combined', None):
                return 20 + k
        return 60

    def snap(event, request):
        d = request.__dict__
        route = d.get('matched_route')
        md = d.get('matchdict', getattr(request, 'matchdict', None))
        riface = d.get('request_iface')
        root, ctx = d.get('root'), d.get('context')
        log.append((event, None if route is None else names.index(route.name),
                    [] if md is None else [(k, v if isinstance(v, str) else '(' + ','.join(v) + ')') for k, v in md.items()],
                    [] if riface is None else [iface_id(state['config'], i) for i in riface.__sro__],
                    None if root is None else root._pos[0],
                    None if ctx is None else list(ctx._pos[1]),
                    d.get('view_name'),
                    [] if ctx is None else provides_ids(ctx)))

    def factory(i, hook, raises=None):
        def f(request):
            snap(hook, request)
            if raises is not None:
                raise raises()
            return roots[i]
        return f

    class LoggingTraverser:
        def __init__(self, root):
            self.root = root

        def __call__(self, request):
            snap('traverser', request)
            return ResourceTreeTraverser(self.root)(request)

    def under_factory(handler, registry):
        def under(request):
            try:
                return handler(request)
            except Exception as e:
                state['caught'] = e
                raise
        return under
    mod = sys.modules[__name__]
    mod.under_factory = under_factory

    def mk(tag):
        def view(context, request):
            r = Response('V%d' % tag)
            r.headers['X-Tag'] = str(tag)
            return r
        view.__name__ = 'v%d' % tag
        return view

    config = Configurator(root_factory=factory(0, 'rootfactory'), autocommit=True)
    state['config'] = config
    config.add_tween(__name__ + '.under_factory', under=EXCVIEW)
    config.add_traverser(LoggingTraverser)
    def mark(event):
        if event.request.environ.get('x01.mark'):
            alsoProvides(event.request.context, IMark)
    config.add_subscriber(mark, ContextFound)                  # registered BEFORE the logging subscriber
    for ev, nm in ((NewRequest, 'NewRequest'), (BeforeTraversal, 'BeforeTraversal'), (ContextFound, 'ContextFound')):
        config.add_subscriber((lambda event, nm=nm: snap(nm, event.request)), ev)
    config.add_route('rt0', '/r/{id}', factory=factory(1, 'routefactory'))
    config.add_route('rt1', '/t/*traverse', use_global_views=True)
    config.add_route('rt2', '/x/{id}', factory=factory(1, 'routefactory', ValueError))
    config.add_view(mk(1), context=A, name='v')
    config.add_view(mk(2), route_name='rt0')
    config.add_exception_view(mk(3), context=ValueError, route_name='rt2')
    config.add_notfound_view(mk(4))
    config.add_exception_view(mk(5), context=URLDecodeError)
    config.add_view(mk(6), context=IMark, name='m')
    app = config.make_wsgi_app()

    table = []
    for name, raw in (('traversal', b'/a/v'), ('route-factory', b'/r/7'), ('route-traverse', b'/t/a/v'),
                      ('factory-raises', b'/x/1'), ('not-found', b'/zz'), ('undecodable', b'/\xff'),
                      ('marked-at-context-found', b'/a/m')):
        del log[:]
        state.pop('caught', None)
        env = Request.blank('/').environ
        env['PATH_INFO'] = raw.decode('latin-1')
        env['x01.mark'] = name == 'marked-at-context-found'
        for r in roots:
            for n in [r] + list(r.values()):
                if IMark.providedBy(n):
                    noLongerProvides(n, IMark)
        sh = {}

        def start_response(status, headers, exc_info=None):
            sh['status'], sh['headers'] = status, headers
        try:
            b''.join(app(env, start_response))
            tag = dict(sh['headers']).get('X-Tag')
            final = ('view', int(tag)) if tag is not None else ('status', int(sh['status'][:3]))
        except Exception as e:
            final = ('raise', EXC_IDS.get(type(e).__name__, 0))
        caught = state.get('caught')
        table.append((name, list(log), final, None if caught is None else EXC_IDS.get(type(caught).__name__, 0)))
    return True, table


# ------------------------------------------------------------------------------------------------------------------
# AST cross-check (tolerant)

def _ast_events(src_root):
    path = os.path.join(src_root, 'pyramid', 'router.py')
    tree = ast.parse(open(path).read())
    cls = None
    for node in ast.walk(tree):
        if isinstance(node, ast.ClassDef) and node.name == 'Router':
            cls = node
    if cls is None:
        return []
    methods = {x.name: x for x in cls.body if isinstance(x, ast.FunctionDef)}
    if 'handle_request' not in methods:
        return []
    out = []

    def visit(node, depth):
        """source-order walk (statements in order; inside a statement, calls in evaluation order approximated by position)"""
        calls = []
        for n in ast.walk(node):
            if isinstance(n, (ast.Call, ast.Raise)):
                calls.append(n)
        calls.sort(key=lambda n: (n.lineno, n.col_offset))
        for n in calls:
            if isinstance(n, ast.Raise):
                if n.exc is not None and 'HTTPNotFound' in ast.unparse(n.exc):
                    out.append('raise HTTPNotFound')
                continue
            f = ast.unparse(n.func)
            if f.endswith('notify') and n.args and isinstance(n.args[0], ast.Call):
                out.append('notify ' + ast.unparse(n.args[0].func))
            elif f in ('routes_mapper', 'self.routes_mapper'):
                out.append('routes_mapper')
            elif f == 'root_factory':
                out.append('root_factory')
            elif f == 'traverser':
                out.append('traverser')
            elif f == '_call_view':
                out.append('_call_view')
            elif f.startswith('self._') and f[5:] in methods and depth < 2:
                visit(methods[f[5:]], depth + 1)
    for stmt in methods['handle_request'].body:
        visit(stmt, 0)
    want = {'notify NewRequest', 'routes_mapper', 'notify BeforeTraversal', 'root_factory', 'traverser', 'notify ContextFound',
            '_call_view', 'raise HTTPNotFound'}
    if not want.issubset(set(out)) or len([e for e in out if e in want]) != len(want):
        return []
    return [e for e in out if e in want]


# ------------------------------------------------------------------------------------------------------------------

def _s(x):
    return '"' + x.replace('\\', '\\\\').replace('"', '\\"') + '"'


def _on(x):
    return 'none' if x is None else '(some %d)' % x


def _lean_step(st):
    ev, route, md, iface, root, ctx, vn, prov = st
    return '⟨%s, %s, [%s], [%s], %s, %s, %s, [%s]⟩' % (
        _s(ev), _on(route), ', '.join('(%s, %s)' % (_s(k), _s(v)) for k, v in md), ', '.join(str(i) for i in iface), _on(root),
        'none' if ctx is None else '(some [%s])' % ', '.join(_s(c) for c in ctx), 'none' if vn is None else '(some %s)' % _s(vn),
        ', '.join(str(i) for i in prov))


def generate(src_root):
    own, table, err = False, [], None
    try:
        own, table = _probe(src_root)
    except Exception as e:                       # fail closed
        err = '%s: %s' % (type(e).__name__, e)
        own, table = False, []
    try:
        events = _ast_events(src_root)
    except Exception as e:
        events = []
    summary.clear()
    summary.update({'own_tree': own, 'probe_error': err, 'scenarios': [t[0] for t in table],
                    'events_per_scenario': [len(t[1]) for t in table], 'ast_events': events})
    rows = []
    for name, steps, final, caught in table:
        rows.append('  (%s, [\n    %s],\n    (%s, %d), %s)' % (_s(name), ',\n    '.join(_lean_step(s) for s in steps), _s(final[0]), final[1], _on(caught)))
    text = ('/- GENERATED by extract/x01.py by RUNNING the router of the tree under test (src/pyramid/router.py and everything it\n'
            '   calls) on a scratch application; do not edit: rewritten on every check.  `ownTree = false` or an empty table mean the\n'
            '   probe failed (fail closed). -/\n'
            'namespace Pyr.Gen.X01\n\n'
            '/-- the probed `pyramid` package is the one of the tree under test -/\n'
            'def ownTree : Bool := %s\n\n'
            '/-- an observed event: (hook, matched_route, matchdict, request_iface.__sro__, root, context, view_name) as the request\n'
            'carries them at that moment -/\n'
            'structure Step where\n  hook : String\n  route : Option Nat\n  matchdict : List (String × String)\n  iface : List Nat\n'
            '  root : Option Nat\n  context : Option (List String)\n  viewName : Option String\n'
            '  /-- `providedBy(context).__sro__` at that moment (0 Interface, 3 the marker, 10 Root, 11 A, 90 other) -/\n  provides : List Nat\n'
            'deriving DecidableEq, Repr\n\n'
            '/-- scenario ↦ events in the order observed, outcome (view tag / status / class id of the exception leaving the router),\n'
            'class id of the exception the excview tween caught -/\n'
            'def probed : List (String × List Step × (String × Nat) × Option Nat) := [\n%s]\n\n'
            '/-- AST cross-check: order of the key calls of `handle_request` (helpers followed); `[]` = not recognised -/\n'
            'def astEvents : List String := [%s]\n\n'
            'end Pyr.Gen.X01\n') % ('true' if own else 'false', ',\n'.join(rows), ', '.join(_s(e) for e in events))
    return {'PyramidModel/Gen/X01.lean': text}
