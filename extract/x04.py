"""Translator for X04: regenerates, from the working tree's src/pyramid/config/assets.py, the facts the override theorems
rest on — by RUNNING the classes of the tree under test on finite probe domains (behavioural tables: they survive any
refactoring that keeps the behaviour and change under any that does not).

The probe runs in a fresh interpreter (`<python> extract/x04.py --probe <src_root>`, PYTHONPATH=<src_root>), with scratch
packages and files under `tempfile.mkdtemp()` (removed before the probe exits).

Probed facts (Lean data in Gen/X04.lean, decided against the model in Props/X04.lean):
 * insertOrder       tags of `PackageOverrides.overrides` after `insert`ing sources tagged 0, 1, 2 in that order
 * matchProbe        for 8 override paths x 17 resource names: the class `insert` built (dir / file) and what calling the
                     override with the name answers (None | the new path; the source must be the one inserted)
 * pathProbe         `FSAssetSource(prefix).get_path(name)` for 2 prefixes x 10 names (leading slashes, `//`, absolute-looking
                     names) and `PackageAssetSource(pkg, prefix).get_path(name)` for 3 prefixes x 6 names
 * loopProbe         for each of the six `PackageOverrides` query methods and each of the 8 subsets of {0,1,2}: three stub
                     sources inserted in order 0,1,2 under the package-wide override `''`, source i answering iff i is in
                     the subset: which stubs were consulted, in which order, and whose answer came back
 * providerProbe     for each of the six `OverrideProvider` methods: no utility registered / the utility answers None / the
                     utility answers a value /
                     a falsy value other than None → the default provider's answer or the utility's
 * validationProbe   `Configurator.override_asset(to, with, _override=jig)` for 11 x 14 specs over two scratch packages, a
                     scratch directory, a scratch file and a missing path: the ConfigurationError raised (by message), the
                     ImportError, or what reached the jig (package, path, source class, prefix)
Fail closed: any exception, unexpected class or message makes `probeStatus` an "unknown: …" string and empties the
tables, so every generated obligation of Props/X04.lean fails.
"""
import json, os, subprocess, sys

summary = {}

PATHS = ['', 'a/', 'a', 'a/b/', 'a/b', 'a.txt', '/', 'ab/']
NAMES = ['', 'a', 'a/', 'a/b', 'a/b/', 'a/b/c', 'ab', 'ab/c', 'a.txt', 'a.txt/x', 'a/x', 'a//x', 'b', '/', '/x', 'a/b/c/d', 'A/']
PO_METHODS = ['get_filename', 'get_stream', 'get_string', 'has_resource', 'isdir', 'listdir']
SRC_METHODS = {'get_filename': 'get_filename', 'get_stream': 'get_stream', 'get_string': 'get_string',
               'has_resource': 'exists', 'isdir': 'isdir', 'listdir': 'listdir'}
PROV_METHODS = [('get_resource_filename', True), ('get_resource_stream', True), ('get_resource_string', True),
                ('has_resource', False), ('resource_isdir', False), ('resource_listdir', False)]
TO = ['PA', 'PA:', 'PA:d/', 'PA:f.txt', 'PA:d', 'PA:d/e/', 'PA:d/f.txt', 'NOPKG:d/', 'NOPKG:f.txt', 'PA:a:b/', 'PA:a:b']
WITH = ['PB', 'PB:', 'PB:d/', 'PB:f.txt', 'PB:d', 'PB:x/y/', 'PB:x/y', 'NOPKG:d/', 'NOPKG:f.txt', '/T/dir', '/T/dir/', '/T/file',
        '/T/missing', 'PA:d/']


def _probe():
    import shutil, tempfile, types
    out = {}
    tmp = os.path.realpath(tempfile.mkdtemp(prefix='x04probe_'))
    try:
        import pyramid.config.assets as A
        out['module'] = os.path.realpath(A.__file__)
        import pkg_resources

        class FakePR:                       # PackageOverrides(package, pkg_resources=…) — keeps the probe off the global registry
            def register_loader_type(self, *a):
                pass

        def fresh():
            m = types.ModuleType('x04probe_dummy')
            m.__loader__ = None
            return A.PackageOverrides(m, pkg_resources=FakePR())

        # --- insert position
        po = fresh()
        for i in range(3):
            po.insert('', 'tag%d' % i)
        out['insert_order'] = [int(o.source[3:]) for o in po.overrides]

        # --- classes and matching
        mp = []
        for path in PATHS:
            po = fresh()
            src = object()
            ov = po.insert(path, src)
            if po.overrides != [ov]:
                raise RuntimeError('insert did not store what it returned')
            kind = {'DirectoryOverride': 'dir', 'FileOverride': 'file'}.get(type(ov).__name__)
            if kind is None:
                raise RuntimeError('insert built a %s' % type(ov).__name__)
            for name in NAMES:
                r = ov(name)
                if r is None:
                    mp.append([path, kind, name, None])
                else:
                    s, new = r
                    if s is not src or not isinstance(new, str):
                        raise RuntimeError('override answered %r' % (r,))
                    mp.append([path, kind, name, new])
        out['match'] = mp

        # --- get_path of both source classes (pure string functions)
        gp = []
        for pfx in ('/T/d', '/T/d/'):
            for name in ('', 'a', 'a/b', '/a', '//a', '/', 'a/', '/T/x', '/etc/passwd', 'a//b'):
                r = A.FSAssetSource(pfx).get_path(name)
                if not isinstance(r, str):
                    raise RuntimeError('FSAssetSource.get_path answered %r' % (r,))
                gp.append(['fs', pfx, name, r])
        for pfx in ('', 'd/', 'f.txt'):
            for name in ('', 'a', 'a/b', '/a', '//a', 'a/'):
                r = A.PackageAssetSource('x04probe_nopkg', pfx).get_path(name)
                if not isinstance(r, str):
                    raise RuntimeError('PackageAssetSource.get_path answered %r' % (r,))
                gp.append(['pkg', pfx, name, r])
        out['get_path'] = gp

        # --- the six loops
        lp = []
        for meth in PO_METHODS:
            for mask in range(8):
                log = []

                class Stub:
                    def __init__(self, i):
                        self.i = i

                    def __getattr__(self, attr, mask=mask, log=log):
                        def call(path):
                            log.append([attr, self.i, path])
                            return ('ans', self.i) if (mask >> self.i) & 1 else None
                        return call
                po = fresh()
                for i in range(3):
                    po.insert('', Stub(i))
                r = getattr(po, meth)('n')
                want = SRC_METHODS[meth]
                if any(a != want or p != 'n' for a, _, p in log):
                    raise RuntimeError('%s consulted %r' % (meth, log))
                if r is None:
                    res = None
                elif meth == 'has_resource' and r is True:
                    res = log[-1][1]
                elif isinstance(r, tuple) and r[0] == 'ans':
                    res = r[1]
                else:
                    raise RuntimeError('%s answered %r' % (meth, r))
                lp.append([meth, mask, [i for _, i, _ in log], res])
        out['loop'] = lp

        # --- OverrideProvider: utility answer vs default provider
        os.makedirs(os.path.join(tmp, 'x04probe_pa', 'd'))
        os.makedirs(os.path.join(tmp, 'x04probe_pb', 'd'))
        for p in ('x04probe_pa', 'x04probe_pb'):
            open(os.path.join(tmp, p, '__init__.py'), 'w').close()
            with open(os.path.join(tmp, p, 'f.txt'), 'w') as f:
                f.write(p)
        os.makedirs(os.path.join(tmp, 'dir'))
        with open(os.path.join(tmp, 'file'), 'w') as f:
            f.write('x')
        sys.path.insert(0, tmp)
        import importlib
        importlib.invalidate_caches()
        pa = importlib.import_module('x04probe_pa')
        pp = []
        pomap = {'get_resource_filename': 'get_filename', 'get_resource_stream': 'get_stream', 'get_resource_string': 'get_string',
                 'has_resource': 'has_resource', 'resource_isdir': 'isdir', 'resource_listdir': 'listdir'}
        for meth, takes_manager in PROV_METHODS:
            for mode in ('noutility', 'none', 'value', 'falsy'):
                sentinel = object()
                if mode == 'falsy':         # a falsy answer that is not None: an empty listing, False, an empty string
                    sentinel = {'resource_listdir': [], 'resource_isdir': False, 'has_resource': False, 'get_resource_filename': '',
                                'get_resource_string': b''}.get(meth)
                    if sentinel is None:
                        continue

                class FakeOverrides:
                    def __getattr__(self, attr, mode=mode, sentinel=sentinel, meth=meth):
                        if attr != pomap[meth]:
                            raise RuntimeError('%s asked the utility for %s' % (meth, attr))
                        return lambda name: (sentinel if mode in ('value', 'falsy') else None)
                prov = A.OverrideProvider(pa)
                prov._get_overrides = (lambda mode=mode: None if mode == 'noutility' else FakeOverrides())
                dflt = pkg_resources.DefaultProvider(pa)
                args = (None, 'f.txt') if takes_manager else ('f.txt',)
                if meth == 'resource_listdir':
                    args = ('d',)
                got = getattr(prov, meth)(*args)
                exp = getattr(dflt, meth)(*args)
                if mode == 'falsy':
                    exp = object()
                if hasattr(got, 'read'):
                    g2 = got.read(); got.close(); got = g2
                    e2 = exp.read(); exp.close(); exp = e2
                pp.append([meth, mode, 'value' if got is sentinel else 'default' if got == exp else 'other'])
        out['provider'] = pp

        # --- override_asset validation
        from pyramid.config import Configurator
        from pyramid.exceptions import ConfigurationError
        real = {'PA': 'x04probe_pa', 'PB': 'x04probe_pb', 'NOPKG': 'x04probe_nopkg'}

        def realise(s):
            if s.startswith('/T'):
                return tmp + s[2:]
            for k, v in real.items():
                if s == k or s.startswith(k + ':'):
                    return v + s[len(k):]
            return s

        def symbol(s):
            if s.startswith(tmp):
                return '/T' + s[len(tmp):]
            for k, v in real.items():
                if s == v or s.startswith(v + ':'):
                    return k + s[len(v):]
            return s
        msgs = [('cannot override an asset with itself', 'itself'), ('absolute path that does not exist', 'absmissing'),
                ('directory cannot be overridden with a file', 'dirwithfile'), ('file cannot be overridden with a directory', 'filewithdir')]
        vp = []
        for to in TO:
            for wi in WITH:
                seen = []

                def jig(package, path, source, seen=seen):
                    seen.append((package.__name__, path, type(source).__name__, source.prefix,
                                 getattr(source, 'pkg_name', None)))
                config = Configurator(autocommit=True)
                entry = None
                try:
                    config.override_asset(realise(to), realise(wi), _override=jig)
                except ConfigurationError as e:
                    hit = [k for m, k in msgs if m in str(e).lower()]
                    if len(hit) != 1:
                        raise RuntimeError('unrecognised ConfigurationError: %s' % e)
                    entry = [to, wi, hit[0], '', '', '', '']
                except ImportError:
                    entry = [to, wi, 'import', '', '', '', '']
                else:
                    if len(seen) != 1:
                        raise RuntimeError('the register action ran %d times' % len(seen))
                    pkg, path, cls, prefix, spkg = seen[0]
                    kind = {'PackageAssetSource': 'pkg', 'FSAssetSource': 'fs'}.get(cls)
                    if kind is None:
                        raise RuntimeError('source class %s' % cls)
                    entry = [to, wi, 'ok', symbol(pkg), path, kind, (symbol(spkg) + ':' if kind == 'pkg' else '') + symbol(prefix)]
                vp.append(entry)
        out['validation'] = vp
        out['status'] = 'ok'
    except BaseException as e:      # noqa — fail closed
        out = {'status': 'unknown: %s: %s' % (type(e).__name__, str(e)[:200])}
    finally:
        shutil.rmtree(tmp, ignore_errors=True)
    return out


def facts(src_root):
    py = '/venv/bin/python' if os.path.exists('/venv/bin/python') else sys.executable
    env = dict(os.environ, PYTHONPATH=src_root, PYTHONWARNINGS='ignore', PYTHONDONTWRITEBYTECODE='1')
    try:
        p = subprocess.run([py, os.path.abspath(__file__), '--probe', src_root], env=env, stdout=subprocess.PIPE, stderr=subprocess.PIPE,
                           timeout=120)
        f = json.loads(p.stdout.decode().strip().splitlines()[-1])
    except Exception as e:          # noqa
        return {'status': 'unknown: probe did not answer: %s' % type(e).__name__}
    if f.get('status') == 'ok':
        want = os.path.realpath(os.path.join(src_root, 'pyramid', 'config', 'assets.py'))
        if f.get('module') != want:
            return {'status': 'unknown: the probe imported %s, not the tree under test' % f.get('module')}
        for k in ('insert_order', 'match', 'get_path', 'loop', 'provider', 'validation'):
            if not isinstance(f.get(k), list):
                return {'status': 'unknown: probe answer lacks %s' % k}
    return f


def _s(s):
    return '"' + s.replace('\\', '\\\\').replace('"', '\\"').replace('\n', ' ') + '"'


def _c(c):
    if 32 < ord(c) < 127 and c not in "'\\":
        return "'%s'" % c
    return '(Char.ofNat %d)' % ord(c)


def _t(s):
    return '[' + ', '.join(_c(c) for c in s) + ']'


def _os(s):
    return 'none' if s is None else '(some %s)' % _t(s)


def _on(n):
    return 'none' if n is None else '(some %d)' % n


def generate(src_root):
    f = facts(src_root)
    ok = f.get('status') == 'ok'
    summary.clear()
    summary.update({'status': f.get('status'), 'insert_order': f.get('insert_order'),
                    'entries': {k: len(f[k]) for k in ('match', 'get_path', 'loop', 'provider', 'validation')} if ok else None})
    g = (lambda k: f[k]) if ok else (lambda k: [])
    L = ['/- GENERATED by extract/x04.py by probing the classes of src/pyramid/config/assets.py — do not edit. -/',
         'namespace Pyr.Assets.Gen', '',
         '/-- "ok", or why the probe of the tree under test could not be trusted -/',
         'def probeStatus : String := %s' % _s(f.get('status', 'unknown: no status')), '',
         '/-- tags found in `PackageOverrides.overrides` after inserting 0, 1, 2 -/',
         'def insertOrder : List Nat := %s' % json.dumps(g('insert_order')), '',
         '/-- `(override path, class built by insert, resource name, answer of the override: new path or none)` -/',
         'def matchProbe : List (List Char × String × List Char × Option (List Char)) := [',
         ',\n'.join('  (%s, %s, %s, %s)' % (_t(p), _s(k), _t(n), _os(r)) for p, k, n, r in g('match')), ']', '',
         '/-- `(source class, prefix, resource name, get_path(resource name))` -/',
         'def pathProbe : List (String × List Char × List Char × List Char) := [',
         ',\n'.join('  (%s, %s, %s, %s)' % (_s(k), _t(p), _t(n), _t(r)) for k, p, n, r in g('get_path')), ']', '',
         '/-- `(PackageOverrides method, subset of answering stubs as a bit mask, stubs consulted in order, whose answer)` -/',
         'def loopProbe : List (String × Nat × List Nat × Option Nat) := [',
         ',\n'.join('  (%s, %d, %s, %s)' % (_s(m), k, json.dumps(c), _on(r)) for m, k, c, r in g('loop')), ']', '',
         '/-- `(OverrideProvider method, what the utility does, whose answer is returned)` -/',
         'def providerProbe : List (String × String × String) := [',
         ',\n'.join('  (%s, %s, %s)' % (_s(m), _s(k), _s(r)) for m, k, r in g('provider')), ']', '',
         '/-- `(to_override, override_with, outcome, package, path, source class, source package:prefix)`; PA, PB importable,',
         'NOPKG not; `/T/dir` a directory, `/T/file` a file, `/T/missing` absent -/',
         'def validationProbe : List (List Char × List Char × String × List Char × List Char × String × List Char) := [',
         ',\n'.join('  (%s, %s, %s, %s, %s, %s, %s)' % (_t(e[0]), _t(e[1]), _s(e[2]), _t(e[3]), _t(e[4]), _s(e[5]), _t(e[6])) for e in g('validation')), ']', '',
         'end Pyr.Assets.Gen', '']
    return {'PyramidModel/Gen/X04.lean': '\n'.join(L)}


if __name__ == '__main__':
    if len(sys.argv) > 2 and sys.argv[1] == '--probe':
        print(json.dumps(_probe()))
    else:
        print(generate(sys.argv[1] if len(sys.argv) > 1 else '/repo/src')['PyramidModel/Gen/X04.lean'])
