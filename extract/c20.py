"""Translator for C20: regenerates, from the working tree's source, the *introspection slice* of every
configuration directive in src/pyramid/config/*.py, as Lean data (lean/PyramidModel/Gen/C20.lean).

For every method (or StaticURLInfo method) that calls `<self|config>.introspectable(...)`:

  params   the parameter names of the directive, in signature order (`*a` / `**kw` keep their stars)
  intros   var = self.introspectable(category, discriminator, title, type_name)   -- the four arguments as
           normalised source text (ast.unparse), with the nested function it sits in (`scope`) and the enclosing
           `if`/`for`/`except` headers (`guards`)
  keys     var[<const key>] = expr ; var.update(dict(k=v,..)) ; var.update({..}) ; var.update(name) (key "**")
  rels     var.relate(cat, discr) / var.unrelate(cat, discr)
  acts     every <self|config>.action(...) call: discriminator, order=, and which introspectable variables reach
           `introspectables=` (a tuple of names, or a list variable followed through its `[...]` initialiser and
           `.append(var)` calls, each with its guards)
  defs     every assignment (plain, tuple, augmented, `for` target, nested-function default) to a local name that
           is mentioned — transitively — by one of the expressions above: the *definition slice* that says what a
           recorded expression means in terms of the directive's parameters
  cls, decorated, entries
           the class the body sits on, whether it carries `@action_method`, and the public configurator
           directives through which it is reached (itself when it is a public mixin method, else its callers
           `self.NAME(...)` / `info.NAME(self, ...)`, followed upwards through non-public methods), each with its
           own `@action_method` flag: the outermost `action_method` wrapper is the one that records the calling
           statement as `action_info`, so every entry must carry it
  unknown  every use of an introspectable variable that is none of the above (reads `var[k]`, comparisons
           `var is None` and truth tests are allowed), every non-constant key, every shape not understood.
           A non-empty list makes the theorems of Props/C20.lean fail — never guess.

Also: the category headings of docs/narr/introspector.rst (`docCategories`, with a parse status), so that the agreement
between the documented and the recorded category names is re-decided on every run.

Also six facts obtained by *probing the running code* of the tree under test in a child interpreter (`PROBE`; they used
to be structural reads of the AST, which a behaviour-preserving rewrite of `execute_actions` broke): `include` and
`with_package` hand the `introspection` flag to the configurator they create; the constructor's default and store;
`Configurator.action` drops the introspectables when the flag is off (also under autocommit); `execute_actions` calls
the callable first and then registers the action's introspectables in list order with the action's info, action by
action, skips overridden actions, stops at a raising callable without registering its introspectables, registers nothing
without an introspector, and treats actions appended during execution the same; `Introspectable.register` undefers,
sets the info, adds, then applies the recorded relate/unrelate calls in order.  A probe that cannot run yields
`probe-failed:…` (the obligation fails).
"""
import ast, os

summary = {}

INTR_CALL_OWNERS = ('self', 'config')


def U(node):
    return ast.unparse(node)


def lean_str(s):
    out = ['"']
    for ch in s:
        if ch == '"':
            out.append('\\"')
        elif ch == '\\':
            out.append('\\\\')
        elif ch == '\n':
            out.append('\\n')
        elif ch == '\t':
            out.append('\\t')
        elif ord(ch) < 32 or ord(ch) > 126:
            out.append('\\u%04x' % ord(ch) if ord(ch) < 0x10000 else ch)
        else:
            out.append(ch)
    out.append('"')
    return ''.join(out)


def lean_list(xs):
    return '[' + ', '.join(xs) + ']'


def lean_strs(xs):
    return lean_list([lean_str(x) for x in xs])


def is_intr_call(node):
    return (isinstance(node, ast.Call) and isinstance(node.func, ast.Attribute) and node.func.attr == 'introspectable'
            and isinstance(node.func.value, ast.Name) and node.func.value.id in INTR_CALL_OWNERS)


def is_action_call(node):
    return (isinstance(node, ast.Call) and isinstance(node.func, ast.Attribute) and node.func.attr == 'action'
            and isinstance(node.func.value, ast.Name) and node.func.value.id in INTR_CALL_OWNERS)


def names_in(node):
    return [n.id for n in ast.walk(node) if isinstance(n, ast.Name)]


class Slice:
    """one directive"""

    def __init__(self, fname, func, cls=''):
        self.file, self.func = fname, func
        self.name = func.name
        self.cls = cls
        self.decorated = any(U(d) == 'action_method' for d in func.decorator_list)
        self.entries = []        # filled by find_directives
        a = func.args
        ps = [x.arg for x in a.posonlyargs + a.args]
        if a.vararg:
            ps.append('*' + a.vararg.arg)
        ps += [x.arg for x in a.kwonlyargs]
        if a.kwarg:
            ps.append('**' + a.kwarg.arg)
        self.params = [p for p in ps if p != 'self']
        self.intros, self.keys, self.rels, self.acts, self.alldefs, self.unknown = [], [], [], [], [], []
        self.appends = {}       # list variable -> [(var, guards, scope)]
        self.listinit = {}      # list variable -> [(var, guards, scope)] from `L = [a, b]`
        # pass 1: names bound to an introspectable
        self.ivars = set()
        for n in ast.walk(func):
            if isinstance(n, ast.Assign) and is_intr_call(n.value):
                for t in n.targets:
                    if isinstance(t, ast.Name):
                        self.ivars.add(t.id)
                    else:
                        self.unknown.append('introspectable bound to a non-name: ' + U(n))
            elif is_intr_call(n) and not self._is_assigned_value(func, n):
                self.unknown.append('introspectable not bound to a name: ' + U(n))
        self.accounted = set()   # id() of Name nodes of ivars that were understood
        self.block(func.body, '', [])
        # any other mention of an introspectable variable
        for n in ast.walk(func):
            if isinstance(n, ast.Name) and n.id in self.ivars and id(n) not in self.accounted:
                self.unknown.append('line %d: unrecognised use of introspectable %s' % (n.lineno - func.lineno, n.id))
        self.close_defs()

    @staticmethod
    def _is_assigned_value(func, call):
        for n in ast.walk(func):
            if isinstance(n, ast.Assign) and n.value is call:
                return True
        return False

    # -------------------------------------------------------------------------------------------
    def block(self, stmts, scope, guards):
        for s in stmts:
            self.stmt(s, scope, guards)

    def mark(self, node):
        for n in ast.walk(node):
            if isinstance(n, ast.Name) and n.id in self.ivars:
                self.accounted.add(id(n))

    def allow_reads(self, node):
        """reads that do not change what is recorded: var[k] loads, `var is (not) None`, bare truth tests"""
        for n in ast.walk(node):
            if isinstance(n, ast.Subscript) and isinstance(n.value, ast.Name) and n.value.id in self.ivars \
                    and isinstance(n.ctx, ast.Load):
                self.accounted.add(id(n.value))
            elif isinstance(n, ast.Compare) and isinstance(n.left, ast.Name) and n.left.id in self.ivars \
                    and all(isinstance(o, (ast.Is, ast.IsNot)) for o in n.ops) \
                    and all(isinstance(c, ast.Constant) and c.value is None for c in n.comparators):
                self.accounted.add(id(n.left))

    def define(self, target, rhs_text, scope, guards):
        if isinstance(target, ast.Name):
            self.alldefs.append((target.id, rhs_text, scope, list(guards)))
            if target.id in self.ivars:
                self.accounted.add(id(target))
        elif isinstance(target, (ast.Tuple, ast.List)):
            for i, t in enumerate(target.elts):
                self.define(t, '(%s)[%d]' % (rhs_text, i), scope, guards)
        # attribute / subscript targets of other objects define no local name

    def stmt(self, s, scope, guards):
        g = list(guards)
        if isinstance(s, ast.Assign):
            self.allow_reads(s.value)
            # var = self.introspectable(cat, discr, title, type)
            if is_intr_call(s.value):
                c = s.value
                if len(c.args) == 4 and not c.keywords and len(s.targets) == 1 and isinstance(s.targets[0], ast.Name):
                    self.intros.append((s.targets[0].id, U(c.args[0]), U(c.args[1]), U(c.args[2]), U(c.args[3]), scope, g))
                    self.accounted.add(id(s.targets[0]))
                else:
                    self.unknown.append('introspectable call of another shape: ' + U(s))
                return
            # var[key] = expr
            if len(s.targets) == 1 and isinstance(s.targets[0], ast.Subscript) and isinstance(s.targets[0].value, ast.Name) \
                    and s.targets[0].value.id in self.ivars:
                t = s.targets[0]
                if isinstance(t.slice, ast.Constant) and isinstance(t.slice.value, str):
                    self.keys.append((t.value.id, t.slice.value, U(s.value), scope, g))
                    self.accounted.add(id(t.value))
                else:
                    self.unknown.append('non-constant key: ' + U(s))
                return
            # L = [a, b]  (a list of introspectables handed to action later)
            if len(s.targets) == 1 and isinstance(s.targets[0], ast.Name) and isinstance(s.value, (ast.List, ast.Tuple)) \
                    and all(isinstance(e, ast.Name) and e.id in self.ivars for e in s.value.elts):
                self.listinit[s.targets[0].id] = [(e.id, g, scope) for e in s.value.elts]
                self.mark(s.value)
            # ordinary definitions (tuple = tuple is taken element-wise)
            for t in s.targets:
                if isinstance(t, (ast.Tuple, ast.List)) and isinstance(s.value, (ast.Tuple, ast.List)) \
                        and len(t.elts) == len(s.value.elts):
                    for tt, vv in zip(t.elts, s.value.elts):
                        self.define(tt, U(vv), scope, g)
                else:
                    self.define(t, U(s.value), scope, g)
            return
        if isinstance(s, ast.AugAssign):
            self.allow_reads(s.value)
            self.define(s.target, '%s %s (%s)' % (U(s.target), type(s.op).__name__, U(s.value)), scope, g)
            return
        if isinstance(s, ast.AnnAssign):
            if s.value is not None:
                self.define(s.target, U(s.value), scope, g)
            return
        if isinstance(s, ast.Expr):
            v = s.value
            if isinstance(v, ast.Call) and isinstance(v.func, ast.Attribute) and isinstance(v.func.value, ast.Name):
                owner, meth = v.func.value.id, v.func.attr
                if owner in self.ivars and meth == 'update':
                    self.accounted.add(id(v.func.value))
                    self.update_call(owner, v, scope, g)
                    return
                if owner in self.ivars and meth in ('relate', 'unrelate'):
                    self.accounted.add(id(v.func.value))
                    if len(v.args) == 2 and not v.keywords:
                        self.rels.append((owner, meth == 'relate', U(v.args[0]), U(v.args[1]), scope, g))
                    else:
                        self.unknown.append('relate call of another shape: ' + U(v))
                    return
                if meth == 'append' and len(v.args) == 1 and isinstance(v.args[0], ast.Name) and v.args[0].id in self.ivars:
                    self.appends.setdefault(owner, []).append((v.args[0].id, g, scope))
                    self.accounted.add(id(v.args[0]))
                    return
                if is_action_call(v):
                    self.action_call(v, scope, g)
                    return
            self.allow_reads(v)
            self.nested_calls(v, scope, g)
            return
        if isinstance(s, ast.If):
            self.allow_reads(s.test)
            self.truth_reads(s.test)
            self.block(s.body, scope, g + [U(s.test)])
            self.block(s.orelse, scope, g + ['not (%s)' % U(s.test)])
            return
        if isinstance(s, (ast.For, ast.AsyncFor)):
            hdr = 'for %s in %s' % (U(s.target), U(s.iter))
            self.define(s.target, 'each of ' + U(s.iter), scope, g + [hdr])
            self.block(s.body, scope, g + [hdr])
            self.block(s.orelse, scope, g)
            return
        if isinstance(s, ast.While):
            self.block(s.body, scope, g + ['while ' + U(s.test)])
            return
        if isinstance(s, (ast.With, ast.AsyncWith)):
            self.block(s.body, scope, g)
            return
        if isinstance(s, ast.Try):
            self.block(s.body, scope, g)
            for h in s.handlers:
                self.block(h.body, scope, g + ['except ' + (U(h.type) if h.type else '')])
            self.block(s.orelse, scope, g)
            self.block(s.finalbody, scope, g)
            return
        if isinstance(s, (ast.FunctionDef, ast.AsyncFunctionDef)):
            sc = (scope + '.' if scope else '') + s.name
            # a nested `def name(...)` (re)binds the local `name` (add_view: `def view(context, request)`)
            self.alldefs.append((s.name, 'def %s(%s)' % (s.name, U(s.args)), scope, list(g)))
            a = s.args
            pos = a.posonlyargs + a.args
            for arg, dflt in zip(pos[len(pos) - len(a.defaults):], a.defaults):
                self.alldefs.append((arg.arg, U(dflt), sc, list(g) + ['default']))
            self.block(s.body, sc, g)
            return
        if isinstance(s, ast.Return):
            if s.value is not None:
                self.allow_reads(s.value)
                self.nested_calls(s.value, scope, g)
            return
        if isinstance(s, (ast.Raise, ast.Pass, ast.Assert, ast.Import, ast.ImportFrom, ast.Global, ast.Nonlocal,
                          ast.Delete, ast.Break, ast.Continue)):
            if isinstance(s, ast.Delete):
                for t in s.targets:
                    if any(n in self.ivars for n in names_in(t)):
                        self.unknown.append('del on an introspectable: ' + U(s))
            return
        self.unknown.append('statement of a kind not understood: ' + type(s).__name__)

    def truth_reads(self, test):
        """`if var:` / `if tmpl_intr is not None and ...` — bare names of introspectables inside a test"""
        for n in ast.walk(test):
            if isinstance(n, ast.BoolOp):
                for v in n.values:
                    if isinstance(v, ast.Name) and v.id in self.ivars:
                        self.accounted.add(id(v))
        if isinstance(test, ast.Name) and test.id in self.ivars:
            self.accounted.add(id(test))

    def nested_calls(self, expr, scope, g):
        """an action call buried in an expression is not a shape we follow"""
        for n in ast.walk(expr):
            if is_action_call(n):
                self.unknown.append('action call inside an expression: ' + U(n))

    def update_call(self, var, call, scope, g):
        if len(call.args) == 1 and not call.keywords:
            a = call.args[0]
            if isinstance(a, ast.Call) and isinstance(a.func, ast.Name) and a.func.id == 'dict' and not a.args \
                    and all(k.arg is not None for k in a.keywords):
                for k in a.keywords:
                    self.keys.append((var, k.arg, U(k.value), scope, g))
                return
            if isinstance(a, ast.Dict) and all(isinstance(k, ast.Constant) and isinstance(k.value, str) for k in a.keys):
                for k, v in zip(a.keys, a.values):
                    self.keys.append((var, k.value, U(v), scope, g))
                return
            if isinstance(a, ast.Name):
                self.keys.append((var, '**', a.id, scope, g))
                return
        self.unknown.append('update call of another shape: ' + U(call))

    def action_call(self, call, scope, g):
        kw = {k.arg: k.value for k in call.keywords}
        if None in kw:
            self.unknown.append('action call with **kwargs: ' + U(call))
        pos = list(call.args)
        discr = pos[0] if pos else kw.get('discriminator')
        order = kw.get('order')
        if len(pos) >= 5:
            order = pos[4]
        intrs = kw.get('introspectables')
        if len(pos) >= 6:
            intrs = pos[5]
        if intrs is None:
            got = []
        elif isinstance(intrs, (ast.Tuple, ast.List)) and all(isinstance(e, ast.Name) and e.id in self.ivars for e in intrs.elts):
            got = [(e.id, []) for e in intrs.elts]
            self.mark(intrs)
        elif isinstance(intrs, ast.Name):
            got = ('list', intrs.id)
        else:
            got = None
            self.unknown.append('introspectables= of another shape: ' + U(intrs))
        self.acts.append([U(discr) if discr is not None else '?', U(order) if order is not None else '', scope, g, got])

    # -------------------------------------------------------------------------------------------
    def close_defs(self):
        # resolve list variables
        for a in self.acts:
            got = a[4]
            if isinstance(got, tuple) and got[0] == 'list':
                L = got[1]
                inits = [d for d in self.alldefs if d[0] == L]
                items = []
                ok = True
                for (_, rhs, sc, gg) in inits:
                    if rhs == '[]':
                        continue
                    if L in self.listinit:
                        continue
                    ok = False
                if len(inits) != 1:
                    ok = False
                items += [(v, gg) for (v, gg, sc) in self.listinit.get(L, [])]
                items += [(v, gg) for (v, gg, sc) in self.appends.get(L, [])]
                if not ok:
                    self.unknown.append('introspectables list %s is not built by one initialiser plus appends' % L)
                    a[4] = None
                else:
                    a[4] = items
        # every introspectable variable must reach exactly the actions it is listed in; an introspectable that
        # reaches no action is reported
        reached = set()
        for a in self.acts:
            for v, _ in (a[4] or []):
                reached.add(v)
        for v in sorted(self.ivars - reached):
            self.unknown.append('introspectable %s is passed to no action' % v)
        # definition slice: for every recorded expression the local names it mentions, transitively through the
        # assignments to those names (guards, titles and action discriminators are not followed)
        local = {d[0] for d in self.alldefs}

        def names_of(text):
            try:
                tree = ast.parse(text, mode='eval')
            except SyntaxError:
                try:
                    tree = ast.parse(text)
                except SyntaxError:
                    return []
            return names_in(tree)

        def closure(texts):
            want, todo = [], []
            for t in texts:
                for nm in names_of(t):
                    if nm in local and nm not in want and nm not in self.ivars:
                        want.append(nm); todo.append(nm)
            while todo:
                nm = todo.pop()
                for d in self.alldefs:
                    if d[0] == nm:
                        for nm2 in names_of(d[1]):
                            if nm2 in local and nm2 not in want and nm2 not in self.ivars:
                                want.append(nm2); todo.append(nm2)
            return sorted(want)
        self.intro_deps = [closure([i[1], i[2]]) for i in self.intros]
        self.key_deps = [closure([k[2]]) for k in self.keys]
        self.rel_deps = [closure([r[2], r[3]]) for r in self.rels]
        want = set()
        for ds in self.intro_deps + self.key_deps + self.rel_deps:
            want.update(ds)
        self.defs = [d for d in self.alldefs if d[0] in want]

    # -------------------------------------------------------------------------------------------
    def lean(self):
        def G(gs):
            return lean_strs(gs)
        L = []
        L.append('  { file := %s, name := %s, cls := %s, decorated := %s,' % (
            lean_str(self.file), lean_str(self.name), lean_str(self.cls), 'true' if self.decorated else 'false'))
        L.append('    entries := %s,' % lean_list(['(%s, %s)' % (lean_str(n), 'true' if d else 'false') for n, d in self.entries]))
        L.append('    params := %s,' % lean_strs(self.params))
        L.append('    intros := %s,' % lean_list(
            ['\n      ⟨%s, %s, %s, %s, %s, %s, %s, %s⟩' % (lean_str(v), lean_str(c), lean_str(d), lean_str(t), lean_str(ty), lean_str(sc), G(g), G(dp))
             for (v, c, d, t, ty, sc, g), dp in zip(self.intros, self.intro_deps)]))
        L.append('    keys := %s,' % lean_list(
            ['\n      ⟨%s, %s, %s, %s, %s, %s⟩' % (lean_str(v), lean_str(k), lean_str(e), lean_str(sc), G(g), G(dp))
             for (v, k, e, sc, g), dp in zip(self.keys, self.key_deps)]))
        L.append('    rels := %s,' % lean_list(
            ['\n      ⟨%s, %s, %s, %s, %s, %s, %s⟩' % (lean_str(v), 'true' if r else 'false', lean_str(c), lean_str(d), lean_str(sc), G(g), G(dp))
             for (v, r, c, d, sc, g), dp in zip(self.rels, self.rel_deps)]))
        acts = []
        for (d, o, sc, g, got) in self.acts:
            if got is None:
                items = 'none'
            else:
                items = 'some ' + lean_list(['(%s, %s)' % (lean_str(v), G(gg)) for v, gg in got])
            acts.append('\n      ⟨%s, %s, %s, %s, %s⟩' % (lean_str(d), lean_str(o), lean_str(sc), G(g), items))
        L.append('    acts := %s,' % lean_list(acts))
        L.append('    defs := %s,' % lean_list(
            ['\n      ⟨%s, %s, %s, %s⟩' % (lean_str(n), lean_str(r), lean_str(sc), G(g)) for (n, r, sc, g) in self.defs]))
        L.append('    unknown := %s }' % lean_strs(self.unknown))
        return '\n'.join(L)


def _is_mixin(cls):
    return cls.endswith('ConfiguratorMixin') or cls == 'Configurator'


def _direct_callers(methods, target_cls, target_name):
    """methods of config/*.py that call the target: `self.NAME(...)` when the target sits on a configurator mixin,
    `info.NAME(self, ...)` (info = the StaticURLInfo utility) when it sits on another class"""
    out = []
    for (fn, cls, name), f in methods.items():
        if (cls, name) == (target_cls, target_name):
            continue
        for n in ast.walk(f):
            if isinstance(n, ast.Call) and isinstance(n.func, ast.Attribute) and n.func.attr == target_name \
                    and isinstance(n.func.value, ast.Name):
                recv = n.func.value.id
                if _is_mixin(target_cls):
                    ok = recv == 'self' and _is_mixin(cls)
                else:
                    ok = recv == 'info' and n.args and isinstance(n.args[0], ast.Name) and n.args[0].id == 'self' and _is_mixin(cls)
                if ok:
                    out.append((fn, cls, name))
                    break
    return out


def _entries(methods, cls, name, depth=0):
    """the public directives through which a body that builds introspectables is reached: the body itself when it is a
    public method of a configurator mixin; otherwise its callers, followed upwards through non-public methods.
    -> [('Class.method', decorated with @action_method)]; [] when none is found (the obligation then fails)"""
    if _is_mixin(cls) and not name.startswith('_'):
        f = next(f for (fn, c, n), f in methods.items() if (c, n) == (cls, name))
        return [('%s.%s' % (cls, name), any(U(d) == 'action_method' for d in f.decorator_list))]
    if depth > 3:
        return []
    out = []
    for (fn, c, n) in _direct_callers(methods, cls, name):
        for e in _entries(methods, c, n, depth + 1):
            if e not in out:
                out.append(e)
    return sorted(out)


def find_directives(src_root):
    cfg = os.path.join(src_root, 'pyramid', 'config')
    out = []
    methods = {}
    trees = []
    for fn in sorted(os.listdir(cfg)):
        if not fn.endswith('.py'):
            continue
        src = open(os.path.join(cfg, fn)).read()
        tree = ast.parse(src)
        trees.append((fn, tree))
        for cls in tree.body:
            if isinstance(cls, ast.ClassDef):
                for f in cls.body:
                    if isinstance(f, ast.FunctionDef):
                        methods[(fn, cls.name, f.name)] = f
    for fn, tree in trees:
        for cls in tree.body:
            if not isinstance(cls, ast.ClassDef):
                continue
            for f in cls.body:
                if isinstance(f, ast.FunctionDef) and any(is_intr_call(n) for n in ast.walk(f)):
                    sl = Slice(fn, f, cls.name)
                    sl.entries = _entries(methods, cls.name, f.name)
                    out.append(sl)
        # an introspectable built outside a class method is not a shape we follow
        for f in tree.body:
            if isinstance(f, ast.FunctionDef) and any(is_intr_call(n) for n in ast.walk(f)):
                s = Slice(fn, f)
                s.unknown.append('introspectable built in a module-level function')
                out.append(s)
    return out


# ---------------------------------------------------------------------------------------------------
def _method(tree, cls, name):
    for c in tree.body:
        if isinstance(c, ast.ClassDef) and c.name == cls:
            for f in c.body:
                if isinstance(f, ast.FunctionDef) and f.name == name:
                    return f
    return None


def _forwards(func):
    """does the `self.__class__(...)` call in func pass introspection=self.introspection ?"""
    if func is None:
        return 'missing'
    calls = [n for n in ast.walk(func) if isinstance(n, ast.Call) and U(n.func) == 'self.__class__']
    if len(calls) != 1:
        return 'unknown'
    kws = {k.arg: U(k.value) for k in calls[0].keywords}
    v = kws.get('introspection')
    if v is None:
        return 'absent'
    return 'forwards' if v == 'self.introspection' else 'other:' + v


PROBE = r"""
import json, sys, warnings
warnings.simplefilter('ignore')
out = {}
def guard(name, fn):
    try:
        out[name] = fn()
    except Exception as e:
        out[name] = 'probe-failed:%s:%s' % (type(e).__name__, str(e)[:120])

from pyramid.config import Configurator
from pyramid.config.actions import ActionState
from pyramid.exceptions import ConfigurationExecutionError
from pyramid.registry import Introspectable, Introspector, Deferred

def include_():
    res = []
    for flag in (False, True):
        seen = []
        def inc(c):
            seen.append(bool(c.introspection))
        Configurator(introspection=flag).include(inc)
        res.append(seen == [flag])
    return 'forwards' if all(res) else ('absent' if not res[0] and res[1] else 'other')
guard('include', include_)

def with_package_():
    import pyramid
    ok = all(bool(Configurator(introspection=f).with_package(pyramid).introspection) == f for f in (False, True))
    return 'forwards' if ok else 'absent'
guard('with_package', with_package_)

def ctor_():
    a, b, c = Configurator(), Configurator(introspection=False), Configurator(introspection=True)
    return 'default=%s;%s' % (a.introspection, 'stores' if (b.introspection is False and c.introspection is True) else 'does-not-store')
guard('ctor', ctor_)

class FakeIntr:
    def __init__(self, tag, log):
        self.tag, self.log = tag, log
    def register(self, introspector, info):
        self.log.append('register:%s:%s:%s' % (self.tag, info, 'I' if introspector == 'INTROSPECTOR' else '?'))

def action_():
    res = []
    for flag in (False, True):
        cfg = Configurator(introspection=flag)
        cfg.commit()
        x = FakeIntr('x', [])
        cfg.action(None, introspectables=(x,))
        pend = cfg.action_state.actions[-1]
        res.append(len(pend.get('introspectables', ())))
    # autocommit: registered at once iff the flag is on
    auto = []
    for flag in (False, True):
        cfg = Configurator(introspection=flag, autocommit=True)
        log = []
        x = FakeIntr('x', log)
        calls = []
        cfg.action(None, lambda: calls.append('call'), introspectables=(x,))
        auto.append((calls, len(log)))
    ok = res == [0, 1] and auto == [(['call'], 0), (['call'], 1)]
    return 'drops-when-off' if ok else 'other:%s:%s' % (res, auto)
guard('action', action_)

def execute_():
    verdict = []
    # 1. callable first, then the action's introspectables in list order, with the action's info; action by action
    log = []
    st = ActionState()
    st.action(None, lambda: log.append('call:a'), info='ia', introspectables=(FakeIntr('a1', log), FakeIntr('a2', log)))
    st.action(1, lambda: log.append('call:b'), info='ib', introspectables=(FakeIntr('b1', log),))
    st.action(1, lambda: log.append('call:c'), info='ic', includepath=('x',), introspectables=(FakeIntr('c1', log),))   # overridden by b
    st.action(None, None, info='id', introspectables=(FakeIntr('d1', log),))                                           # no callable
    st.execute_actions(introspector='INTROSPECTOR')
    verdict.append('order-ok' if log == ['call:a', 'register:a1:ia:I', 'register:a2:ia:I', 'call:b', 'register:b1:ib:I', 'register:d1:id:I']
                   else 'order:' + ','.join(log))
    # 2. a callable that raises: ConfigurationExecutionError, its introspectables and everything after it untouched
    log = []
    st = ActionState()
    def boom():
        log.append('call:e'); raise ValueError('x')
    st.action(None, lambda: log.append('call:a'), info='ia', introspectables=(FakeIntr('a1', log),))
    st.action(None, boom, info='ie', introspectables=(FakeIntr('e1', log),))
    st.action(None, lambda: log.append('call:f'), info='if', introspectables=(FakeIntr('f1', log),))
    try:
        st.execute_actions(introspector='INTROSPECTOR')
        log.append('no-error')
    except ConfigurationExecutionError:
        log.append('CEE')
    verdict.append('error-ok' if log == ['call:a', 'register:a1:ia:I', 'call:e', 'CEE'] else 'error:' + ','.join(log))
    # 3. without an introspector nothing is registered
    log = []
    st = ActionState()
    st.action(None, lambda: log.append('call:a'), info='ia', introspectables=(FakeIntr('a1', log),))
    st.execute_actions()
    verdict.append('none-ok' if log == ['call:a'] else 'none:' + ','.join(log))
    # 4. an action appended while executing is executed and registered too (re-entrant loop)
    log = []
    st = ActionState()
    def adder():
        log.append('call:a')
        st.action(None, lambda: log.append('call:g'), info='ig', introspectables=(FakeIntr('g1', log),))
    st.action(None, adder, info='ia', introspectables=(FakeIntr('a1', log),))
    st.execute_actions(introspector='INTROSPECTOR')
    verdict.append('reentrant-ok' if log == ['call:a', 'register:a1:ia:I', 'call:g', 'register:g1:ig:I'] else 'reentrant:' + ','.join(log))
    return ';'.join(verdict)
guard('execute', execute_)

def register_():
    class Rec(Introspector):
        def __init__(self):
            Introspector.__init__(self); self.log = []
        def add(self, intr):
            self.log.append('add(info=%s,undeferred=%s)' % (intr.action_info, not isinstance(intr.discriminator, Deferred)))
            Introspector.add(self, intr)
        def relate(self, *pairs):
            self.log.append('relate%s' % (pairs,)); Introspector.relate(self, *pairs)
        def unrelate(self, *pairs):
            self.log.append('unrelate%s' % (pairs,)); Introspector.unrelate(self, *pairs)
    I = Rec()
    t1 = Introspectable('c', 't1', 't', 'ty'); t1.register(I, 'i0')
    t2 = Introspectable('c', 't2', 't', 'ty'); t2.register(I, 'i0')
    I.log = []
    x = Introspectable('c', Deferred(lambda: 'x'), 't', 'ty')
    x.relate('c', 't1'); x.unrelate('c', Deferred(lambda: 't2')); x.relate('c', 't2')
    x.register(I, 'ix')
    want = ["add(info=ix,undeferred=True)", "relate(('c', 'x'), ('c', 't1'))", "unrelate(('c', 'x'), ('c', 't2'))", "relate(('c', 'x'), ('c', 't2'))"]
    return 'undefer,info,add,relations' if I.log == want else 'other:' + ';'.join(I.log)
guard('register', register_)
print('C20PROBE ' + json.dumps(out))
"""


def flag_facts(src_root):
    """the six facts about the `introspection` flag and the registration step, obtained by *running* the code of the tree
    under test in a child interpreter (a behaviour-preserving rewrite of execute_actions / action / include / register
    changes nothing here); `probe-failed:…` when the probe itself cannot run (the obligation then fails: closed)"""
    import json, subprocess, sys
    env = dict(os.environ)
    env['PYTHONPATH'] = os.path.abspath(src_root) + os.pathsep + env.get('PYTHONPATH', '')
    env['PYTHONWARNINGS'] = 'ignore'
    keys = ('include', 'with_package', 'ctor', 'action', 'execute', 'register')
    try:
        p = subprocess.run([sys.executable, '-c', PROBE], env=env, stdout=subprocess.PIPE, stderr=subprocess.PIPE, timeout=120)
        line = [l for l in p.stdout.decode(errors='replace').splitlines() if l.startswith('C20PROBE ')]
        if p.returncode != 0 or not line:
            raise RuntimeError('exit %s: %s' % (p.returncode, p.stderr.decode(errors='replace')[-200:]))
        got = json.loads(line[-1][len('C20PROBE '):])
        return {k: str(got.get(k, 'probe-failed:missing')) for k in keys}
    except Exception as e:
        return {k: 'probe-failed:%s' % str(e)[:160] for k in keys}


PROBE_TABLE = r"""
import json, re, sys, warnings
warnings.simplefilter('ignore')
from zope.interface import Interface
from zope.interface.interface import InterfaceClass
from pyramid.config import Configurator
from pyramid.registry import Deferred, undefer

import os, pyramid
SRC = os.path.dirname(os.path.dirname(os.path.abspath(pyramid.__file__)))
SENT, SENTSTR = {}, {}
KEEP = []

def reg(obj, p):
    SENT[id(obj)] = p; KEEP.append(obj); return obj
def fn(p):
    def f(*a, **k): return None
    f.__name__ = f.__qualname__ = p
    return reg(f, p)
def view(p):
    def v(context, request): return {}
    v.__name__ = v.__qualname__ = p
    return reg(v, p)
def deco(p):
    def d(v): return v
    return reg(d, p)
def cls(p): return reg(type(p, (), {}), p)
def viewcls(p): return reg(type(p, (), {'__init__': lambda self, request: None, 'zz_attr_meth': lambda self: {}}), p)
def exc(p): return reg(type(p, (Exception,), {}), p)
def iface(p): return reg(InterfaceClass(p), p)
def inst(p): return reg(type(p, (), {})(), p)
def mapper(p):
    class M:
        def __init__(self, **kw): pass
        def __call__(self, view): return view
    M.__name__ = p
    return reg(M, p)
def deriver(p, options=()):
    def d(view, info): return view
    d.__name__ = d.__qualname__ = p; d.options = options
    return reg(d, p)
def s(p, text=None):
    text = text if text is not None else 'S_' + p
    SENTSTR[text] = p
    return text

def sym(v, depth=0):
    if isinstance(v, Deferred):
        v = undefer(v)
    if id(v) in SENT and not isinstance(v, (str, int, bool, type(None))):
        return '$' + SENT[id(v)]
    if v is None or isinstance(v, bool):
        return repr(v)
    if isinstance(v, int):
        for o in KEEP:
            if id(o) == v:
                return 'id($%s)' % SENT[id(o)]
        return repr(v)
    if isinstance(v, str):
        if v in SENTSTR:
            return '$' + SENTSTR[v]
        if re.fullmatch(r'[0-9a-f]{64}', v):
            return '<phash>'
        out = v.replace(SRC, '<src>')
        for text in sorted(SENTSTR, key=len, reverse=True):
            out = out.replace(text, '${%s}' % SENTSTR[text])
        out = re.sub(r'0x[0-9a-f]+', '0x..', out)
        return repr(out)
    if isinstance(v, tuple):
        return '(' + ', '.join(sym(x) for x in v) + (',' if len(v) == 1 else '') + ')'
    if isinstance(v, list):
        return '[' + ', '.join(sym(x) for x in v) + ']'
    if isinstance(v, dict):
        return '{' + ', '.join('%s: %s' % (sym(k), sym(x)) for k, x in sorted(v.items(), key=lambda kv: str(kv[0]))) + '}'
    if isinstance(v, InterfaceClass) or isinstance(v, type):
        return '<%s>' % getattr(v, '__name__', type(v).__name__)
    if type(v).__name__ == 'RendererHelper':
        return '<RendererHelper name=%s type=%s>' % (sym(v.name), sym(v.type))
    if type(v).__name__ == 'DefaultCSRFOptions':
        return '<DefaultCSRFOptions>'
    if callable(v) and hasattr(v, '__name__'):
        mod = getattr(v, '__module__', '') or ''
        return '<function %s>' % re.sub(r'0x[0-9a-f]+', '0x..', v.__name__) if mod.startswith('pyramid') else '<callable>'
    return '<%s>' % type(v).__name__

def tween_a(handler, registry): return handler
sys.modules['c20probe'] = type(sys)('c20probe'); sys.modules['c20probe'].tween_a = tween_a; sys.modules['c20probe'].target = fn('dotted_target')

CALLS = []
def call(_n, _d, mk):
    CALLS.append((_n, _d, mk))

# ---- the probe calls: every directive that builds introspectables, every branch that changes what is recorded ----
call('add_subscriber/one-iface', 'add_subscriber', lambda: dict(subscriber=fn('subscriber'), iface=iface('iface')))
call('add_subscriber/default-iface', 'add_subscriber', lambda: dict(subscriber=fn('subscriber')))
call('add_subscriber/two-ifaces', 'add_subscriber', lambda: dict(subscriber=fn('subscriber'), iface=(iface('iface0'), iface('iface1'))))
call('add_response_adapter', 'add_response_adapter', lambda: dict(adapter=fn('adapter'), type_or_iface=cls('type_or_iface')))
call('add_traverser', 'add_traverser', lambda: dict(adapter=cls('adapter'), iface=iface('iface')))
call('add_traverser/default', 'add_traverser', lambda: dict(adapter=cls('adapter')))
call('add_resource_url_adapter', 'add_resource_url_adapter', lambda: dict(adapter=cls('adapter'), resource_iface=iface('resource_iface')))
call('override_asset', 'override_asset', lambda: dict(to_override=s('to_override', 'pyramid:config/'), override_with=s('override_with', 'pyramid.scripts:'), _override=fn('_override')))
call('set_root_factory', 'set_root_factory', lambda: dict(factory=fn('factory')))
call('set_root_factory/none', 'set_root_factory', lambda: dict(factory=None))
call('set_session_factory', 'set_session_factory', lambda: dict(factory=fn('factory')))
call('set_request_factory', 'set_request_factory', lambda: dict(factory=fn('factory')))
call('set_response_factory', 'set_response_factory', lambda: dict(factory=fn('factory')))
call('set_request_factory/dotted', 'set_request_factory', lambda: dict(factory='c20probe.target'))
call('add_request_method/method', 'add_request_method', lambda: dict(callable=fn('callable'), name=s('name', 'rm_name')))
call('add_request_method/property', 'add_request_method', lambda: dict(callable=fn('callable'), name=s('name', 'rm_name'), property=True))
call('add_request_method/reify', 'add_request_method', lambda: dict(callable=fn('callable'), name=s('name', 'rm_name'), reify=True))
call('add_request_method/no-name', 'add_request_method', lambda: dict(callable=fn('callable')))
call('set_execution_policy', 'set_execution_policy', lambda: dict(policy=fn('policy')))
call('set_locale_negotiator', 'set_locale_negotiator', lambda: dict(negotiator=fn('negotiator')))
call('add_translation_dirs/two', 'add_translation_dirs', lambda: dict(pos=(s('specs0', 'pyramid:config/'), s('specs1', 'pyramid:scripts'))))
call('add_translation_dirs/override', 'add_translation_dirs', lambda: dict(pos=(s('specs0', 'pyramid:config/'), s('specs1', 'pyramid:scripts')), override=True))
call('add_view_predicate', 'add_view_predicate', lambda: dict(name=s('name', 'pred_name'), factory=fn('factory'), weighs_more_than=s('weighs_more_than', 'xhr'), weighs_less_than=s('weighs_less_than', 'request_method')))
call('add_route_predicate', 'add_route_predicate', lambda: dict(name=s('name', 'pred_name'), factory=fn('factory'), weighs_more_than=s('weighs_more_than', 'xhr')))
call('add_subscriber_predicate', 'add_subscriber_predicate', lambda: dict(name=s('name', 'pred_name'), factory=fn('factory')))
call('add_renderer', 'add_renderer', lambda: dict(name=s('name', '.rname'), factory=fn('factory')))
call('add_renderer/default', 'add_renderer', lambda: dict(name=None, factory=fn('factory')))
call('add_route/all-options', 'add_route', lambda: dict(name=s('name', 'route_name_x'), pattern=s('pattern', '/pat/{x}'), factory=fn('factory'), header=s('header', 'X-Hdr:val'), xhr=True,
     accept=s('accept', 'text/x-accept'), path_info=s('path_info', '/pinfo'), request_method=(s('request_method1', 'PUT'), s('request_method0', 'GET')), request_param=s('request_param', 'rparam'),
     traverse=s('traverse', '/trav'), use_global_views=True, pregenerator=fn('pregenerator'), static=False))
call('add_route/minimal', 'add_route', lambda: dict(name=s('name', 'route_name_x'), pattern=s('pattern', '/pat/{x}')))
call('add_route/path-static', 'add_route', lambda: dict(name=s('name', 'route_name_x'), path=s('path', '/pth/{x}'), static=True, request_method=s('request_method', 'POST'), accept=s('accept', 'Text/X-Accept')))
call('add_route/external', 'add_route', lambda: dict(name=s('name', 'route_name_x'), pattern=s('pattern', 'https://ext.example.com/e/{y}'), pregenerator=fn('pregenerator')))
call('add_route/prefixed', 'add_route', lambda: dict(setup=('prefix',), name=s('name', 'route_name_x'), pattern=s('pattern', '/pat/{x}')))
call('set_security_policy', 'set_security_policy', lambda: dict(policy=inst('policy')))
call('set_authentication_policy', 'set_authentication_policy', lambda: dict(setup=('authz',), policy=inst('policy')))
call('set_authorization_policy', 'set_authorization_policy', lambda: dict(setup=('authn',), policy=inst('policy')))
call('set_default_permission', 'set_default_permission', lambda: dict(permission=s('permission', 'perm_x')))
call('add_permission', 'add_permission', lambda: dict(permission_name=s('permission_name', 'perm_x')))
call('set_default_csrf_options/a', 'set_default_csrf_options', lambda: dict(require_csrf=False, token=s('token', 'tok_x'), header=s('header', 'X-Tok'), safe_methods=(s('safe_methods1', 'TRACE'), s('safe_methods0', 'GET')),
     check_origin=True, allow_no_origin=False, callback=fn('callback')))
call('set_default_csrf_options/b', 'set_default_csrf_options', lambda: dict(require_csrf=True, token=s('token', 'tok_x'), header=s('header', 'X-Tok'), safe_methods=(s('safe_methods0', 'GET'),),
     check_origin=False, allow_no_origin=True))
call('set_csrf_storage_policy', 'set_csrf_storage_policy', lambda: dict(policy=inst('policy')))
call('add_tween', 'add_tween', lambda: dict(tween_factory=s('tween_factory', 'c20probe.tween_a'), under=(s('under0', 'INGRESS'), s('under1', 'pyramid.tweens.excview_tween_factory')), over=s('over', 'MAIN')))
call('add_tween/minimal', 'add_tween', lambda: dict(tween_factory=s('tween_factory', 'c20probe.tween_a')))
call('add_view/all-options', 'add_view', lambda: dict(setup=('route', 'renderer.xyz', 'deriver'), view=view('view'), name=s('name', 'vname'), permission=s('permission', 'perm_x'), route_name=s('route_name', 'route_name_x'),
     request_method=(s('request_method0', 'GET'), s('request_method1', 'POST')), request_param=s('request_param', 'rparam'), containment=cls('containment'), xhr=True,
     accept=s('accept', 'Text/X-Accept'), header=s('header', 'X-Hdr'), path_info=s('path_info', '/pinfo'), context=cls('context'), decorator=deco('decorator'), mapper=mapper('mapper'),
     http_cache=s('http_cache', 4242) if False else 4242, match_param=s('match_param', 'mp=1'), require_csrf=True, renderer=s('renderer', 'tpl.xyz'), zopt=s('zopt', 'zval')))
call('add_view/minimal', 'add_view', lambda: dict(view=view('view')))
call('add_view/for_', 'add_view', lambda: dict(view=view('view'), for_=cls('for_'), renderer=s('renderer', 'json')))
call('add_view/no-view-template', 'add_view', lambda: dict(renderer=s('renderer', 'tpl.pt'), name=s('name', 'vname')))
call('add_view/class-attr', 'add_view', lambda: dict(view=viewcls('view'), attr=s('attr', 'zz_attr_meth'), permission=s('permission', 'perm_x')))
call('add_view/exception-only', 'add_view', lambda: dict(view=view('view'), context=exc('context'), exception_only=True))
call('add_accept_view_order', 'add_accept_view_order', lambda: dict(value=s('value', 'Text/X-Value'), weighs_more_than=[s('weighs_more_than0', 'Text/HTML'), s('weighs_more_than1', 'application/json')], weighs_less_than=s('weighs_less_than', 'text/plain')))
call('add_accept_view_order/minimal', 'add_accept_view_order', lambda: dict(value=s('value', 'Text/X-Value')))
call('add_view_deriver/all', 'add_view_deriver', lambda: dict(deriver=deriver('deriver'), name=s('name', 'dname'), under=(s('under1', 'http_cached_view'), s('under0', 'decorated_view')), over=s('over', 'rendered_view')))
call('add_view_deriver/defaults', 'add_view_deriver', lambda: dict(deriver=deriver('deriver')))
call('set_view_mapper', 'set_view_mapper', lambda: dict(mapper=mapper('mapper')))
call('add_static_view', 'add_static_view', lambda: dict(name=s('name', 'static_x'), path=s('path', 'pyramid:config')))
call('add_static_view/slash-prefixed', 'add_static_view', lambda: dict(setup=('prefix',), name=s('name', 'static_x/'), path=s('path', 'pyramid:config/')))
call('add_cache_buster', 'add_cache_buster', lambda: dict(path=s('path', 'pyramid:config'), cachebust=fn('cachebust'), explicit=True))
call('add_cache_buster/default', 'add_cache_buster', lambda: dict(path=s('path', 'pyramid:config/'), cachebust=fn('cachebust')))

def run_call(name, directive, mk):
    SENT.clear(); SENTSTR.clear(); del KEEP[:]
    sys.modules['c20probe'].target = fn('dotted_target')
    kw = mk()
    setup = kw.pop('setup', ())
    pos = kw.pop('pos', ())
    cfg = Configurator()
    cfg.commit()
    target = cfg
    for st in setup:
        if st == 'route':
            cfg.add_route('route_name_x', '/setup-route')
        elif st == 'renderer.xyz':
            cfg.add_renderer('.xyz', lambda info: None)
        elif st == 'deriver':
            cfg.add_view_deriver(deriver('setup_deriver', ('zopt',)), name='zderiver')
        elif st == 'authz':
            cfg.set_authorization_policy(object())
        elif st == 'authn':
            cfg.set_authentication_policy(object())
        elif st == 'prefix':
            holder = []
            def inc(c): holder.append(c)
            cfg.include(inc, route_prefix=s('route_prefix', '/rprefix'))
            target = holder[0]
    if any(st in ('route', 'renderer.xyz', 'deriver') for st in setup):
        cfg.commit()
    state = cfg.action_state
    before = len(state.actions)
    code = compile('getattr(cfg, name)(*pos, **kw)', '<c20-probe>', 'exec')
    exec(code, {'cfg': target, 'name': directive, 'pos': pos, 'kw': kw})
    acts = list(state.actions[before:])
    try:
        cfg.commit()
        committed = 'ok'
    except Exception as e:
        committed = 'commit-failed:%s' % type(e).__name__
    intros, index = [], {}
    for a in acts:
        for i in a.get('introspectables', ()):
            if id(i) not in index:
                index[id(i)] = len(intros); intros.append(i)
    rec = {'name': name, 'directive': directive, 'commit': committed, 'actions': [], 'intros': []}
    for a in acts:
        info = a['info']
        ok = getattr(info, 'file', None) == '<c20-probe>' and getattr(info, 'line', None) == 1
        rec['actions'].append([sym(a['discriminator']), str(a['order'] or 0), bool(ok), [index[id(i)] for i in a.get('introspectables', ())]])
    for i in intros:
        rec['intros'].append({'category': i.category_name, 'discr': sym(i.discriminator), 'title': sym(i.title), 'typeName': i.type_name,
                              'keys': sorted([k, sym(v)] for k, v in i.items()),
                              'rels': [[bool(r), c, sym(d)] for r, c, d in i._relations]})
    return rec

out = []
for c in CALLS:
    SENTSTR_before = None
    try:
        out.append(run_call(*c))
    except Exception as e:
        out.append({'name': c[0], 'directive': c[1], 'commit': 'probe-failed:%s:%s' % (type(e).__name__, str(e)[:100]), 'actions': [], 'intros': []})
print('C20TABLE ' + json.dumps(out))
"""

# public directive -> name of the body (slice) in the specification table
SLICE_OF = {'add_view_predicate': '_add_predicate', 'add_route_predicate': '_add_predicate', 'add_subscriber_predicate': '_add_predicate',
            'add_tween': '_add_tween', 'add_static_view': 'add'}


def probe_table(src_root):
    """run every directive with pairwise different sentinel arguments on a real Configurator of the tree under test (child
    interpreter), commit, and read what the pending actions carried: per call the actions (discriminator, order, whether the
    action info is the calling statement, which introspectables) and per introspectable category / discriminator / title /
    type name / every key with its value / the recorded relations — values written symbolically: `$p` = the very object or
    string passed as parameter `p`, `${p}` inside a string, `<Type>` for objects the directive made itself.
    -> (status, [call records]); status != 'ok' when the probe cannot run (the obligation then fails: closed)"""
    import json, subprocess, sys
    env = dict(os.environ)
    env['PYTHONPATH'] = os.path.abspath(src_root) + os.pathsep + env.get('PYTHONPATH', '')
    env['PYTHONWARNINGS'] = 'ignore'
    try:
        p = subprocess.run([sys.executable, '-c', PROBE_TABLE], env=env, stdout=subprocess.PIPE, stderr=subprocess.PIPE, timeout=300)
        line = [l for l in p.stdout.decode(errors='replace').splitlines() if l.startswith('C20TABLE ')]
        if p.returncode != 0 or not line:
            raise RuntimeError('exit %s: %s' % (p.returncode, p.stderr.decode(errors='replace')[-200:]))
        return 'ok', json.loads(line[-1][len('C20TABLE '):])
    except Exception as e:
        return 'probe-failed:%s' % str(e)[:160], []


def lean_probe_table(name, table):
    L = ['def %s : List PCall := [' % name]
    rows = []
    for r in table:
        acts = lean_list(['(%s, %s, %s, %s)' % (lean_str(a[0]), lean_str(a[1]), 'true' if a[2] else 'false', '[' + ', '.join(str(i) for i in a[3]) + ']') for a in r['actions']])
        intros = []
        for i in r['intros']:
            keys = lean_list(['(%s, %s)' % (lean_str(k), lean_str(v)) for k, v in i['keys']])
            rels = lean_list(['(%s, %s, %s)' % ('true' if x[0] else 'false', lean_str(x[1]), lean_str(x[2])) for x in i['rels']])
            intros.append('\n      { category := %s, discr := %s, title := %s, typeName := %s,\n        keys := %s,\n        rels := %s }' % (
                lean_str(i['category']), lean_str(i['discr']), lean_str(i['title']), lean_str(i['typeName']), keys, rels))
        rows.append('  { name := %s, slice := %s, commit := %s,\n    actions := %s,\n    intros := %s }' % (
            lean_str(r['name']), lean_str(SLICE_OF.get(r['directive'], r['directive'])), lean_str(r['commit']), acts, lean_list(intros)))
    L.append(',\n'.join(rows))
    L.append(']')
    return '\n'.join(L)


def doc_categories(src_root):
    """the category headings of the section "Pyramid Introspection Categories" of docs/narr/introspector.rst: a line
    ``name`` at column 0 followed by a blank line and an indented body.  -> (status, [names]); status is not 'ok' when the
    file, the section or its end cannot be found, or a heading has another shape (the obligations then fail)"""
    import re
    path = os.path.join(os.path.dirname(os.path.abspath(src_root)), 'docs', 'narr', 'introspector.rst')
    try:
        lines = open(path).read().split('\n')
    except OSError:
        return 'missing', []
    start = [i for i, l in enumerate(lines[:-1]) if l.strip() == 'Pyramid Introspection Categories' and set(lines[i + 1].strip()) == {'-'}]
    if len(start) != 1:
        return 'no-section', []
    body = lines[start[0] + 2:]
    end = [i for i, l in enumerate(body[:-1]) if l and not l.startswith((' ', '`', '.')) and body[i + 1].strip() and set(body[i + 1].strip()) <= set('-=~^')
           and len(body[i + 1].strip()) >= len(l.strip())]
    if not end:
        return 'no-end', []
    body = body[:end[0]]
    names, status = [], 'ok'
    for i, l in enumerate(body):
        if l.startswith('``'):
            m = re.fullmatch(r'``([^`]+)``', l.rstrip())
            nxt = body[i + 1] if i + 1 < len(body) else ''
            if m and nxt.strip() == '':
                names.append(m.group(1))
            else:
                status = 'odd-heading:' + l.strip()[:40]
        elif l and not l.startswith(' ') and names:
            # unindented prose between headings is not expected inside the list
            status = 'odd-line:' + l.strip()[:40]
    if not names:
        status = 'empty'
    if len(set(names)) != len(names):
        status = 'duplicate-heading'
    return status, names


def generate(src_root):
    # the AST read of the directive bodies is kept as information only: no obligation rests on it any more
    try:
        ds = find_directives(src_root)
        ast_note = 'ok'
    except Exception as e:
        ds, ast_note = [], 'ast-read-failed:%s' % str(e)[:120]
    pstatus, ptable = probe_table(src_root)
    ff = flag_facts(src_root)
    dstatus, dnames = doc_categories(src_root)
    L = ['import PyramidModel.Lemmas.IntrospectTable',
         '/-! GENERATED by extract/c20.py from src/pyramid/config/*.py, config/actions.py, registry.py — do not edit. -/',
         'namespace Pyr.Gen.C20',
         'open Pyr.Introspect',
         '',
         '/-- (information only, no obligation) the AST slice of every directive that builds an introspectable: %s -/' % ast_note,
         'def directives : List GDirective := [',
         ',\n'.join(d.lean() for d in ds),
         ']',
         '',
         '/-- what every directive records, probed on the running code (see extract/c20.py: PROBE_TABLE) -/',
         'def probeStatus : String := %s' % lean_str(pstatus),
         lean_probe_table('probeTable', ptable),
         '',
         '/-- docs/narr/introspector.rst, section "Pyramid Introspection Categories": was it parsed, and its headings -/',
         'def docStatus : String := %s' % lean_str(dstatus),
         'def docCategories : List String := %s' % lean_strs(dnames),
         '',
         '/-- probe: does `Configurator.include` hand `introspection` to the nested configurator -/',
         'def includeFlag : String := %s' % lean_str(ff['include']),
         '/-- the same in `Configurator.with_package` -/',
         'def withPackageFlag : String := %s' % lean_str(ff['with_package']),
         '/-- probe: constructor default of `introspection`, and that the argument is stored -/',
         'def ctorFlag : String := %s' % lean_str(ff['ctor']),
         '/-- probe: `Configurator.action` keeps the introspectables iff the flag is on (pending action and autocommit) -/',
         'def actionFlag : String := %s' % lean_str(ff['action']),
         '/-- probe of `ActionState.execute_actions`: callable then registration in order / error aborts / no introspector / re-entrant -/',
         'def executeLoop : String := %s' % lean_str(ff['execute']),
         '/-- probe of `Introspectable.register`: undefer, info, add, then the recorded relations in order -/',
         'def registerBody : String := %s' % lean_str(ff['register']),
         '',
         'end Pyr.Gen.C20', '']
    summary.clear()
    summary.update({'directives': len(ds), 'introspectables': sum(len(d.intros) for d in ds),
                    'keys': sum(len(d.keys) for d in ds), 'relations': sum(len(d.rels) for d in ds),
                    'actions': sum(len(d.acts) for d in ds), 'defs': sum(len(d.defs) for d in ds),
                    'unknown': [d.name + ': ' + u for d in ds for u in d.unknown], 'flags': ff,
                    'doc_status': dstatus, 'doc_categories': len(dnames), 'ast_read': ast_note,
                    'probe_status': pstatus, 'probe_calls': len(ptable), 'probe_introspectables': sum(len(r['intros']) for r in ptable),
                    'probe_keys': sum(len(i['keys']) for r in ptable for i in r['intros'])})
    return {'PyramidModel/Gen/C20.lean': '\n'.join(L)}


if __name__ == '__main__':
    import sys, json
    files = generate(sys.argv[1] if len(sys.argv) > 1 else '/repo/src')
    for k, v in files.items():
        print(v)
    print(json.dumps(summary, indent=1), file=sys.stderr)
