"""Translator for C01: regenerates the facts the C01 theorems rest on by RUNNING pyramid.urldispatch of the tree under
test (a fresh interpreter with `src_root` first on the path) and probing it — nothing is pattern-matched from the AST,
so a refactoring of `_compile_route` / `RoutesMapper` that preserves behaviour gives the same tables and one that does
not changes them.

Probed facts (Lean data in Gen/C01.lean, decided against the model in Props/C01.lean):
 * compileProbes   for every pattern of a fixed cube (literals with every regex metacharacter, white space, non-ASCII,
                   `%`, `*` inside; `{n}`, several per segment, `{n:rx}` incl. nested braces, a colon in the regex and capturing groups of the regex's own;
                   old-style `:n`, mixed; `*rest`, `*` alone, `*rest` not at the end; missing leading slash; bad and
                   repeated group names; unbalanced braces):
     - regex       the text `_compile_route` hands to `re.compile` (recorded by a wrapper put in place of
                   `pyramid.urldispatch.re` in the probe process), or "re.error"
     - gen         the `%`-template of the generator, reconstructed from its *behaviour* (called with sentinel values)
     - matches     what the returned matcher answers on a list of paths (None / dictionary, remainder as a tuple)
   Lean decides `regexText (compileRoute pattern) = regex`, `genTemplate … = gen`, `matchToks … path = answer`.
 * mapperProbes    scenarios run through a real `RoutesMapper` (connect + __call__ with a real Request): order, `continue`
                   after a failing predicate, predicates see the match dictionary, static routes, re-connecting a name,
                   empty / missing PATH_INFO, invalid UTF-8; Lean decides them against `runDecls` + `mapperCall`.
 * predicateAttached  for every built-in predicate keyword of `add_route` and a range of values including the falsy but
                   meaningful ones (`xhr=False`, `request_method=()`, `header=''`, `accept=()`, `is_authenticated=False`,
                   `effective_principals=()` …): how many predicates the connected route carries — Lean decides "one iff the
                   value is not None" against the model's `addRoute`.
 * cfg             the enum summary `Pyr.Route.Cfg`, *derived from the probes* (anchor = what follows the escaped literal,
                   default placeholder regex = what `{x}` expands to, remainder template, literals escaped with re.escape,
                   old-style / star / brace grammar and `split(':', 1)` by discriminating probes with a fixed expected
                   text, loop order / static / remainder normalisation from the mapper scenarios); anything else is
                   `unknown` / `false`.
Fails closed: an unexpected exception, a missing recording, a sentinel clash or a module imported from elsewhere lands in
`probeProblems`, which Props/C01.lean requires to be empty.
"""
import json, os, subprocess, sys

summary = {}

ALL_META = "/a.b^c$d+e?f(g)h[i]j|k\\l-m~n#o&p%q r;s,t=u@v!w'x\"y<z>:/_"
CUBE = [
    # literals
    '/', '', '/a', 'a', '//a', '/a/b/', ALL_META, '/a\tb\nc', '/caf\u00e9/\u65e5\u672c/\U0001f600', '/a*b/c', '/100%/%41', '/a b',
    # new-style placeholders
    '/{x}', '{x}', '/a/{x}/b', '/{x}{y}', '/{x}-{y}.{z}', '/{_a1}/{B}', '/{x}/', '/a.b/{x}',
    # custom regexes
    '/{x:\\d+}', '/{y:\\d{4}}/{m:\\d{2}}', '/{x:[a-z]+}', '/{x:(?:a|b)}', '/{x:.*}', '/{a:b:c}', '/{x:\\w+?}{y}', '/{x:(?s:.)}z',
    '/{x:[^/]+}', '/{x:}', '/{a:((?:x|y))}/{b}', '/{a:(?:((?:x|y))\\-)+}{b:(\\d)(\\d)}/*r',
    # old style
    '/:x', ':x', '/a/:x/b', '/:x-:y', '/:_a1/:b-c', '/a:b', '/a/:x/{y}', '/:1x', '/a:/b', '/::x',
    # remainder
    '/*r', '*r', '/a/*rest', '/{x}*r', '/:x*y', '/a*', '/a/*', '/*r/b', '/a*b*c', '/a/*rest\n', '/b/*1x', '/a/{x}/*_r9',
    # refused / odd
    '/{x}/{x}', '/{x}*x', '/{a-b}', '/{a b}', '/{a{b}', '/{}', '/{x', '/x}', '/{x:a{1}b{2}}',
]
COMMON_PATHS = ['/', '/a', '/a/b', '/a/v/b', '/v', '/x-y.z', '/a/b/../c//d/', '/a\n', '/a/b\nc', '//a']
EXTRA_PATHS = {
    ALL_META: [ALL_META, ALL_META.replace('.', 'X'), ALL_META + '\n', ALL_META.upper()],
    '/a\tb\nc': ['/a\tb\nc', '/a b c'],
    '/caf\u00e9/\u65e5\u672c/\U0001f600': ['/caf\u00e9/\u65e5\u672c/\U0001f600', '/cafe/\u65e5\u672c/\U0001f600'],
    '/a*b/c': ['/a*b/c', '/aab/c', '/ab/c'],
    '/100%/%41': ['/100%/%41', '/100%/A'],
    '/a b': ['/a b'],
    '/a/b/': ['/a/b/', '/a/b'],
    '/{x}{y}': ['/xyz', '/xy'],
    '/{x}-{y}.{z}': ['/a-b-c.d.e', '/-.'],
    '/{_a1}/{B}': ['/p/q'],
    '/a.b/{x}': ['/a.b/v', '/aXb/v'],
    '/{x:\\d+}': ['/2024', '/20a', '/'],
    '/{y:\\d{4}}/{m:\\d{2}}': ['/2024/07', '/202/07', '/2024/7', '/20245/07'],
    '/{x:[a-z]+}': ['/abc', '/aBc'],
    '/{x:(?:a|b)}': ['/a', '/b', '/ab', '/c'],
    '/{x:.*}': ['/a/b/c', '/a\nb', '/'],
    '/{a:b:c}': ['/b:c', '/bc'],
    '/{x:\\w+?}{y}': ['/abc', '/a'],
    '/{x:(?s:.)}z': ['/\nz', '/az', '/z'],
    '/{x:}': ['/', '/a'],
    '/{a:((?:x|y))}/{b}': ['/x/42', '/y/x', '/z/1'],
    '/{a:(?:((?:x|y))\\-)+}{b:(\\d)(\\d)}/*r': ['/x-y-42/p/q', '/x-42/', '/x42/'],
    '/:x-:y': ['/a-b-c', '/a-'],
    '/:_a1/:b-c': ['/p/q-c', '/p/q'],
    '/a:b': ['/av', '/a:b'],
    '/a/:x/{y}': ['/a/:x/v', '/a/u/v'],
    '/:1x': ['/:1x', '/v'],
    '/a:/b': ['/a:/b'],
    '/::x': ['/:v', '/v'],
    '/*r': ['/a/./b/../c//', '/..', '/a/b\nc/d'],
    '/a/*rest': ['/a/La Pe\u00f1a/x', '/a/', '/a', '/a/\n', '/a/b/c\n'],
    '/{x}*r': ['/v', '/v/w', '/v/w/..'],
    '/:x*y': ['/v/w'],
    '/a*': ['/a', '/a*', '/aa'],
    '/a/*': ['/a/', '/a/*', '/a/b'],
    '/*r/b': ['/*r/b', '/x/b'],
    '/a*b*c': ['/a*b', '/a*bxyz', '/a*b/x/y', '/a*b*c'],
    '/a/{x}/*_r9': ['/a/v/w/x', '/a/v/', '/a/v'],
    '/{a{b}': ['/{av', '/{a{b}'],
    '/{}': ['/{}'],
    '/{x': ['/{x'],
    '/x}': ['/x}'],
    '/{x:a{1}b{2}}': ['/abb', '/ab'],
}
# regex text of the cube -> the Lean tree that prints to it (checked in Lean: the library is looked up by printed text)
RX_LIB = [
    ('\\d+', '.rep true 1 none (.esc .d false)'),
    ('\\d{4}', '.rep true 4 (some 4) (.esc .d false)'),
    ('\\d{2}', '.rep true 2 (some 2) (.esc .d false)'),
    ('[a-z]+', ".rep true 1 none (.set false [.range 'a' 'z'])"),
    ('(?:a|b)', ".alt (.chr 'a') (.chr 'b')"),
    ('.*', '.rep true 0 none .any'),
    ('b:c', ".seq (.chr 'b') (.seq (.chr ':') (.chr 'c'))"),
    ('\\w+?', '.rep false 1 none (.esc .w false)'),
    ('(?s:.)', '.all'),
    ('', '.eps'),
    ('a{1}b{2}', ".seq (.rep true 1 (some 1) (.chr 'a')) (.rep true 2 (some 2) (.chr 'b'))"),
    ('((?:x|y))', ".grp none (.alt (.chr 'x') (.chr 'y'))"),
    ('(?:((?:x|y))\\-)+', ".rep true 1 none (.seq (.grp none (.alt (.chr 'x') (.chr 'y'))) (.chr '-'))"),
    ('(\\d)(\\d)', '.seq (.grp none (.esc .d false)) (.grp none (.esc .d false))'),
]

# mapper scenarios: (declarations [(name, pattern, predicates, static)], PATH_INFO as a latin-1 str or None)
# predicate = True / False (constant) or ('eq', name, value)  (info['match'].get(name) == value)
MAPPER = [
    ([('a', '/x/{id}', [], False), ('b', '/x/*rest', [], False)], '/x/7'),
    ([('b', '/x/*rest', [], False), ('a', '/x/{id}', [], False)], '/x/7'),
    ([('a', '/x/{id}', [False], False), ('b', '/x/*rest', [], False), ('c', '/{p}/7', [], False)], '/x/7'),
    ([('a', '/x/{id}', [True, False], False), ('b', '/x/*rest', [False], False), ('c', '/{p}/7', [True], False)], '/x/7'),
    ([('a', '/x/{id}', [False], False), ('b', '/x/*rest', [False], False)], '/x/7'),
    ([('a', '/x/{id}', [('eq', 'id', '7')], False), ('b', '/x/*rest', [], False)], '/x/7'),
    ([('a', '/x/{id}', [('eq', 'id', '8')], False), ('b', '/x/*rest', [], False)], '/x/7'),
    ([('s', '/x/{id}', [], True), ('b', '/x/*rest', [], False)], '/x/7'),
    ([('s', '/x/{id}', [], True)], '/x/7'),
    ([('a', '/x/{id}', [], False), ('b', '/x/*rest', [], False), ('a', '/{p}/7', [], False)], '/x/7'),
    ([('a', '/x/{id}', [], False), ('b', '/y', [], False), ('a', '/x/{id}', [], True)], '/x/7'),
    ([('a', '/x/{id}', [], False), ('a', '/{x}/{x}', [], False), ('b', '/x/*rest', [], False)], '/x/7'),
    ([('root', '/', [], False), ('any', '/*r', [], False)], ''),
    ([('root', '/', [], False), ('any', '/*r', [], False)], None),
    ([('any', '/*r', [], False), ('root', '/', [], False)], '/'),
    ([('any', '/*r', [], False)], '/\xff'),
    ([('any', '/*r', [], False)], '/\xc3\xa9/\xe6\x97\xa5'),
    ([('any', '/*r', [], False)], '/\xc0\xaf'),
    ([], '/x'),
    ([('r', '/a/*rest', [], False)], '/a/b/./c/../d//e\nf/'),
    ([('a', '/foo', [], False)], '/foo\n'),
]


# add_route keyword -> values tried: which of them attach a route predicate (None = keyword left unset)
ATTACH = [
    ('xhr', [None, False, True, 0, 1, '']),
    ('request_method', [None, (), '', [], 'GET', ('GET', 'POST')]),
    ('path_info', [None, '', '/x']),
    ('request_param', [None, '', (), 'a', 'a=1', ('a', 'b')]),
    ('header', [None, '', (), 'X-A', 'X-A:1', ('X-A',)]),
    ('accept', [None, (), 'text/html', ['text/html', 'application/json']]),
    ('traverse', [None, '', '/a/{x}']),
    ('is_authenticated', [None, False, True]),
    ('effective_principals', [None, (), 'a', ('a',)]),
    ('custom_predicates', [()]),
]


def _probe():
    """runs in the probe interpreter; prints one JSON object"""
    out = {'problems': []}
    try:
        import re as real_re
        import pyramid.urldispatch as UD
        out['module'] = os.path.realpath(UD.__file__)
        recorded = []

        class ReProxy:
            def __getattr__(self, k):
                return getattr(real_re, k)

            def compile(self, pattern, flags=0):
                recorded.append(pattern)
                return real_re.compile(pattern, flags)
        if getattr(UD, 're', None) is not real_re:
            out['problems'].append('pyramid.urldispatch has no module attribute `re` to wrap')
        UD.re = ReProxy()
        probes = []
        for pat in CUBE:
            del recorded[:]
            rec = {'pattern': pat}
            try:
                matcher, generator = UD._compile_route(pat)
            except real_re.error:
                rec['regex'] = None
                probes.append(rec)
                continue
            if not recorded:
                out['problems'].append('no re.compile recorded for %r' % pat)
                continue
            rec['regex'] = recorded[-1]
            if not isinstance(rec['regex'], str):
                out['problems'].append('regex of %r is not a str' % pat)
                continue
            # generator template from behaviour: sentinel values for every group name
            names = list(real_re.compile(rec['regex']).groupindex)
            sent = {n: 'ZQ%dQZ' % i for i, n in enumerate(names)}
            if any(s in pat for s in sent.values()):
                out['problems'].append('sentinel clash in %r' % pat)
                continue
            try:
                g = generator(dict(sent))
                g = g.replace('%', '%%')
                for n, s in sent.items():
                    if g.count(s) != 1:
                        raise ValueError('sentinel of %s occurs %d times' % (n, g.count(s)))
                    g = g.replace(s, '%(' + n + ')s')
                rec['gen'] = g
            except Exception as e:
                out['problems'].append('generator of %r: %s: %s' % (pat, type(e).__name__, e))
                continue
            ms = []
            for path in COMMON_PATHS + EXTRA_PATHS.get(pat, []):
                try:
                    d = matcher(path)
                except Exception as e:
                    out['problems'].append('matcher of %r on %r: %s: %s' % (pat, path, type(e).__name__, e))
                    continue
                if d is None:
                    ms.append([path, None])
                else:
                    env = []
                    for k, v in d.items():
                        if isinstance(v, tuple) and all(isinstance(x, str) for x in v):
                            env.append([k, 't', list(v)])
                        elif isinstance(v, str):
                            env.append([k, 's', v])
                        else:
                            out['problems'].append('matcher of %r on %r: value %r' % (pat, path, v))
                    ms.append([path, env])
            rec['matches'] = ms
            probes.append(rec)
        out['compile'] = probes
        # mapper scenarios, with the real re back in place
        UD.re = real_re
        from pyramid.request import Request
        from pyramid.exceptions import URLDecodeError
        mp = []
        for decls, path in MAPPER:
            mapper = UD.RoutesMapper()
            ids = {}

            def mk(p):
                if p is True or p is False:
                    return lambda info, request, p=p: p
                return lambda info, request, p=p: info['match'].get(p[1]) == p[2]
            for i, (name, pattern, preds, static) in enumerate(decls):
                try:
                    r = mapper.connect(name, pattern, predicates=[mk(p) for p in preds], static=static)
                    ids[id(r)] = i
                except real_re.error:
                    pass
            env = {'REQUEST_METHOD': 'GET', 'SCRIPT_NAME': '', 'SERVER_NAME': 'localhost', 'SERVER_PORT': '80',
                   'wsgi.url_scheme': 'http', 'HTTP_HOST': 'localhost:80', 'QUERY_STRING': ''}
            if path is not None:
                env['PATH_INFO'] = path
            try:
                info = mapper(Request(env))
                if info['route'] is None:
                    res = 'none' if info['match'] is None else 'unknown: match without route'
                else:
                    res = {'id': ids.get(id(info['route']), 999),
                           'match': [[k, 't', list(v)] if isinstance(v, tuple) else [k, 's', v] for k, v in info['match'].items()]}
            except URLDecodeError:
                res = 'urldecode'
            except Exception as e:
                res = 'unknown: %s' % type(e).__name__
            if isinstance(res, str) and res.startswith('unknown'):
                out['problems'].append('mapper scenario %r %r: %s' % (decls, path, res))
            mp.append({'decls': [[n, p, [x if isinstance(x, bool) else list(x) for x in ps], s] for n, p, ps, s in decls],
                       'path': path, 'out': res})
        out['mapper'] = mp
        # which keyword values make add_route attach a predicate
        from pyramid.config import Configurator
        rows = []
        for kw, vs in ATTACH:
            for v in vs:
                unset = v is None or (kw == 'custom_predicates' and v == ())
                try:
                    c = Configurator()
                    c.add_route('r', '/x', **{kw: v})
                    c.commit()
                    rows.append([kw, repr(v), unset, len(c.get_routes_mapper().get_route('r').predicates)])
                except Exception as e:
                    out['problems'].append('add_route(%s=%r): %s' % (kw, v, type(e).__name__))
        out['attach'] = rows
    except Exception as e:
        out['problems'].append('probe failed: %s: %s' % (type(e).__name__, e))
    print(json.dumps(out))


# ---------------------------------------------------------------------------------------------- Lean rendering


def lean_str(s):
    out = []
    for c in s:
        if c == '\\':
            out.append('\\\\')
        elif c == '"':
            out.append('\\"')
        elif 32 <= ord(c) < 127 or ord(c) > 0xa0:
            out.append(c)                      # Lean source is UTF-8
        else:
            out.append('\\x%02x' % ord(c))
    return '"' + ''.join(out) + '"'


def lean_text(s):
    return lean_str(s) + '.toList'


def lean_env(env):
    if env is None:
        return 'none'
    items = []
    for k, t, v in env:
        if t == 's':
            items.append('(%s, .str %s)' % (lean_text(k), lean_text(v)))
        else:
            items.append('(%s, .segs [%s])' % (lean_text(k), ', '.join(lean_text(x) for x in v)))
    return 'some [%s]' % ', '.join(items)


def lean_opt_str(s):
    return 'none' if s is None else 'some %s' % lean_str(s)


def facts(src_root):
    src_root = os.path.realpath(src_root)
    env = dict(os.environ, PYTHONPATH=src_root + os.pathsep + os.path.dirname(os.path.abspath(__file__)))
    code = 'import sys; sys.path.insert(0, %r); import c01 as M; M._probe()' % os.path.dirname(os.path.abspath(__file__))
    try:
        p = subprocess.run([sys.executable, '-W', 'ignore', '-c', code], env=env, stdout=subprocess.PIPE, stderr=subprocess.PIPE, timeout=120)
        if p.returncode != 0:
            return {'problems': ['probe interpreter exited %s: %s' % (p.returncode, p.stderr.decode(errors='replace')[-300:])]}
        f = json.loads(p.stdout.decode().strip().splitlines()[-1])
    except Exception as e:
        return {'problems': ['probe could not run: %s: %s' % (type(e).__name__, e)]}
    mod = f.get('module', '')
    if not mod.startswith(src_root + os.sep):
        f.setdefault('problems', []).append('pyramid.urldispatch was imported from %s, not from %s' % (mod, src_root))
    return f


def derive_cfg(f):
    """the enum summary, from behaviour only"""
    import re
    rx = {p['pattern']: p.get('regex') for p in f.get('compile', [])}
    gen = {p['pattern']: p.get('gen') for p in f.get('compile', [])}
    mt = {p['pattern']: {a: b for a, b in p.get('matches', [])} for p in f.get('compile', [])}
    cfg = {}
    # anchor: what follows the (escaped) literal of '/a'
    a = rx.get('/a')
    anchor = a[2:] if isinstance(a, str) and a.startswith('/a') else None
    cfg['anchor'] = {'\\Z': 'endOfString', '$': 'dollar'}.get(anchor, 'unknown')
    tail = anchor or ''
    # default placeholder: '/{x}' = '/(?P<x>' D ')' anchor
    d = rx.get('/{x}')
    D = d[len('/(?P<x>'):len(d) - len(')' + tail)] if isinstance(d, str) and d.startswith('/(?P<x>') and d.endswith(')' + tail) else None
    cfg['phDefault'] = {'[^/]+': 'notSlashPlus'}.get(D, 'unknown')
    # remainder group: '/*r' = '/' G anchor with the name replaced by %s
    r = rx.get('/*r')
    G = r[1:len(r) - len(tail)].replace('<r>', '<%s>', 1) if isinstance(r, str) and r.startswith('/') and r.endswith(tail) else None
    cfg['restTpl'] = {'(?P<%s>(?s:.*?))': 'lazyAllStar'}.get(G, 'unknown')
    # literals: exactly re.escape, prefix and inner literal alike
    lit_ok = rx.get(ALL_META) == re.escape(ALL_META) + tail and rx.get('/a.b/{x}') == re.escape('/a.b/') + '(?P<x>%s)' % D + tail \
        and rx.get('/{x}-{y}.{z}') == '/(?P<x>%s)\\-(?P<y>%s)\\.(?P<z>%s)' % (D, D, D) + tail
    cfg['literals'] = 'escaped' if lit_ok else 'unknown'
    # grammar of the three module regexes and the colon split, by discriminating probes
    old_ok = rx.get('/:_a1/:b-c') == '/(?P<_a1>%s)/(?P<b>%s)\\-c' % (D, D) + tail and rx.get('/:1x') == '/:1x' + tail \
        and rx.get('/a/:x/{y}') == '/a/:x/(?P<y>%s)' % D + tail and rx.get('/a:b') == '/a(?P<b>%s)' % D + tail
    cfg['oldRe'] = 'colonIdent' if old_ok else 'unknown'
    star_ok = rx.get('/a*') == '/a' + tail and rx.get('/*r/b') == '/\\*r/b' + tail and rx.get('/a*b*c') == '/a\\*b' + (G or '?') % 'c' + tail \
        and rx.get('/a/*rest\n', 0) is None and rx.get('/b/*1x', 0) is None
    cfg['starRe'] = 'starWordEnd' if star_ok else 'unknown'
    brace_ok = rx.get('/{y:\\d{4}}/{m:\\d{2}}') == '/(?P<y>\\d{4})/(?P<m>\\d{2})' + tail and rx.get('/{a{b}') == '/\\{a(?P<b>%s)' % D + tail \
        and rx.get('/{}') == '/\\{\\}' + tail and rx.get('/{x:a{1}b{2}}') == '/(?P<x>a{1}b{2})' + tail
    cfg['routeRe'] = 'braceOneLevel' if brace_ok else 'unknown'
    cfg['splitFirstColon'] = 'true' if rx.get('/{a:b:c}') == '/(?P<a>b:c)' + tail else 'false'
    # mapper behaviour
    mp = f.get('mapper', [])
    outs = [m.get('out') for m in mp]

    def hit(i):
        return outs[i]['id'] if i < len(outs) and isinstance(outs[i], dict) else None
    loop_ok = len(outs) == len(MAPPER) and hit(0) == 0 and hit(1) == 0 and hit(2) == 1 and hit(3) == 2 and outs[4] == 'none' \
        and hit(5) == 0 and hit(6) == 1
    cfg['loopInOrder'] = 'true' if loop_ok else 'false'
    cfg['staticKeptOut'] = 'true' if len(outs) == len(MAPPER) and hit(7) == 1 and outs[8] == 'none' and outs[10] == 'none' else 'false'
    norm_ok = mt.get('/*r', {}).get('/a/./b/../c//') == [['r', 't', ['a', 'c']]] and mt.get('/*r', {}).get('/..') == [['r', 't', []]] \
        and mt.get('/{x:.*}', {}).get('/a/b/c') == [['x', 's', 'a/b/c']]
    cfg['restNormalised'] = 'true' if norm_ok else 'false'
    return cfg, {'anchor': anchor, 'default': D, 'rest': G}


def generate(src_root):
    f = facts(src_root)
    problems = list(f.get('problems', []))
    if not problems and (len(f.get('compile', [])) != len(CUBE) or len(f.get('mapper', [])) != len(MAPPER)):
        problems.append('the probe answered %d of %d patterns and %d of %d scenarios'
                        % (len(f.get('compile', [])), len(CUBE), len(f.get('mapper', [])), len(MAPPER)))
    cfg, texts = derive_cfg(f)
    summary.clear()
    summary.update(cfg)
    summary['source_texts'] = texts
    summary['probes'] = {'patterns': len(f.get('compile', [])), 'matcher_calls': sum(len(p.get('matches', [])) for p in f.get('compile', [])),
                         'mapper_scenarios': len(f.get('mapper', [])), 'attach_rows': len(f.get('attach', []))}
    summary['problems'] = problems
    fields = ', '.join('%s := %s' % (k, v if v in ('true', 'false') else '.' + v) for k, v in cfg.items())
    L = ['import PyramidModel.Lemmas.RouteProbe',
         '/-! GENERATED by extract/c01.py by probing pyramid.urldispatch of the tree under test — do not edit. -/',
         'namespace Pyr.Gen.C01', 'open Pyr.Route Pyr.Rx', '',
         '/-- why the probe cannot be trusted (empty = it can) -/',
         'def probeProblems : List String := [%s]' % ', '.join(lean_str(p[:200]) for p in problems), '',
         '/-- the enum summary of `_compile_route` / `RoutesMapper`, derived from the probes below -/',
         'def cfg : Cfg := { %s }' % fields, '',
         'def anchorText : String := %s' % lean_str(texts['anchor'] or '<not found>'),
         'def phDefaultText : String := %s' % lean_str(texts['default'] or '<not found>'),
         'def restTplText : String := %s' % lean_str(texts['rest'] or '<not found>'), '',
         '/-- the trees of the custom regexes used by the pattern cube (looked up by their printed text) -/',
         'def probeLib : List Rx := [%s]' % ', '.join('(%s : Rx)' % t for _, t in RX_LIB),
         'def probeLibTexts : List String := [%s]' % ', '.join(lean_str(t) for t, _ in RX_LIB), '',
         '/-- pattern, regex text handed to re.compile (none = re.error), generator template, matcher answers -/',
         'def compileProbes : List CProbe := [']
    rows = []
    for p in ([] if problems else f.get('compile', [])):
        if p.get('regex') is None:
            rows.append('  ⟨%s, none, none, []⟩' % lean_text(p['pattern']))
        else:
            ms = ', '.join('(%s, %s)' % (lean_text(a), lean_env(b)) for a, b in p.get('matches', []))
            rows.append('  ⟨%s, some %s, some %s,\n    [%s]⟩' % (lean_text(p['pattern']), lean_text(p['regex']), lean_text(p['gen']), ms))
    L.append(',\n'.join(rows))
    L += [']', '', '/-- declarations (name, pattern, predicates, static), raw PATH_INFO, what the real mapper answered -/',
          'def mapperProbes : List MProbe := [']
    rows = []
    for m in ([] if problems else f.get('mapper', [])):
        ds = ', '.join('⟨%s, %s, [%s], %s⟩' % (lean_text(n), lean_text(p),
                                               ', '.join('.const %s' % str(x).lower() if isinstance(x, bool) else '.eq %s %s' % (lean_text(x[1]), lean_text(x[2])) for x in ps),
                                               str(s).lower()) for n, p, ps, s in m['decls'])
        path = 'none' if m['path'] is None else 'some [%s]' % ', '.join(str(ord(c)) for c in m['path'])
        o = m['out']
        if o == 'none':
            lo = '.noMatch'
        elif o == 'urldecode':
            lo = '.urlDecode'
        elif isinstance(o, dict):
            lo = '.hit %d (%s)' % (o['id'], lean_env(o['match'])[5:])
        else:
            lo = '.unknown'
        rows.append('  ⟨[%s], %s, %s⟩' % (ds, path, lo))
    L.append(',\n'.join(rows))
    L += [']', '', '/-- add_route keyword, the value passed, whether that is the unset value (None; () for custom_predicates), and how',
          'many predicates the connected route carries -/',
          'def predicateAttached : List AProbe := [']
    L.append(',\n'.join('  ⟨%s, %s, %s, %d⟩' % (lean_str(k), lean_str(v), str(u).lower(), n) for k, v, u, n in ([] if problems else f.get('attach', []))))
    L += [']', '', 'end Pyr.Gen.C01', '']
    return {'PyramidModel/Gen/C01.lean': '\n'.join(L)}
