"""Translator for C01: regenerates, from the working tree's src/pyramid/urldispatch.py, the facts about
`_compile_route` / `RoutesMapper` that the model lean/PyramidModel/Route.lean assumes:

 * the three module-level regexes (old-style `:name`, `*name` at the end, `{name:regex}` with one level of braces)
 * the default placeholder regex, the remainder group template, the end anchor, `re.escape` on both literal sites,
   `name.split(':', 1)`
 * the shape of the `matcher` closure (remainder, and only it, through split_path_info)
 * the shape of `RoutesMapper.__call__` (iterate self.routelist in order, pattern first, `continue` on a failing
   predicate, return at the first hit) and of `connect` (static routes are kept out of routelist)

Each is mapped to an enum constructor of `Pyr.Route.Cfg` by a table of known forms; anything else becomes `unknown`
/ `false`, which makes `Props/C01.lean`'s obligation `Gen.C01.cfg = Cfg.std` (by `decide`) fail.  Never guesses.
"""
import ast, os

summary = {}

OLD_RE = {r'(\:[_a-zA-Z]\w*)': 'colonIdent'}
STAR_RE = {r'\*(\w*)$': 'starWordEnd'}
ROUTE_RE = {r'(\{[_a-zA-Z][^{}]*(?:\{[^{}]*\}[^{}]*)*\})': 'braceOneLevel'}
PH_DEFAULT = {'[^/]+': 'notSlashPlus'}
REST_TPL = {'(?P<%s>(?s:.*?))': 'lazyAllStar'}      # the pre-fc43a19 '(?P<%s>.*?)' (no LF) is deliberately not listed
ANCHOR = {'\\Z': 'endOfString', '$': 'dollar'}


def lean_str(s):
    if s is None:
        return '"<not found>"'
    out = []
    for c in s:
        if c == '\\':
            out.append('\\\\')
        elif c == '"':
            out.append('\\"')
        elif 32 <= ord(c) < 127:
            out.append(c)
        else:
            out.append('\\u{%x}' % ord(c))
    return '"' + ''.join(out) + '"'


def _const_str(node):
    return node.value if isinstance(node, ast.Constant) and isinstance(node.value, str) else None


def _module_regex(tree, name):
    """NAME = re.compile(<str>)"""
    for n in tree.body:
        if isinstance(n, ast.Assign) and len(n.targets) == 1 and isinstance(n.targets[0], ast.Name) and n.targets[0].id == name:
            v = n.value
            if (isinstance(v, ast.Call) and isinstance(v.func, ast.Attribute) and v.func.attr == 'compile'
                    and isinstance(v.func.value, ast.Name) and v.func.value.id == 're' and len(v.args) == 1 and not v.keywords):
                return _const_str(v.args[0])
    return None


def _func(tree, name, cls=None):
    for n in ast.walk(tree):
        if cls is not None:
            if isinstance(n, ast.ClassDef) and n.name == cls:
                for f in n.body:
                    if isinstance(f, ast.FunctionDef) and f.name == name:
                        return f
        elif isinstance(n, ast.FunctionDef) and n.name == name:
            return n
    return None


def _is_attr(node, obj, attr):
    return isinstance(node, ast.Attribute) and node.attr == attr and isinstance(node.value, ast.Name) and node.value.id == obj


def _appends_to(stmt, obj, attr):
    """`<obj>.<attr>.append(x)` as an expression statement; returns x"""
    if isinstance(stmt, ast.Expr) and isinstance(stmt.value, ast.Call):
        c = stmt.value
        if isinstance(c.func, ast.Attribute) and c.func.attr == 'append' and len(c.args) == 1:
            t = c.func.value
            if attr is None:
                if isinstance(t, ast.Name) and t.id == obj:
                    return c.args[0]
            elif _is_attr(t, obj, attr):
                return c.args[0]
    return None


def facts(src_root):
    path = os.path.join(src_root, 'pyramid', 'urldispatch.py')
    src = open(path).read()
    tree = ast.parse(src)
    f = {}
    f['old_re'] = _module_regex(tree, 'old_route_re')
    f['star_re'] = _module_regex(tree, 'star_at_end')
    f['route_re'] = _module_regex(tree, 'route_re')
    cr = _func(tree, '_compile_route')
    f['ph_default'] = f['rest_tpl'] = f['anchor'] = None
    f['escape_sites'] = []          # what is appended to rpat besides groups: 're.escape' or something else
    f['split_first_colon'] = False
    f['rest_normalised'] = False
    if cr is not None:
        rpat_appends = []
        for n in ast.walk(cr):
            # reg = '<default>' in the else branch of `if ':' in name`
            if isinstance(n, ast.If) and isinstance(n.test, ast.Compare) and _const_str(n.test.left) == ':' \
                    and len(n.test.ops) == 1 and isinstance(n.test.ops[0], ast.In):
                if len(n.orelse) == 1 and isinstance(n.orelse[0], ast.Assign) and len(n.orelse[0].targets) == 1 \
                        and isinstance(n.orelse[0].targets[0], ast.Name) and n.orelse[0].targets[0].id == 'reg':
                    f['ph_default'] = _const_str(n.orelse[0].value)
                # name, reg = name.split(':', 1)
                if len(n.body) == 1 and isinstance(n.body[0], ast.Assign) and isinstance(n.body[0].value, ast.Call):
                    c = n.body[0].value
                    tg = n.body[0].targets[0]
                    if (isinstance(c.func, ast.Attribute) and c.func.attr == 'split' and len(c.args) == 2
                            and _const_str(c.args[0]) == ':' and isinstance(c.args[1], ast.Constant) and c.args[1].value == 1
                            and isinstance(tg, ast.Tuple) and [getattr(e, 'id', None) for e in tg.elts] == ['name', 'reg']):
                        f['split_first_colon'] = True
            x = _appends_to(n, 'rpat', None) if isinstance(n, ast.Expr) else None
            if x is not None:
                rpat_appends.append(x)
            # pattern = ''.join(rpat) + <anchor>
            if isinstance(n, ast.Assign) and len(n.targets) == 1 and isinstance(n.targets[0], ast.Name) and n.targets[0].id == 'pattern':
                v = n.value
                if isinstance(v, ast.BinOp) and isinstance(v.op, ast.Add) and isinstance(v.left, ast.Call) \
                        and isinstance(v.left.func, ast.Attribute) and v.left.func.attr == 'join' and _const_str(v.left.func.value) == '' \
                        and len(v.left.args) == 1 and isinstance(v.left.args[0], ast.Name) and v.left.args[0].id == 'rpat':
                    f['anchor'] = _const_str(v.right)
                else:
                    f['anchor'] = None
        for x in rpat_appends:
            if isinstance(x, ast.Call) and _is_attr(x.func, 're', 'escape') and len(x.args) == 1 and isinstance(x.args[0], ast.Name):
                f['escape_sites'].append('re.escape(%s)' % x.args[0].id)
            elif isinstance(x, ast.BinOp) and isinstance(x.op, ast.Mod) and _const_str(x.left) is not None \
                    and isinstance(x.right, ast.Name) and x.right.id == 'remainder':
                f['rest_tpl'] = _const_str(x.left)
            elif isinstance(x, ast.Name) and x.id == 'name':
                # name = f'(?P<{name}>{reg})'
                pass
            else:
                f['escape_sites'].append('other:' + ast.dump(x)[:60])
        # the named group: name = f'(?P<{name}>{reg})'
        f['group_tpl'] = None
        for n in ast.walk(cr):
            if isinstance(n, ast.Assign) and isinstance(n.value, ast.JoinedStr):
                parts = []
                for v in n.value.values:
                    if isinstance(v, ast.Constant):
                        parts.append(v.value)
                    elif isinstance(v, ast.FormattedValue) and isinstance(v.value, ast.Name) and v.conversion == -1 and v.format_spec is None:
                        parts.append('{%s}' % v.value.id)
                    else:
                        parts.append('{?}')
                f['group_tpl'] = ''.join(parts)
        # matcher closure: for k, v in m.groupdict().items(): if k == remainder: d[k] = split_path_info(v) else: d[k] = v
        m = None
        for n in cr.body:
            if isinstance(n, ast.FunctionDef) and n.name == 'matcher':
                m = n
        if m is not None:
            for n in ast.walk(m):
                if isinstance(n, ast.If) and isinstance(n.test, ast.Compare) and len(n.test.ops) == 1 and isinstance(n.test.ops[0], ast.Eq) \
                        and isinstance(n.test.left, ast.Name) and isinstance(n.test.comparators[0], ast.Name) \
                        and n.test.comparators[0].id == 'remainder' and len(n.body) == 1 and len(n.orelse) == 1:
                    b, o = n.body[0], n.orelse[0]
                    if isinstance(b, ast.Assign) and isinstance(b.value, ast.Call) and isinstance(b.value.func, ast.Name) \
                            and b.value.func.id == 'split_path_info' and len(b.value.args) == 1 \
                            and isinstance(o, ast.Assign) and isinstance(o.value, ast.Name) \
                            and isinstance(b.value.args[0], ast.Name) and b.value.args[0].id == o.value.id:
                        f['rest_normalised'] = True
    # RoutesMapper.__call__
    f['loop_in_order'] = False
    call = _func(tree, '__call__', 'RoutesMapper')
    if call is not None:
        loops = [n for n in ast.walk(call) if isinstance(n, ast.For)]
        if len(loops) == 1:
            lp = loops[0]
            var = lp.target.id if isinstance(lp.target, ast.Name) else None
            ok = var is not None and _is_attr(lp.iter, 'self', 'routelist') and not lp.orelse
            ok = ok and not any(isinstance(n, ast.Break) for n in ast.walk(lp))
            if ok and len(lp.body) == 2 and isinstance(lp.body[0], ast.Assign) and isinstance(lp.body[1], ast.If):
                a, i = lp.body
                mvar = a.targets[0].id if isinstance(a.targets[0], ast.Name) else None
                ok = (isinstance(a.value, ast.Call) and _is_attr(a.value.func, var, 'match') and len(a.value.args) == 1
                      and isinstance(i.test, ast.Compare) and isinstance(i.test.left, ast.Name) and i.test.left.id == mvar
                      and len(i.test.ops) == 1 and isinstance(i.test.ops[0], ast.IsNot)
                      and isinstance(i.test.comparators[0], ast.Constant) and i.test.comparators[0].value is None and not i.orelse)
                if ok:
                    # inside: … `if preds and not all(p(info, request) for p in preds): continue` … `return info`
                    conts = [k for k, s in enumerate(i.body) if isinstance(s, ast.If) and len(s.body) == 1 and isinstance(s.body[0], ast.Continue)
                             and not s.orelse and any(isinstance(c, ast.Call) and getattr(c.func, 'id', None) == 'all' for c in ast.walk(s.test))
                             and isinstance(s.test, ast.BoolOp) and isinstance(s.test.op, ast.And)
                             and any(isinstance(v, ast.UnaryOp) and isinstance(v.op, ast.Not) for v in s.test.values)]
                    rets = [k for k, s in enumerate(i.body) if isinstance(s, ast.Return)]
                    others = [s for s in i.body if isinstance(s, (ast.If, ast.For, ast.While, ast.Try, ast.Return))]
                    preds_src = any(isinstance(s, ast.Assign) and _is_attr(s.value, var, 'predicates') for s in i.body)
                    ok = len(conts) == 1 and len(rets) == 1 and conts[0] < rets[0] and len(others) == 2 and preds_src
                f['loop_in_order'] = bool(ok)
    # connect: if not static: self.routelist.append(route) else: self.static_routes.append(route)
    f['static_kept_out'] = False
    con = _func(tree, 'connect', 'RoutesMapper')
    if con is not None:
        appends = [n for n in ast.walk(con) if isinstance(n, ast.Expr) and _appends_to(n, 'self', 'routelist') is not None]
        for n in ast.walk(con):
            if isinstance(n, ast.If) and isinstance(n.test, ast.UnaryOp) and isinstance(n.test.op, ast.Not) \
                    and isinstance(n.test.operand, ast.Name) and n.test.operand.id == 'static' \
                    and len(n.body) == 1 and len(n.orelse) == 1 \
                    and _appends_to(n.body[0], 'self', 'routelist') is not None \
                    and _appends_to(n.orelse[0], 'self', 'static_routes') is not None and len(appends) == 1:
                f['static_kept_out'] = True
    return f


def generate(src_root):
    f = facts(src_root)
    lit = 'escaped' if f['escape_sites'] == ['re.escape(prefix)', 're.escape(s)'] and f.get('group_tpl') == '(?P<{name}>{reg})' else 'unknown'
    cfg = {
        'anchor': ANCHOR.get(f['anchor'], 'unknown'),
        'phDefault': PH_DEFAULT.get(f['ph_default'], 'unknown'),
        'restTpl': REST_TPL.get(f['rest_tpl'], 'unknown'),
        'literals': lit,
        'oldRe': OLD_RE.get(f['old_re'], 'unknown'),
        'starRe': STAR_RE.get(f['star_re'], 'unknown'),
        'routeRe': ROUTE_RE.get(f['route_re'], 'unknown'),
        'splitFirstColon': 'true' if f['split_first_colon'] else 'false',
        'loopInOrder': 'true' if f['loop_in_order'] else 'false',
        'staticKeptOut': 'true' if f['static_kept_out'] else 'false',
        'restNormalised': 'true' if f['rest_normalised'] else 'false',
    }
    summary.clear()
    summary.update({k: v for k, v in cfg.items()})
    summary['source_texts'] = {k: f.get(k) for k in ('old_re', 'star_re', 'route_re', 'ph_default', 'rest_tpl', 'anchor', 'escape_sites', 'group_tpl')}
    fields = ', '.join('%s := %s' % (k, v if v in ('true', 'false') else '.' + v) for k, v in cfg.items())
    text = '''import PyramidModel.Route
/-! GENERATED by extract/c01.py from src/pyramid/urldispatch.py — do not edit. -/
namespace Pyr.Gen.C01
open Pyr.Route

/-- what `_compile_route` / `RoutesMapper` look like in the source tree under test -/
def cfg : Cfg := { %s }

/-! the source texts the constructors above were read from -/
def oldReText : String := %s
def starReText : String := %s
def routeReText : String := %s
def phDefaultText : String := %s
def restTplText : String := %s
def anchorText : String := %s
def groupTplText : String := %s
def literalSites : List String := [%s]

end Pyr.Gen.C01
''' % (fields, lean_str(f['old_re']), lean_str(f['star_re']), lean_str(f['route_re']), lean_str(f['ph_default']),
       lean_str(f['rest_tpl']), lean_str(f['anchor']), lean_str(f.get('group_tpl')), ', '.join(lean_str(x) for x in f['escape_sites']))
    return {'PyramidModel/Gen/C01.lean': text}
