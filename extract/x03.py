"""Translator for X03: regenerates, from the working tree's src/pyramid/renderers.py and viewderivers.py, the
table-like facts the X03 theorems rest on (`lean/PyramidModel/Gen/X03.lean`, one `Pyr.Render.Tables` term).

 * `JSONP_VALID_CALLBACK = re.compile(<text>, <flags>)`: the regex TEXT is parsed by a small parser restricted to what
   such a pattern uses (optional leading `^`, optional final `$` or `\\Z`, a sequence of single characters / `.` / bracketed
   classes with ranges and backslash-escaped punctuation, each with an optional `* + ? {m} {m,} {m,n}` and lazy `?`).
   Groups, alternation, `\\d \\w \\s`, look-around, back-references, other anchors, flags other than IGNORECASE: NOT
   translated -> `understood := false` (every theorem about the pattern then fails).
   IGNORECASE is expanded INTO the classes by probing: for every class / literal the set of code points the real `re`
   accepts under the pattern's flags is computed (one `findall` over all 1.1M scalar values) and emitted as ranges; the
   translator then re-checks that the emitted items describe exactly that set.
 * which method is applied to the callback (`match` / `fullmatch`), that a failed check raises HTTPBadRequest, where the
   callback text comes from (`request.GET.get(self.param_name)`), the default of `param_name`
 * the pieces of the f-string that builds the JSONP body
 * per renderer: the content type assigned to `response.content_type` and whether the assignment is guarded by
   `<current content type> == response.default_content_type`
 * `_make_response`: the `isinstance` ladder and the `if result is not None` guard
 * `rendered_view`: exact-class passthrough, `queryAdapterOrSelf`, `override_renderer` popped
 * the keys of the system dict built by `render_view`

stdlib only (`ast`, `re`).  Anything with an unexpected shape is emitted as `unknown` / `false`, never guessed.
"""
import ast, os, re

summary = {}

# ------------------------------------------------------------------------------------------------ regex text -> tree


class Unsupported(Exception):
    pass


_ALL = None


def _all_chars():
    global _ALL
    if _ALL is None:
        _ALL = ''.join(chr(i) for i in range(0x110000) if not (0xD800 <= i < 0xE000))
    return _ALL


def _accepted(class_text, flags):
    """sorted code points the real engine accepts for a one-character pattern"""
    return sorted(ord(c) for c in re.compile(class_text, flags | re.S).findall(_all_chars()))


def _runs(cps):
    out = []
    for c in cps:
        if out and out[-1][1] == c - 1:
            out[-1][1] = c
        else:
            out.append([c, c])
    return [(a, b) for a, b in out]


PUNCT_ESC = set('.[]()^$*+?{}|\\/-')


def _parse_class(t, i):
    """t[i] == '[' ; returns (neg, items_text_as_written, end_index)"""
    j = i + 1
    neg = False
    if j < len(t) and t[j] == '^':
        neg = True
        j += 1
    items = []
    first = True
    while True:
        if j >= len(t):
            raise Unsupported('unterminated class')
        c = t[j]
        if c == ']' and not first:
            j += 1
            break
        first = False
        if c == '\\':
            if j + 1 >= len(t) or t[j + 1] not in PUNCT_ESC:
                raise Unsupported('escape \\%s in a class' % t[j + 1:j + 2])
            lo = t[j + 1]
            j += 2
        elif c == '[':
            raise Unsupported('[ inside a class')
        else:
            lo = c
            j += 1
        if j + 1 < len(t) and t[j] == '-' and t[j + 1] != ']':
            k = j + 1
            if t[k] == '\\':
                if k + 1 >= len(t) or t[k + 1] not in PUNCT_ESC:
                    raise Unsupported('escape in a range')
                hi = t[k + 1]
                k += 2
            else:
                hi = t[k]
                k += 1
            if ord(hi) < ord(lo):
                raise Unsupported('bad range')
            items.append((lo, hi))
            j = k
        else:
            items.append((lo, lo))
    return neg, items, j


def _parse_quant(t, i):
    """optional quantifier at t[i:]; returns (greedy, min, max|None, end) or None"""
    if i >= len(t):
        return None
    c = t[i]
    if c == '*':
        q = (0, None, i + 1)
    elif c == '+':
        q = (1, None, i + 1)
    elif c == '?':
        q = (0, 1, i + 1)
    elif c == '{':
        m = re.match(r'\{(\d+)(?:(,)(\d*))?\}', t[i:])
        if not m:
            raise Unsupported('brace')
        lo = int(m.group(1))
        hi = lo if m.group(2) is None else (int(m.group(3)) if m.group(3) else None)
        q = (lo, hi, i + m.end())
    else:
        return None
    lo, hi, j = q
    greedy = True
    if j < len(t) and t[j] == '?':
        greedy = False
        j += 1
    if j < len(t) and t[j] in '*+?{':
        raise Unsupported('stacked quantifier')
    return greedy, lo, hi, j


def parse_pattern(text, flags):
    """-> dict(start, end, atoms=[(kind, payload, quant|None)])   kind: 'set' (neg, runs) | 'chr' cp | 'any' | 'all'"""
    if flags & ~(re.I | re.U):
        raise Unsupported('flags %r' % flags)
    t = text
    i = 0
    start, end = False, 'none'
    if t.startswith('^'):
        start = True
        i = 1
    atoms = []
    n = len(t)
    while i < n:
        c = t[i]
        if c == '$' and i == n - 1:
            end = 'dollar'
            i += 1
            break
        if t[i:] == '\\Z':
            end = 'endOfString'
            i += 2
            break
        if c in '()|^$':
            raise Unsupported('construct %r at %d' % (c, i))
        if c in '*+?{':
            raise Unsupported('dangling quantifier')
        if c == '[':
            neg, items, j = _parse_class(t, i)
            src = t[i:j]
            acc = _accepted(src, flags)
            if neg:
                # describe the complement: the positive class as the engine sees it
                pos_src = '[' + src[2:]
                pos = _accepted(pos_src, flags)
                allc = 0x110000 - 0x800
                if len(pos) + len(acc) != allc or set(pos) & set(acc):
                    raise Unsupported('negated class is not the complement of its positive form')
                atom = ('set', (True, _runs(pos)))
            else:
                atom = ('set', (False, _runs(acc)))
            i = j
        elif c == '.':
            acc = _accepted('.', flags)
            atom = ('all', None)       # probing used re.S, so decide by flags
            if not (flags & re.S):
                atom = ('any', None)
            i += 1
        elif c == '\\':
            if i + 1 >= n or t[i + 1] not in PUNCT_ESC:
                raise Unsupported('escape \\%s' % t[i + 1:i + 2])
            acc = _accepted(t[i:i + 2], flags)
            atom = ('chr', acc[0]) if len(acc) == 1 else ('set', (False, _runs(acc)))
            i += 2
        else:
            acc = _accepted(re.escape(c), flags)
            atom = ('chr', acc[0]) if len(acc) == 1 else ('set', (False, _runs(acc)))
            i += 1
        q = _parse_quant(t, i)
        if q is not None:
            greedy, lo, hi, i = q
            atoms.append(atom + ((greedy, lo, hi),))
        else:
            atoms.append(atom + (None,))
    return {'start': start, 'end': end, 'atoms': atoms}


# ------------------------------------------------------------------------------------------------ Lean printing

def lean_char(cp):
    c = chr(cp)
    if c == "'":
        return "'\\''"
    if c == '\\':
        return "'\\\\'"
    if 32 <= cp < 127:
        return "'%s'" % c
    if cp < 0x10000:
        return "'\\u%04x'" % cp
    return '(Char.ofNat %d)' % cp


def lean_text(s):
    return '[' + ', '.join(lean_char(ord(c)) for c in s) + ']'


def lean_str(s):
    out = ['"']
    for c in s:
        if c == '"':
            out.append('\\"')
        elif c == '\\':
            out.append('\\\\')
        elif c == '\n':
            out.append('\\n')
        elif 32 <= ord(c) < 127:
            out.append(c)
        else:
            out.append('\\u{%x}' % ord(c))
    out.append('"')
    return ''.join(out)


def lean_items(runs):
    its = []
    for a, b in runs:
        its.append('.ch %s' % lean_char(a) if a == b else '.range %s %s' % (lean_char(a), lean_char(b)))
    return '[' + ', '.join(its) + ']'


def lean_atom(atom):
    kind, payload, q = atom
    if kind == 'set':
        neg, runs = payload
        base = '.set %s %s' % ('true' if neg else 'false', lean_items(runs))
    elif kind == 'chr':
        base = '.chr %s' % lean_char(payload)
    elif kind == 'any':
        base = '.any'
    else:
        base = '.all'
    if q is None:
        return base
    greedy, lo, hi = q
    return '.rep %s %d %s (%s)' % ('true' if greedy else 'false', lo, 'none' if hi is None else '(some %d)' % hi, base)


def lean_rx(atoms):
    if not atoms:
        return 'Rx.eps'
    parts = [lean_atom(a) for a in atoms]
    out = '(%s)' % parts[-1]
    for p in reversed(parts[:-1]):
        out = '(.seq (%s) %s)' % (p, out)
    return out


# ------------------------------------------------------------------------------------------------ python ast helpers

def _u(n):
    return ast.unparse(n) if n is not None else None


def _find_class(tree, name):
    for n in tree.body:
        if isinstance(n, ast.ClassDef) and n.name == name:
            return n
    return None


def _find_func(body, name):
    for n in body:
        if isinstance(n, (ast.FunctionDef,)) and n.name == name:
            return n
    return None


def _inner_render(owner_body, outer):
    f = _find_func(owner_body, outer)
    if f is None:
        return None
    return _find_func(f.body, '_render')


def _parents(root):
    par = {}
    for n in ast.walk(root):
        for ch in ast.iter_child_nodes(n):
            par[ch] = n
    return par


def _is_attr(n, obj, attr):
    return isinstance(n, ast.Attribute) and n.attr == attr and isinstance(n.value, ast.Name) and n.value.id == obj


def _enclosing_ifs(node, par, stop):
    out = []
    cur = node
    while cur is not stop and cur in par:
        p = par[cur]
        if isinstance(p, ast.If):
            out.append((p, 'body' if any(cur is b or _contains(b, cur) for b in p.body) else 'orelse'))
        cur = p
    return out


def _contains(root, node):
    return any(n is node for n in ast.walk(root))


def _ct_guard_ok(test, fn, resp_name='response'):
    """test is `<cur> == response.default_content_type` where <cur> is response.content_type or a local assigned from it"""
    if not (isinstance(test, ast.Compare) and len(test.ops) == 1 and isinstance(test.ops[0], ast.Eq)):
        return False
    a, b = test.left, test.comparators[0]

    def is_default(x):
        return _is_attr(x, resp_name, 'default_content_type')

    def is_current(x):
        if _is_attr(x, resp_name, 'content_type'):
            return True
        if isinstance(x, ast.Name):
            assigns = [s for s in ast.walk(fn) if isinstance(s, ast.Assign) and len(s.targets) == 1
                       and isinstance(s.targets[0], ast.Name) and s.targets[0].id == x.id]
            return len(assigns) == 1 and _is_attr(assigns[0].value, resp_name, 'content_type')
        return False
    return (is_current(a) and is_default(b)) or (is_default(a) and is_current(b))


def ct_rule(fn, problems, label):
    """the single `response.content_type = X` of a `_render` closure -> (guarded|None, value node)"""
    if fn is None:
        problems.append('%s: _render not found' % label)
        return None, None
    par = _parents(fn)
    sets = [s for s in ast.walk(fn) if isinstance(s, ast.Assign) and len(s.targets) == 1
            and _is_attr(s.targets[0], 'response', 'content_type')]
    if len(sets) != 1:
        problems.append('%s: %d assignments to response.content_type' % (label, len(sets)))
        return None, None
    s = sets[0]
    ifs = _enclosing_ifs(s, par, fn)
    # `if request is not None` is allowed around it
    guards = []
    for node, branch in ifs:
        t = node.test
        if (isinstance(t, ast.Compare) and isinstance(t.left, ast.Name) and t.left.id == 'request'
                and len(t.ops) == 1 and isinstance(t.ops[0], ast.IsNot) and branch == 'body'):
            continue
        guards.append((node, branch))
    if not guards:
        return False, s.value
    if len(guards) == 1 and guards[0][1] == 'body' and _ct_guard_ok(guards[0][0].test, fn):
        return True, s.value
    problems.append('%s: content type assignment under an unrecognised condition: %s' % (label, _u(guards[0][0].test)))
    return None, s.value


def _const_str(n):
    return n.value if isinstance(n, ast.Constant) and isinstance(n.value, str) else None


# ------------------------------------------------------------------------------------------------ generate

SLOT = {'text': '.text', 'body': '.body', 'app_iter': '.appIter'}


def generate(src_root):
    problems = []
    rpath = os.path.join(src_root, 'pyramid', 'renderers.py')
    tree = ast.parse(open(rpath).read())

    # ---- the pattern
    pat_text, flags, flag_src = None, 0, None
    for n in tree.body:
        if (isinstance(n, ast.Assign) and len(n.targets) == 1 and isinstance(n.targets[0], ast.Name)
                and n.targets[0].id == 'JSONP_VALID_CALLBACK'):
            v = n.value
            if (isinstance(v, ast.Call) and _is_attr(v.func, 're', 'compile') and 1 <= len(v.args) <= 2
                    and not v.keywords and _const_str(v.args[0]) is not None):
                pat_text = _const_str(v.args[0])
                if len(v.args) == 2:
                    flag_src = _u(v.args[1])
                    names = [x for x in ast.walk(v.args[1]) if isinstance(x, ast.Attribute)]
                    ok = all(_is_attr(x, 're', x.attr) and x.attr in ('I', 'IGNORECASE') for x in names) and names
                    others = [x for x in ast.walk(v.args[1]) if not isinstance(x, (ast.Attribute, ast.Name, ast.BinOp, ast.BitOr, ast.Load))]
                    if ok and not others:
                        flags = re.I
                    else:
                        problems.append('flags not understood: %s' % flag_src)
                        flags = None
            else:
                problems.append('JSONP_VALID_CALLBACK is not re.compile(<str>, <flags>)')
    understood = True
    parsed = None
    if pat_text is None:
        problems.append('JSONP_VALID_CALLBACK not found')
        understood = False
    elif flags is None:
        understood = False
    else:
        try:
            re.compile(pat_text, flags)
            parsed = parse_pattern(pat_text, flags)
        except (Unsupported, re.error) as e:
            problems.append('pattern not translated: %s' % e)
            understood = False

    # ---- JSONP._render: method, raise, source of the callback, f-string, content types
    jsonp = _find_class(tree, 'JSONP')
    jsonc = _find_class(tree, 'JSON')
    jr = _inner_render(jsonp.body, '__call__') if jsonp else None
    method, raises400, source = 'unknown', False, 'unknown'
    pieces = ['.unknown']
    jsonp_plain_ct = jsonp_cb_ct = None
    param_default = None
    if jsonp is not None:
        init = _find_func(jsonp.body, '__init__')
        if init is not None and init.args.args and [a.arg for a in init.args.args][:2] == ['self', 'param_name'] and init.args.defaults:
            param_default = _const_str(init.args.defaults[0])
    if param_default is None:
        problems.append('JSONP.__init__(param_name=<str>) not found')
    if jr is None:
        problems.append('JSONP.__call__._render not found')
    else:
        par = _parents(jr)
        calls = [c for c in ast.walk(jr) if isinstance(c, ast.Call) and isinstance(c.func, ast.Attribute)
                 and isinstance(c.func.value, ast.Name) and c.func.value.id == 'JSONP_VALID_CALLBACK']
        uses = [x for x in ast.walk(jr) if isinstance(x, ast.Name) and x.id == 'JSONP_VALID_CALLBACK']
        if len(calls) == 1 and len(uses) == 1:
            c = calls[0]
            if c.func.attr in ('match', 'fullmatch') and len(c.args) == 1 and isinstance(c.args[0], ast.Name) and c.args[0].id == 'callback' and not c.keywords:
                method = c.func.attr
            else:
                problems.append('callback check is %s' % _u(c))
            p = par.get(c)
            if isinstance(p, ast.UnaryOp) and isinstance(p.op, ast.Not) and isinstance(par.get(p), ast.If) and par[p].test is p:
                iff = par[p]
                if (len(iff.body) == 1 and isinstance(iff.body[0], ast.Raise) and isinstance(iff.body[0].exc, ast.Call)
                        and isinstance(iff.body[0].exc.func, ast.Name) and iff.body[0].exc.func.id == 'HTTPBadRequest' and not iff.orelse):
                    outer = par.get(iff)
                    if (isinstance(outer, ast.If) and _u(outer.test) == 'callback is not None' and iff in outer.body):
                        # everything that uses the callback must come after the check inside that block
                        idx = outer.body.index(iff)
                        before = [x for st in outer.body[:idx] for x in ast.walk(st) if isinstance(x, ast.Name) and x.id == 'callback']
                        outside = [x for x in ast.walk(jr) if isinstance(x, ast.Name) and x.id == 'callback'
                                   and isinstance(x.ctx, ast.Load) and not _contains(outer, x)]
                        if not before and not outside:
                            raises400 = True
                        else:
                            problems.append('callback used before / outside the check')
            if not raises400:
                problems.append('the failed check does not (only) raise HTTPBadRequest under `callback is not None`')
        else:
            problems.append('%d calls on JSONP_VALID_CALLBACK in JSONP._render' % len(calls))
        cbs = [s for s in ast.walk(jr) if isinstance(s, ast.Assign) and len(s.targets) == 1
               and isinstance(s.targets[0], ast.Name) and s.targets[0].id == 'callback']
        if len(cbs) == 1 and _u(cbs[0].value) == 'request.GET.get(self.param_name)':
            source = 'get'
        else:
            problems.append('callback source: %s' % [_u(s.value) for s in cbs])
        bodies = [s for s in ast.walk(jr) if isinstance(s, ast.Assign) and len(s.targets) == 1
                  and isinstance(s.targets[0], ast.Name) and s.targets[0].id == 'body']
        fs = [s for s in bodies if isinstance(s.value, ast.JoinedStr)]
        plain = [s for s in bodies if not isinstance(s.value, ast.JoinedStr)]
        rets = [s for s in ast.walk(jr) if isinstance(s, ast.Return)]
        if (len(fs) == 1 and len(plain) == 1 and _u(plain[0].value) == 'val' and len(rets) == 1 and _u(rets[0].value) == 'body'):
            pieces = []
            for v in fs[0].value.values:
                if isinstance(v, ast.Constant) and isinstance(v.value, str):
                    pieces.append('.lit %s' % lean_text(v.value))
                elif (isinstance(v, ast.FormattedValue) and isinstance(v.value, ast.Name) and v.conversion == -1
                      and v.format_spec is None and v.value.id in ('callback', 'val')):
                    pieces.append('.callback' if v.value.id == 'callback' else '.json')
                else:
                    pieces.append('.unknown')
                    problems.append('f-string piece %s' % _u(v))
            vals = [s for s in ast.walk(jr) if isinstance(s, ast.Assign) and len(s.targets) == 1
                    and isinstance(s.targets[0], ast.Name) and s.targets[0].id == 'val']
            if not (len(vals) == 1 and _u(vals[0].value) == 'self.serializer(value, default=default, **self.kw)'):
                pieces.append('.unknown')
                problems.append('val is not the serializer output')
        else:
            problems.append('JSONP body is not `val` / one f-string')
        cts = [s for s in ast.walk(jr) if isinstance(s, ast.Assign) and len(s.targets) == 1
               and isinstance(s.targets[0], ast.Name) and s.targets[0].id == 'ct']
        tops = [s for s in cts if par.get(s) is jr]
        inner = [s for s in cts if par.get(s) is not jr]
        if len(tops) == 1 and len(inner) == 1 and isinstance(par.get(inner[0]), ast.If) and _u(par[inner[0]].test) == 'callback is not None':
            jsonp_plain_ct = _const_str(tops[0].value)
            jsonp_cb_ct = _const_str(inner[0].value)
        if jsonp_plain_ct is None or jsonp_cb_ct is None:
            problems.append('JSONP content types not found')

    def rule_text(guarded, value):
        if guarded is None or value is None:
            return None
        return '{ guarded := %s, value := %s }' % ('true' if guarded else 'false', lean_text(value))

    g_json, v_json = ct_rule(_inner_render(jsonc.body, '__call__') if jsonc else None, problems, 'JSON')
    srf = _find_func(tree.body, 'string_renderer_factory')
    g_str, v_str = ct_rule(_find_func(srf.body, '_render') if srf else None, problems, 'string')
    g_jsonp, v_jsonp = ct_rule(jr, problems, 'JSONP')
    if v_jsonp is not None and not (isinstance(v_jsonp, ast.Name) and v_jsonp.id == 'ct'):
        problems.append('JSONP assigns %s to the content type' % _u(v_jsonp))
        g_jsonp = None
    json_rule = rule_text(g_json, _const_str(v_json) if v_json is not None else None)
    str_rule = rule_text(g_str, _const_str(v_str) if v_str is not None else None)
    jsonp_rule = rule_text(g_jsonp, jsonp_plain_ct)

    # ---- _make_response
    helper = _find_class(tree, 'RendererHelper')
    ladder, none_guard = [], False
    mk = _find_func(helper.body, '_make_response') if helper else None
    if mk is None:
        problems.append('_make_response not found')
    else:
        top_if = [s for s in mk.body if isinstance(s, ast.If) and _u(s.test) == 'result is not None']
        if len(top_if) == 1 and not top_if[0].orelse and len(top_if[0].body) == 1 and isinstance(top_if[0].body[0], ast.If):
            none_guard = True
            cur = top_if[0].body[0]
            while True:
                t = _u(cur.test)
                m = re.fullmatch(r"isinstance\(result, (\w+)\)", t)
                m2 = re.fullmatch(r"hasattr\(result, '(\w+)'\)", t)
                key = m.group(1) if m else (m2.group(1) if m2 else None)

                def target(stmts):
                    if (len(stmts) == 1 and isinstance(stmts[0], ast.Assign) and len(stmts[0].targets) == 1
                            and isinstance(stmts[0].targets[0], ast.Attribute) and _u(stmts[0].targets[0].value) == 'response'
                            and _u(stmts[0].value) == 'result'):
                        return SLOT.get(stmts[0].targets[0].attr, '.unknown')
                    return '.unknown'
                ladder.append((key or 'unknown: ' + t, target(cur.body)))
                if len(cur.orelse) == 1 and isinstance(cur.orelse[0], ast.If):
                    cur = cur.orelse[0]
                    continue
                ladder.append(('else', target(cur.orelse) if cur.orelse else '.unknown'))
                break
        else:
            problems.append('_make_response: `if result is not None:` ladder not found')
        ret = [s for s in mk.body if isinstance(s, ast.Return)]
        if not (len(ret) == 1 and _u(ret[0].value) == 'response'):
            problems.append('_make_response does not return response')
            none_guard = False

    # ---- render_view system keys
    sys_keys = []
    rv = _find_func(helper.body, 'render_view') if helper else None
    if rv is not None:
        for s in rv.body:
            if isinstance(s, ast.Assign) and _u(s.targets[0]) == 'system' and isinstance(s.value, ast.Dict):
                sys_keys = [_const_str(k) or 'unknown' for k in s.value.keys]
    if not sys_keys:
        problems.append('render_view system dict not found')

    # ---- rendered_view
    vpath = os.path.join(src_root, 'pyramid', 'viewderivers.py')
    vtree = ast.parse(open(vpath).read())
    rvd = _find_func(vtree.body, 'rendered_view')
    passthrough = adapt = popped = False
    if rvd is None:
        problems.append('rendered_view not found')
    else:
        inners = [n for n in ast.walk(rvd) if isinstance(n, ast.FunctionDef) and n is not rvd]
        okp, oka = [], []
        for fn in inners:
            ifs = [s for s in fn.body if isinstance(s, ast.If)]
            good_p = good_a = False
            for s in ifs:
                if _u(s.test) in ('result.__class__ is Response', 'Response is result.__class__'):
                    if len(s.body) == 1 and _u(s.body[0]) == 'response = result':
                        good_p = True
                    if s.orelse and _u(s.orelse[0]) == 'response = info.registry.queryAdapterOrSelf(result, IResponse)':
                        good_a = True
            rets = [s for s in ast.walk(fn) if isinstance(s, ast.Return)]
            if not (len(rets) == 1 and _u(rets[0].value) == 'response'):
                good_p = False
            calls = [s for s in fn.body if isinstance(s, ast.Assign) and _u(s.targets[0]) == 'result']
            if not (len(calls) == 1 and _u(calls[0].value) == 'view(context, request)'):
                good_p = False
            okp.append(good_p)
            oka.append(good_a)
        passthrough = len(inners) == 2 and all(okp)
        adapt = len(inners) == 2 and all(oka)
        for fn in inners:
            for s in ast.walk(fn):
                if isinstance(s, ast.If) and _u(s.test) == "'override_renderer' in attrs":
                    b = [_u(x) for x in s.body]
                    if (b and b[0] == "renderer_name = attrs.pop('override_renderer')" and len(s.body) == 2
                            and re.sub(r'\s+', '', b[1]) == 'view_renderer=renderers.RendererHelper(name=renderer_name,package=info.package,registry=info.registry)'
                            and [_u(x) for x in s.orelse] == ['view_renderer = renderer.clone()']):
                        popped = True
        if not passthrough:
            problems.append('rendered_view: exact-class passthrough not recognised')
        if not adapt:
            problems.append('rendered_view: queryAdapterOrSelf not recognised')
        if not popped:
            problems.append('rendered_view: override_renderer handling not recognised')

    def b(x):
        return 'true' if x else 'false'

    unknown_rule = '{ guarded := false, value := [] }'
    if parsed is not None:
        rx = lean_rx(parsed['atoms'])
        start, end = parsed['start'], parsed['end']
    else:
        rx, start, end = 'Rx.eps', False, 'none'
    pattern_ok = understood and method != 'unknown'
    fields = [
        'pattern := { startAnchor := %s, endAnchor := .%s, body := %s, method := %s, understood := %s }' % (
            b(start), end, rx, {'match': '.match', 'fullmatch': '.fullmatch'}.get(method, '.unknown'), b(pattern_ok)),
        'patternText := %s' % lean_str(pat_text or ''),
        'ignoreCase := %s' % b(bool(flags)),
        'paramDefault := %s' % lean_text(param_default or ''),
        'paramSource := %s' % ('.get' if source == 'get' else '.unknown'),
        'checkRaises400 := %s' % b(raises400),
        'jsonpBody := [%s]' % ', '.join(pieces),
        'jsonCt := %s' % (json_rule or unknown_rule),
        'jsonpCt := %s' % (jsonp_rule or unknown_rule),
        'jsonpCallbackCt := %s' % lean_text(jsonp_cb_ct or ''),
        'stringCt := %s' % (str_rule or unknown_rule),
        'makeResponse := [%s]' % ', '.join('(%s, %s)' % (lean_str(k), v) for k, v in ladder),
        'noneLeavesBody := %s' % b(none_guard),
        'passthroughExact := %s' % b(passthrough),
        'adaptOrSelf := %s' % b(adapt),
        'overridePopped := %s' % b(popped),
        'systemKeys := [%s]' % ', '.join(lean_str(k) for k in sys_keys),
    ]
    summary.clear()
    summary.update({'pattern': pat_text, 'flags': flag_src, 'method': method, 'problems': problems,
                    'atoms': len(parsed['atoms']) if parsed else 0})
    text = ('import PyramidModel.Renderers\n'
            '/-! GENERATED by extract/x03.py from src/pyramid/renderers.py and viewderivers.py — do not edit.\n'
            '   `understood := false`, `.unknown`, `false` mark source shapes the translator did not recognise. -/\n'
            'namespace Pyr.Gen.X03\nopen Pyr.Rx Pyr.Render\n\n'
            'def tables : Tables := {\n  ' + ',\n  '.join(fields) + ' }\n\n'
            '/-- what the translator could not translate (empty on a tree it understands) -/\n'
            'def problems : List String := [%s]\n\n' % ', '.join(lean_str(p) for p in problems) +
            'end Pyr.Gen.X03\n')
    return {'PyramidModel/Gen/X03.lean': text}


if __name__ == '__main__':
    import sys
    out = generate(sys.argv[1] if len(sys.argv) > 1 else '/repo/src')
    for k, v in out.items():
        print(v)
    print(summary)
