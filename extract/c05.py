"""Translator for C05: regenerates, from the tree under test, the facts the C05 theorems rest on.

BEHAVIOURAL tables — obtained by RUNNING the code of the tree under test over a finite domain (extract/c05_probe.py,
a subprocess with that tree first on sys.path), so they survive any refactoring that preserves behaviour and change
under any that does not:
 (A) the default deriver pipeline: hints recorded by add_view_deriver, the sorter's output, and the wrapping order
     observed by replacing every deriver with a tracer and calling a derived view
 (B) viewderivers.secured_view over permission x exception_only x default permission x policy (9 answer styles)
 (C) view._call_view over 0..2 found callables x {response, PredicateMismatch, HTTPForbidden} x permissive handle x secure
 (D) MultiView.__call__ / __call_permissive__ / __permitted__ over 0..2 constituents x predicate x secured/granted/refused
 (E) tweens.excview_tween_factory + Request.invoke_exception_view over the exception view's behaviour x permissive handle
 (F) the `order` of the action whose EXECUTION produces each directive's effect (policy / default permission / view /
     route interface / deriver registered), and the PHASEn_CONFIG constants
 (G) add_forbidden_view / add_notfound_view / add_exception_view / add_static_view under a policy + default permission:
     derived callable unguarded?, exception_only?, `permission=` rejected?
 (H) the default of every `secure` parameter (inspect.signature)
 (J) which handle (the view itself / `__call_permissive__`) render_view_to_response (secure default/True/False) and
     owrapped_view's wrapper lookup call
 (K) LegacySecurityPolicy.permits on one request over (context, permission) pairs repeating a permission name on two
     contexts: the authorization policy is asked every time about exactly (context, effective principals, permission)
 (I) the `viewdefaults` merge of a class's (inherited) `__view_defaults__` with the explicit arguments, observed
     through add_view on a base/own/explicit/default-permission cube (96 runs)
STRUCTURAL facts — python `ast` (cannot be observed by running: they are about every place in the tree):
 (S) every call of _call_view / render_view_to_response / render_view_to_iterable / render_view / invoke_exception_view,
     every occurrence of `__call_permissive__`, every `secure=False` keyword, with file, enclosing function, the value
     given for `secure`, and (inside `_call_view`) the enclosing tests normalised to `X=true/false`; sorted.  A site
     inside a module-level helper is attributed to the same-module functions that call the helper (two levels).

Every probe fails closed: an exception, a foreign `pyramid` on the path, or an unexpected value yields an empty /
"unknown" table and the `decide`d obligations in Props/C05.lean fail.
"""
import ast, json, os, subprocess, sys

summary = {}
UNKNOWN_PHASE = 99999

VIEW_CALLERS = ('_call_view', 'render_view_to_response', 'render_view_to_iterable', 'render_view', 'invoke_exception_view')
# index of the positional parameter `secure` in each of them
SECURE_POS = {'_call_view': 7, 'render_view_to_response': 3, 'render_view_to_iterable': 3, 'render_view': 3,
              'invoke_exception_view': 2}


class _Sites(ast.NodeVisitor):
    def __init__(self, rel, toplevel=()):
        self.rel, self.stack, self.ifs, self.out = rel, [], [], []
        self.toplevel = set(toplevel)      # names of the module-level functions of this file
        self.helper_calls = []             # (helper name, calling function, guard at the call)

    def qual(self):
        return '.'.join(self.stack) or '<module>'

    def guard(self):
        # the enclosing tests matter where a caller chooses the permissive handle (`_call_view`); elsewhere they
        # only mention locals and are left out so that a rename does not change the table
        return ' & '.join(self.ifs) if (self.stack and self.stack[-1] == '_call_view') else ''

    def visit_ClassDef(self, n):
        self.stack.append(n.name); saved, self.ifs = self.ifs, []
        self.generic_visit(n)
        self.ifs = saved; self.stack.pop()

    def visit_FunctionDef(self, n):
        self.stack.append(n.name); saved, self.ifs = self.ifs, []
        self.generic_visit(n)
        self.ifs = saved; self.stack.pop()

    visit_AsyncFunctionDef = visit_FunctionDef

    @staticmethod
    def _norm(test, branch):
        """`if not X:` body == the else-branch of `if X:`; both are written  X=false"""
        while isinstance(test, ast.UnaryOp) and isinstance(test.op, ast.Not):
            test, branch = test.operand, not branch
        return '%s=%s' % (ast.unparse(test), 'true' if branch else 'false')

    def visit_If(self, n):
        self.visit(n.test)
        self.ifs.append(self._norm(n.test, True))
        for s in n.body:
            self.visit(s)
        self.ifs.pop()
        self.ifs.append(self._norm(n.test, False))
        for s in n.orelse:
            self.visit(s)
        self.ifs.pop()

    def visit_IfExp(self, n):
        self.visit(n.test)
        self.ifs.append(self._norm(n.test, True))
        self.visit(n.body)
        self.ifs.pop()
        self.ifs.append(self._norm(n.test, False))
        self.visit(n.orelse)
        self.ifs.pop()

    def visit_Attribute(self, n):
        if n.attr == '__call_permissive__':
            kind = 'store' if isinstance(n.ctx, ast.Store) else 'load'
            # the receiver is a local name: not recorded, so that renaming it does not change the table
            self.out.append((self.rel, self.qual(), 'attr:__call_permissive__:' + kind, '', self.guard()))
        self.generic_visit(n)

    def visit_Constant(self, n):
        if n.value == '__call_permissive__':
            self.out.append((self.rel, self.qual(), 'str:__call_permissive__', '', self.guard()))

    def visit_Call(self, n):
        if isinstance(n.func, ast.Name) and n.func.id in self.toplevel and n.func.id not in VIEW_CALLERS and self.stack:
            self.helper_calls.append((n.func.id, self.qual(), self.guard()))
        callee = None
        if isinstance(n.func, ast.Name):
            callee = n.func.id
            recv = ''
        elif isinstance(n.func, ast.Attribute):
            callee = n.func.attr
            recv = ast.unparse(n.func.value)
        if callee in VIEW_CALLERS:
            kw = {k.arg: k.value for k in n.keywords}
            sec = kw.get('secure')
            pos = SECURE_POS[callee] - (1 if (recv and callee != 'invoke_exception_view') else 0)
            if callee == 'invoke_exception_view':
                pos = SECURE_POS[callee]
            if sec is None and len(n.args) > pos:
                sec = n.args[pos]
            val = 'default' if sec is None else ast.unparse(sec)
            if recv and callee != 'invoke_exception_view':
                val = ''          # a method of some other object (RendererHelper.render_view): not a view lookup
            shown = '' if not recv else ('request.' if callee == 'invoke_exception_view' else '*.')
            self.out.append((self.rel, self.qual(), 'call:' + shown + callee, val, self.guard()))
        else:
            for k in n.keywords:
                if k.arg == 'secure' and isinstance(k.value, ast.Constant) and k.value.value is False:
                    self.out.append((self.rel, self.qual(), 'kw:secure=False', ast.unparse(n.func), self.guard()))
        self.generic_visit(n)


def call_sites(root):
    """the sites of the whole tree.  A site found inside a module-level helper (not itself a view-lookup entry point)
    that is called from other functions of the same module is attributed to those callers, with the guard standing at
    the call (two levels): extracting `getattr(v, '__call_permissive__', v)` into `_permissive(v)` leaves the table as
    it was."""
    out = []
    base = os.path.join(root, 'pyramid')
    for dirpath, dirs, files in os.walk(base):
        dirs.sort()
        if 'scaffolds' in dirpath:
            continue
        for f in sorted(files):
            if not f.endswith('.py'):
                continue
            p = os.path.join(dirpath, f)
            rel = os.path.relpath(p, base)
            try:
                tree = ast.parse(open(p).read())
            except SyntaxError:
                out.append((rel, '<module>', 'unknown', 'unparsable', ''))
                continue
            top = [n.name for n in tree.body if isinstance(n, ast.FunctionDef)]
            v = _Sites(rel, top)
            v.visit(tree)
            sites = list(v.out)
            for _ in range(2):
                nxt, changed = [], False
                for site in sites:
                    helper = site[1]
                    callers = [(g, guard) for h, g, guard in v.helper_calls if h == helper and g != helper]
                    if helper in top and helper not in VIEW_CALLERS and callers:
                        changed = True
                        for g, guard in callers:
                            nxt.append((site[0], g, site[2], site[3], ' & '.join(x for x in (guard, site[4]) if x)))
                    else:
                        nxt.append(site)
                sites = nxt
                if not changed:
                    break
            out += sites
    return sorted(set(out))


def run_probes(root):
    here = os.path.dirname(os.path.abspath(__file__))
    env = dict(os.environ)
    env['PYTHONPATH'] = root + os.pathsep + env.get('PYTHONPATH', '')
    try:
        p = subprocess.run([sys.executable, os.path.join(here, 'c05_probe.py'), root], stdout=subprocess.PIPE,
                           stderr=subprocess.PIPE, timeout=120, env=env)
        return json.loads(p.stdout.decode())
    except Exception as e:
        return {'own_tree': False, 'errors': {'probe': '%s: %s' % (type(e).__name__, e)}}


def facts(root):
    pr = run_probes(root)
    out = {'probes': pr, 'call_sites': call_sites(root)}
    summary.clear()
    summary.update({'own_tree': pr.get('own_tree'), 'probe_errors': pr.get('errors'),
                    'rows': {k: (len(pr[k]) if isinstance(pr.get(k), list) else None)
                             for k in ('secured', 'call_view', 'multiview', 'tween')},
                    'wrapping': (pr.get('chain') or {}).get('wrapping'),
                    'phases': {k: v.get('effect') for k, v in ((pr.get('phases') or {}).get('directives') or {}).items()},
                    'call_sites': len(out['call_sites'])})
    return out


def _lstr(s):
    return '"' + str(s).replace('\\', '\\\\').replace('"', '\\"').replace('\n', ' ') + '"'


def _lint(i):
    return '(%d)' % i if i < 0 else str(i)


def _lbool(b):
    return 'true' if b else 'false'


def _lnats(l):
    return '[' + ', '.join(str(int(x)) for x in l) + ']'


def _lstrs(l):
    return '[' + ', '.join(_lstr(x) for x in l) + ']'


def _out(o):
    """outcome code: resp t -> [0,t]; none -> [1]; mismatch -> [2]; raised k -> [3,k]; perm b -> [4,b]; else [9]"""
    try:
        if o[0] == 'resp':
            return [0, int(o[1])]
        if o[0] == 'none':
            return [1]
        if o[0] == 'mismatch':
            return [2]
        if o[0] == 'raised':
            return [3, int(o[1])]
        if o[0] == 'perm':
            return [4, 1 if o[1] else 0]
    except Exception:
        pass
    return [9]


def generate(root):
    f = facts(root)
    pr = f['probes']
    L = ['/-! GENERATED by extract/c05.py (+ extract/c05_probe.py run on the tree under test) — do not edit. -/',
         'namespace Pyr.Gen.C05', '',
         'structure CallSite where', '  file : String', '  func : String', '  what : String', '  arg : String', '  guard : String',
         'deriving Repr, DecidableEq', '',
         '/-- one run of `secured_view(view, info)`: perm/dflt 0 absent, 1 a name, 2 the marker; guard 0 none, 1 the explicit',
         'name, 2 the default name; trace 10/11 = permits(request, context, explicit/default name), 19 = permits with other',
         'arguments, 20 = body; outcome 0 response, 1 HTTPForbidden; permitted 0/1 = `__permitted__` answer, 2 = no such attribute -/',
         'structure SecuredRow where', '  perm : Nat', '  excOnly : Bool', '  dflt : Nat', '  policy : Bool', '  truthy : Bool',
         '  guard : Nat', '  permissiveInner : Bool', '  trace : List Nat', '  outcome : Nat', '  permitted : Nat',
         'deriving Repr, DecidableEq', '',
         '/-- `_call_view`: views = (kind 0 response / 1 PredicateMismatch / 2 HTTPForbidden, has permissive handle); events = i for',
         'the i-th callable itself, 100+i for its permissive handle; outcome coded [0,t] resp, [1] None, [2] PredicateMismatch, [3,k] raised -/',
         'structure CallViewRow where', '  views : List (Nat × Bool)', '  secure : Bool', '  events : List Nat', '  out : List Nat',
         'deriving Repr, DecidableEq', '',
         '/-- MultiView: views = (predicate 0 none / 1 true / 2 false, 0 unsecured / 1 secured+granted / 2 secured+refused); events',
         '100+i = body of the i-th, 200+i = the policy asked for the i-th -/',
         'structure MultiRow where', '  views : List (Nat × Nat)', '  callEv : List Nat', '  callOut : List Nat',
         '  permEv : List Nat', '  permOut : List Nat', '  pmtEv : List Nat', '  pmtOut : List Nat',
         'deriving Repr, DecidableEq', '']
    # (A)
    ch = pr.get('chain') or {}
    hints = ch.get('hints') or []
    L += ['/-- (name, under, over) as recorded by `add_view_deriver` for the default derivers, in registration order -/',
          'def probedHints : List (String × List String × List String) := [' +
          ', '.join('(%s, %s, %s)' % (_lstr(n), _lstrs(u), _lstrs(o)) for n, u, o in hints) + ']',
          '/-- names of `registry.getUtility(IViewDerivers).sorted()` -/',
          'def probedSorted : List String := ' + _lstrs(ch.get('sorted') or ['unknown']),
          '/-- the order in which tracing derivers are ENTERED when a derived view is called: outermost first -/',
          'def probedWrapping : List String := ' + _lstrs(ch.get('wrapping') or ['unknown']), '']
    # (B)
    rows = pr.get('secured') or []
    L += ['def securedProbe : List SecuredRow := [']
    L += ['  ⟨%d, %s, %d, %s, %s, %d, %s, %s, %d, %d⟩,' % (r['perm'], _lbool(r['exc_only']), r['dflt'], _lbool(r['policy']), _lbool(r['truthy']),
                                                            r['guard'], _lbool(r['permissive_inner']), _lnats(r['trace']), r['outcome'], r['permitted'])
          for r in rows]
    L[-1] = L[-1].rstrip(',')
    L += [']', '']
    # (C)
    rows = pr.get('call_view') or []
    L += ['def callViewProbe : List CallViewRow := [']
    L += ['  ⟨[%s], %s, %s, %s⟩,' % (', '.join('(%d, %s)' % (k, _lbool(p)) for k, p in r['views']), _lbool(r['secure']),
                                      _lnats(r['events']), _lnats(_out(r['out']))) for r in rows]
    L[-1] = L[-1].rstrip(',')
    L += [']', '']
    # (D)
    rows = pr.get('multiview') or []
    L += ['def multiViewProbe : List MultiRow := [']
    L += ['  ⟨[%s], %s, %s, %s, %s, %s, %s⟩,' % (', '.join('(%d, %d)' % (p, s) for p, s in r['views']),
                                                  _lnats(r['call']['events']), _lnats(_out(r['call']['out'])),
                                                  _lnats(r['permissive']['events']), _lnats(_out(r['permissive']['out'])),
                                                  _lnats(r['permitted']['events']), _lnats(_out(r['permitted']['out']))) for r in rows]
    L[-1] = L[-1].rstrip(',')
    L += [']', '']
    # (E)
    rows = pr.get('tween') or []
    L += ['/-- excview tween around a handler raising E (kind 1): (exception view kind 0 none / 1 response / 2 PredicateMismatch /',
          '3 HTTPNotFound / 4 HTTPForbidden / 5 another exception (kind 2) / 9 = handler returns, has permissive handle, events',
          '50 handler, 1 the exception view itself, 101 its permissive handle, outcome) -/',
          'def tweenProbe : List (Nat × Bool × List Nat × List Nat) := [' +
          ', '.join('(%d, %s, %s, %s)' % (r['kind'], _lbool(r['perm']), _lnats(r['events']), _lnats(_out(r['out']))) for r in rows) + ']', '']
    # (F)
    ph = pr.get('phases') or {}
    L += ['/-- `PHASEn_CONFIG` constants (read from the imported pyramid.interfaces) -/',
          'def phaseConstants : List (String × Int) := [' + ', '.join('(%s, %s)' % (_lstr(k), _lint(v)) for k, v in (ph.get('constants') or [])) + ']',
          '/-- directive ↦ (the `order` of every action it queues, the `order` of the action(s) whose execution produced its effect) -/',
          'def directiveOrders : List (String × List Int × List Int) := [' +
          ', '.join('(%s, [%s], [%s])' % (_lstr(k), ', '.join(_lint(x) for x in v.get('orders', [])), ', '.join(_lint(x) for x in v.get('effect', [])))
                    for k, v in sorted((ph.get('directives') or {}).items())) + ']', '']
    # (G)
    L += ['/-- (directive, derived callable under policy + default permission, rejects a `permission` argument, exception_only) -/',
          'def specialDirectives : List (String × String × Bool × Bool) := [' +
          ', '.join('(%s, %s, %s, %s)' % (_lstr(a), _lstr(b), _lbool(c), _lbool(d)) for a, b, c, d in (pr.get('directives') or [])) + ']', '']
    # (I) view defaults
    vd = pr.get('view_defaults') or {}
    L += ['/-- `viewdefaults` merge observed through add_view: (base, own: 0 undecorated / 1 @view_defaults without permission / 2 a',
          'name / 3 the marker; explicit argument 0 absent / 1 a name / 2 the marker; default permission set?; guard of the derived',
          "callable: 0 none, 1 explicit name, 2 base's name, 3 own name, 4 default permission) -/",
          'def viewDefaultsProbe : List (Nat × Nat × Nat × Nat × Nat) := [' +
          ', '.join('(%d, %d, %d, %d, %d)' % (r['base'], r['own'], r['explicit'], r['dflt'], r['guard']) for r in (vd.get('rows') or [])) + ']',
          '/-- a class-level `permission` makes these directives refuse the class -/',
          'def classPermissionRejected : List (String × Bool) := [' +
          ', '.join('(%s, %s)' % (_lstr(a), _lbool(b)) for a, b in (vd.get('rejected') or [])) + ']', '']
    # (J) entry points
    L += ['/-- which handle of a found view each lookup entry point calls (1 the view itself, 101 its permissive handle, 50 the',
          'wrapped inner view) -/',
          'def entryProbe : List (String × List Nat) := [' +
          ', '.join('(%s, %s)' % (_lstr(a), _lnats(b)) for a, b in (pr.get('entrypoints') or [])) + ']', '']
    # (K) the legacy shim policy
    L += ['/-- LegacySecurityPolicy.permits, four calls on one request: (context, permission, what the AUTHORIZATION policy was',
          'asked during the call,',
          'each coded 100*context + 10*permission + (1 if the principals were the effective principals), truthiness returned) -/',
          'def legacyShimProbe : List (Nat × Nat × List Nat × Bool) := [' +
          ', '.join('(%d, %d, %s, %s)' % (r['ctx'], r['perm'], _lnats([100 * a + 10 * b + (1 if c else 0) for a, b, c in r['asked']]), _lbool(r['result']))
                    for r in (pr.get('legacy_shim') or [])) + ']', '']
    # (H)
    L += ['def secureDefaults : List (String × String) := [' + ', '.join('(%s, %s)' % (_lstr(a), _lstr(b)) for a, b in (pr.get('secure_defaults') or [])) + ']', '']
    # (S)
    L += ['/-- every place that can reach a view callable or its permissive handle (sorted) -/', 'def callSites : List CallSite := [']
    L += ['  ⟨%s⟩,' % ', '.join(_lstr(x) for x in s) for s in f['call_sites']]
    L[-1] = L[-1].rstrip(',')
    L += [']', '', 'end Pyr.Gen.C05', '']
    return {'PyramidModel/Gen/C05.lean': '\n'.join(L)}


if __name__ == '__main__':
    print(generate(sys.argv[1] if len(sys.argv) > 1 else '/repo/src')['PyramidModel/Gen/C05.lean'])
