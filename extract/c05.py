"""Translator for C05: regenerates, from the working tree's source, the table-like facts the C05 theorems rest on.

 (i)   phases       interfaces.py PHASEn_CONFIG constants; the `order=` of every `self.action(...)` call made by
                    set_security_policy / set_authentication_policy / set_authorization_policy /
                    set_default_permission / add_view / add_route / add_view_deriver, resolved through the
                    constants (absent => the default of `order` in config/actions.py `action`)
 (ii)  call sites   every occurrence, in src/pyramid/**/*.py, of `__call_permissive__` (attribute or string),
                    of a call to `_call_view` / `render_view_to_response` / `render_view_to_iterable` /
                    `render_view` / `invoke_exception_view`, and of a call keyword `secure=False`, each with its
                    enclosing function, the value passed for `secure`, and the enclosing `if` tests
 (iii) shape        of viewderivers._secured_view: the permission defaulting preamble, `permitted` asking
                    `policy.permits(request, context, permission)`, the inner view called only under `if result:`,
                    HTTPForbidden raised otherwise, `__call_permissive__` bound to the inner view
                    (local names are alpha-normalised, so renaming a local does not change the output);
                    and of MultiView.__call__ / __permitted__ / __call_permissive__
 (iv)  directives   add_forbidden_view / add_notfound_view / add_exception_view force
                    permission=NO_PERMISSION_REQUIRED + exception_only=True and reject a `permission` argument;
                    StaticURLInfo.add defaults permission to NO_PERMISSION_REQUIRED

Anything that does not have the expected shape is emitted as "unknown" (or an impossible phase), which makes
the `decide`d obligations in Props/C05.lean fail.
"""
import ast, os

summary = {}
UNKNOWN_PHASE = 99999

VIEW_CALLERS = ('_call_view', 'render_view_to_response', 'render_view_to_iterable', 'render_view', 'invoke_exception_view')
# index of the positional parameter `secure` in each of them
SECURE_POS = {'_call_view': 7, 'render_view_to_response': 3, 'render_view_to_iterable': 3, 'render_view': 3,
              'invoke_exception_view': 2}


def _read(root, rel):
    p = os.path.join(root, 'pyramid', rel)
    src = open(p).read()
    return src, ast.parse(src)


def _find_func(tree, cls, name):
    for n in ast.walk(tree):
        if cls is None:
            if isinstance(n, ast.Module):
                for f in n.body:
                    if isinstance(f, ast.FunctionDef) and f.name == name:
                        return f
        elif isinstance(n, ast.ClassDef) and n.name == cls:
            for f in n.body:
                if isinstance(f, ast.FunctionDef) and f.name == name:
                    return f
    return None


# ---------------------------------------------------------------------------------------------- (i) phases

def phase_constants(root):
    src, tree = _read(root, 'interfaces.py')
    out = {}
    for st in tree.body:
        if isinstance(st, ast.Assign) and len(st.targets) == 1 and isinstance(st.targets[0], ast.Name):
            nm = st.targets[0].id
            if nm.startswith('PHASE') and nm.endswith('_CONFIG'):
                try:
                    out[nm] = int(ast.literal_eval(st.value))
                except Exception:
                    out[nm] = UNKNOWN_PHASE
    return out


def action_default_order(root):
    src, tree = _read(root, 'config/actions.py')
    f = _find_func(tree, 'ActionConfiguratorMixin', 'action')
    if f is None:
        return UNKNOWN_PHASE
    args = f.args.args
    defaults = f.args.defaults
    named = dict(zip([a.arg for a in args[len(args) - len(defaults):]], defaults))
    d = named.get('order')
    if isinstance(d, ast.Constant) and isinstance(d.value, int):
        return d.value
    return UNKNOWN_PHASE


def directive_orders(root, consts, default_order):
    """for each directive: the list of resolved `order` values of its self.action(...) calls"""
    table = [('set_security_policy', 'config/security.py', 'SecurityConfiguratorMixin'),
             ('set_authentication_policy', 'config/security.py', 'SecurityConfiguratorMixin'),
             ('set_authorization_policy', 'config/security.py', 'SecurityConfiguratorMixin'),
             ('set_default_permission', 'config/security.py', 'SecurityConfiguratorMixin'),
             ('add_view', 'config/views.py', 'ViewsConfiguratorMixin'),
             ('add_view_deriver', 'config/views.py', 'ViewsConfiguratorMixin'),
             ('add_route', 'config/routes.py', 'RoutesConfiguratorMixin')]
    out = []
    for name, rel, cls in table:
        try:
            src, tree = _read(root, rel)
            f = _find_func(tree, cls, name)
        except Exception:
            f = None
        orders = []
        registers = []
        if f is not None:
            for n in ast.walk(f):
                if (isinstance(n, ast.Call) and isinstance(n.func, ast.Attribute) and n.func.attr == 'action'
                        and isinstance(n.func.value, ast.Name) and n.func.value.id == 'self'):
                    kw = {k.arg: k.value for k in n.keywords}
                    o = kw.get('order')
                    if o is None and len(n.args) >= 5:
                        o = n.args[4]
                    if o is None:
                        val = default_order
                    elif isinstance(o, ast.Name):
                        val = consts.get(o.id, UNKNOWN_PHASE)
                    elif isinstance(o, ast.Constant) and isinstance(o.value, int):
                        val = o.value
                    else:
                        val = UNKNOWN_PHASE
                    cal = n.args[1] if len(n.args) > 1 else kw.get('callable')
                    orders.append((val, ast.unparse(cal) if cal is not None else 'None'))
        if not orders:
            orders = [(UNKNOWN_PHASE, 'unknown')]
        out.append((name, orders))
    return out


# ------------------------------------------------------------------------------------------ (ii) call sites

class _Sites(ast.NodeVisitor):
    def __init__(self, rel):
        self.rel, self.stack, self.ifs, self.out = rel, [], [], []

    def qual(self):
        return '.'.join(self.stack) or '<module>'

    def guard(self):
        # the enclosing tests matter where a caller chooses the permissive handle (`_call_view`); elsewhere they
        # only mention locals and are left out so that a rename does not change the table
        return ' & '.join(self.ifs) if (self.stack and self.stack[-1] == '_call_view') else ''

    def visit_ClassDef(self, n):
        self.stack.append(n.name); saved, self.ifs = self.ifs, []
        self.generic_visit(n)
        self.ifs = saved; self.stack.pop()

    def visit_FunctionDef(self, n):
        self.stack.append(n.name); saved, self.ifs = self.ifs, []
        self.generic_visit(n)
        self.ifs = saved; self.stack.pop()

    visit_AsyncFunctionDef = visit_FunctionDef

    def visit_If(self, n):
        self.visit(n.test)
        t = ast.unparse(n.test)
        self.ifs.append('if ' + t)
        for s in n.body:
            self.visit(s)
        self.ifs.pop()
        self.ifs.append('else ' + t)
        for s in n.orelse:
            self.visit(s)
        self.ifs.pop()

    def visit_Attribute(self, n):
        if n.attr == '__call_permissive__':
            kind = 'store' if isinstance(n.ctx, ast.Store) else 'load'
            # the receiver is a local name: not recorded, so that renaming it does not change the table
            self.out.append((self.rel, self.qual(), 'attr:__call_permissive__:' + kind, '', self.guard()))
        self.generic_visit(n)

    def visit_Constant(self, n):
        if n.value == '__call_permissive__':
            self.out.append((self.rel, self.qual(), 'str:__call_permissive__', '', self.guard()))

    def visit_Call(self, n):
        callee = None
        if isinstance(n.func, ast.Name):
            callee = n.func.id
            recv = ''
        elif isinstance(n.func, ast.Attribute):
            callee = n.func.attr
            recv = ast.unparse(n.func.value)
        if callee in VIEW_CALLERS:
            kw = {k.arg: k.value for k in n.keywords}
            sec = kw.get('secure')
            pos = SECURE_POS[callee] - (1 if (recv and callee != 'invoke_exception_view') else 0)
            if callee == 'invoke_exception_view':
                pos = SECURE_POS[callee]
            if sec is None and len(n.args) > pos:
                sec = n.args[pos]
            val = 'default' if sec is None else ast.unparse(sec)
            if recv and callee != 'invoke_exception_view':
                val = ''          # a method of some other object (RendererHelper.render_view): not a view lookup
            shown = '' if not recv else ('request.' if callee == 'invoke_exception_view' else '*.')
            self.out.append((self.rel, self.qual(), 'call:' + shown + callee, val, self.guard()))
        else:
            for k in n.keywords:
                if k.arg == 'secure' and isinstance(k.value, ast.Constant) and k.value.value is False:
                    self.out.append((self.rel, self.qual(), 'kw:secure=False', ast.unparse(n.func), self.guard()))
        self.generic_visit(n)


def call_sites(root):
    out = []
    base = os.path.join(root, 'pyramid')
    for dirpath, dirs, files in os.walk(base):
        dirs.sort()
        if 'scaffolds' in dirpath:
            continue
        for f in sorted(files):
            if not f.endswith('.py'):
                continue
            p = os.path.join(dirpath, f)
            rel = os.path.relpath(p, base)
            try:
                tree = ast.parse(open(p).read())
            except SyntaxError:
                out.append((rel, '<module>', 'unknown', 'unparsable', ''))
                continue
            v = _Sites(rel)
            v.visit(tree)
            out += v.out
    return out


def secure_defaults(root):
    """the default value of the `secure` parameter of each view-calling function"""
    src, tree = _read(root, 'view.py')
    out = []
    for name, cls in (('_call_view', None), ('render_view_to_response', None), ('render_view_to_iterable', None),
                      ('render_view', None), ('invoke_exception_view', 'ViewMethodsMixin')):
        f = _find_func(tree, cls, name)
        val = 'unknown'
        if f is not None:
            args = f.args.args
            defaults = f.args.defaults
            named = dict(zip([a.arg for a in args[len(args) - len(defaults):]], defaults))
            if 'secure' in named:
                val = ast.unparse(named['secure'])
        out.append((name, val))
    return out


# -------------------------------------------------------------------------------------------- (iii) shapes

class _Alpha(ast.NodeTransformer):
    """mark every locally bound name (parameters, assigned names, inner function names, `except … as` names) as
    §name§; `shape_of` then numbers them v0, v1, … in order of first occurrence in the EMITTED text, so that the
    shape depends neither on the spelling of locals nor on the order of independent initialisations"""

    def __init__(self, func):
        self.names = set()
        for n in ast.walk(func):
            if isinstance(n, ast.FunctionDef):
                if n is not func:
                    self.names.add(n.name)
                for a in n.args.args:
                    self.names.add(a.arg)
            elif isinstance(n, ast.Name) and isinstance(n.ctx, ast.Store):
                self.names.add(n.id)
            elif isinstance(n, ast.ExceptHandler) and n.name:
                self.names.add(n.name)

    def mark(self, nm):
        return '\u00a7%s\u00a7' % nm if nm in self.names else nm

    def visit_Name(self, n):
        return ast.copy_location(ast.Name(id=self.mark(n.id), ctx=n.ctx), n)

    def visit_arg(self, n):
        n.arg = self.mark(n.arg)
        return n

    def visit_FunctionDef(self, n):
        n.name = self.mark(n.name)
        self.generic_visit(n)
        return n

    def visit_ExceptHandler(self, n):
        if n.name:
            n.name = self.mark(n.name)
        self.generic_visit(n)
        return n


def _strip_doc(body):
    if body and isinstance(body[0], ast.Expr) and isinstance(body[0].value, ast.Constant) and isinstance(body[0].value.value, str):
        return body[1:]
    return body


def shape_of(func, cut_loop=False):
    """alpha-normalised statements of a function; runs of attribute assignments are sorted by attribute name;
    with cut_loop only the first top-level `for` statement is kept"""
    if func is None:
        return ['unknown']
    import copy, re
    f = copy.deepcopy(func)
    f = _Alpha(f).visit(f)
    ast.fix_missing_locations(f)
    out = ['def(' + ','.join(a.arg for a in f.args.args) + ')']

    def emit(stmts, indent):
        run = []

        def flush():
            for _, s in sorted(run):
                out.append(indent + s)
            run.clear()
        for st in _strip_doc(stmts):
            if isinstance(st, ast.Assign) and len(st.targets) == 1 and isinstance(st.targets[0], ast.Attribute):
                run.append((st.targets[0].attr, ast.unparse(st)))
                continue
            flush()
            if isinstance(st, ast.FunctionDef):
                out.append(indent + 'def %s(%s):' % (st.name, ','.join(a.arg for a in st.args.args)))
                emit(st.body, indent + '  ')
            elif isinstance(st, ast.If):
                out.append(indent + 'if ' + ast.unparse(st.test) + ':')
                emit(st.body, indent + '  ')
                if st.orelse:
                    out.append(indent + 'else:')
                    emit(st.orelse, indent + '  ')
            elif isinstance(st, ast.For):
                out.append(indent + 'for ' + ast.unparse(st.target) + ' in ' + ast.unparse(st.iter) + ':')
                emit(st.body, indent + '  ')
            elif isinstance(st, ast.Try):
                out.append(indent + 'try:')
                emit(st.body, indent + '  ')
                for h in st.handlers:
                    out.append(indent + 'except ' + (ast.unparse(h.type) if h.type else '') + (' as ' + h.name if h.name else '') + ':')
                    emit(h.body, indent + '  ')
            else:
                out.append(indent + ast.unparse(st).replace('\n', ' '))
        flush()
    emit(f.body, '')
    if cut_loop:
        start = next((i for i, l in enumerate(out) if l.startswith('for ')), None)
        if start is None:
            return ['unknown']
        end = next((i for i in range(start + 1, len(out)) if not out[i].startswith(' ')), len(out))
        out = out[start:end]
    numbering = {}

    def number(m):
        nm = m.group(1)
        if nm not in numbering:
            numbering[nm] = 'v%d' % len(numbering)
        return numbering[nm]
    return [re.sub('\u00a7(\\w+)\u00a7', number, l) for l in out]


def shapes(root):
    src, tree = _read(root, 'viewderivers.py')
    out = {'_secured_view': shape_of(_find_func(tree, None, '_secured_view')),
           'secured_view': shape_of(_find_func(tree, None, 'secured_view'))}
    src, tree = _read(root, 'config/views.py')
    for m in ('__call__', '__permitted__', '__call_permissive__', 'match'):
        out['MultiView.' + m] = shape_of(_find_func(tree, 'MultiView', m))
    src, tree = _read(root, 'view.py')
    f = _find_func(tree, None, '_call_view')
    # only the loop of _call_view (the lookup part is C03's)
    out['_call_view.loop'] = shape_of(f, cut_loop=True)
    src, tree = _read(root, 'tweens.py')
    out['_error_handler'] = shape_of(_find_func(tree, None, '_error_handler'))
    return out


# ------------------------------------------------------------------------------------- (iv) special directives

def _is_npr(node):
    return isinstance(node, ast.Name) and node.id == 'NO_PERMISSION_REQUIRED'


def special_directives(root):
    src, tree = _read(root, 'config/views.py')
    out = []
    for name in ('add_forbidden_view', 'add_notfound_view', 'add_exception_view'):
        f = _find_func(tree, 'ViewsConfiguratorMixin', name)
        forced, rejects, exc_only, update_ok = 'unknown', False, False, False
        if f is not None:
            # the rejection loop: for arg in (... 'permission' ...): if arg in view_options: raise ConfigurationError
            for n in ast.walk(f):
                if isinstance(n, ast.For) and isinstance(n.iter, ast.Tuple):
                    vals = [e.value for e in n.iter.elts if isinstance(e, ast.Constant)]
                    raises = any(isinstance(x, ast.Raise) for x in ast.walk(n))
                    if 'permission' in vals and raises:
                        rejects = True
            # dict(... permission=NO_PERMISSION_REQUIRED, exception_only=True ...)
            dict_line = None
            for n in ast.walk(f):
                if isinstance(n, ast.Call) and isinstance(n.func, ast.Name) and n.func.id == 'dict':
                    kw = {k.arg: k.value for k in n.keywords}
                    if 'permission' in kw:
                        forced = 'NO_PERMISSION_REQUIRED' if _is_npr(kw['permission']) else 'unknown'
                        eo = kw.get('exception_only')
                        exc_only = isinstance(eo, ast.Constant) and eo.value is True
                        dict_line = n.lineno
            # whatever is merged over the dict afterwards comes from view_options, which may not hold `permission`
            ends_in_add_view = False
            last = f.body[-1]
            if isinstance(last, ast.Return) and isinstance(last.value, ast.Call) and getattr(last.value.func, 'attr', None) == 'add_view':
                ends_in_add_view = True
            # no later assignment to settings['permission'] / view_options['permission']
            later = False
            for n in ast.walk(f):
                if isinstance(n, ast.Subscript) and isinstance(n.ctx, ast.Store) and isinstance(n.slice, ast.Constant) and n.slice.value == 'permission':
                    later = True
            update_ok = ends_in_add_view and not later and dict_line is not None
        if not update_ok:
            forced = 'unknown'
        out.append((name, forced, rejects, exc_only))
    # static views
    f = _find_func(tree, 'StaticURLInfo', 'add')
    forced = 'unknown'
    if f is not None:
        s = ast.unparse(f).replace(' ', '').replace('\n', '')
        if ("permission=extra.pop('permission',None)ifpermissionisNone:permission=NO_PERMISSION_REQUIRED" in s
                and 'permission=permission' in s):
            forced = 'NO_PERMISSION_REQUIRED'
    out.append(('add_static_view', forced, False, False))
    return out


# --------------------------------------------------------------------------------------------------- output

def facts(root):
    consts = phase_constants(root)
    dflt = action_default_order(root)
    out = {'phase_constants': sorted(consts.items()), 'action_default_order': dflt,
           'directive_orders': directive_orders(root, consts, dflt),
           'call_sites': call_sites(root), 'secure_defaults': secure_defaults(root),
           'shapes': shapes(root), 'special_directives': special_directives(root)}
    summary.clear()
    summary.update({'directive_orders': {k: [o for o, _ in v] for k, v in out['directive_orders']},
                    'call_sites': len(out['call_sites']), 'special_directives': out['special_directives']})
    return out


SHAPE_NAMES = {'_secured_view': 'shapeSecuredInner', 'secured_view': 'shapeSecuredDeriver', 'MultiView.__call__': 'shapeMultiCall',
               'MultiView.__permitted__': 'shapeMultiPermitted', 'MultiView.__call_permissive__': 'shapeMultiPermissive',
               'MultiView.match': 'shapeMultiMatch', '_call_view.loop': 'shapeCallViewLoop', '_error_handler': 'shapeErrorHandler'}


def _lstr(s):
    return '"' + str(s).replace('\\', '\\\\').replace('"', '\\"').replace('\n', ' ') + '"'


def _lint(i):
    return '(%d)' % i if i < 0 else str(i)


def _c18_generate(root):
    """the default deriver chain with its under/over hints is extracted by the C18 translator; C05's theorems
    (`secured_outermost`) are stated over it, so a C05 check regenerates that file as well (same content)"""
    import importlib.util
    here = os.path.dirname(os.path.abspath(__file__))
    spec = importlib.util.spec_from_file_location('extract_c18_for_c05', os.path.join(here, 'c18.py'))
    m = importlib.util.module_from_spec(spec)
    spec.loader.exec_module(m)
    return m.generate(root)


def generate(root):
    f = facts(root)
    out = _generate_c05(f)
    out.update(_c18_generate(root))
    return out


def _generate_c05(f):
    L = ['/-! GENERATED by extract/c05.py from src/pyramid — do not edit. -/', 'namespace Pyr.Gen.C05', '',
         'structure CallSite where', '  file : String', '  func : String', '  what : String', '  arg : String', '  guard : String',
         'deriving Repr, DecidableEq', '',
         '/-- `PHASEn_CONFIG` constants of interfaces.py -/',
         'def phaseConstants : List (String × Int) := [' + ', '.join('(%s, %s)' % (_lstr(k), _lint(v)) for k, v in f['phase_constants']) + ']',
         '/-- default of `order` in `Configurator.action` -/',
         'def actionDefaultOrder : Int := ' + _lint(f['action_default_order']), '',
         '/-- for each directive, the resolved `order` and the callable of every `self.action(...)` it issues -/',
         'def directiveOrders : List (String × List (Int × String)) := [']
    L += ['  (%s, [%s]),' % (_lstr(k), ', '.join('(%s, %s)' % (_lint(o), _lstr(c)) for o, c in v)) for k, v in f['directive_orders']]
    L[-1] = L[-1].rstrip(',')
    L += [']', '', '/-- every place that can reach a view callable or its permissive handle -/', 'def callSites : List CallSite := [']
    L += ['  ⟨%s⟩,' % ', '.join(_lstr(x) for x in s) for s in f['call_sites']]
    L[-1] = L[-1].rstrip(',')
    L += [']', '', 'def secureDefaults : List (String × String) := [' + ', '.join('(%s, %s)' % (_lstr(a), _lstr(b)) for a, b in f['secure_defaults']) + ']', '']
    for key in sorted(f['shapes']):
        nm = SHAPE_NAMES[key]
        L += ['def %s : List String := [' % nm]
        L += ['  %s,' % _lstr(x) for x in f['shapes'][key]]
        L[-1] = L[-1].rstrip(',')
        L += [']', '']
    L += ['/-- (directive, permission it forces / defaults to, rejects a `permission` argument, forces exception_only) -/',
          'def specialDirectives : List (String × String × Bool × Bool) := [']
    L += ['  (%s, %s, %s, %s),' % (_lstr(a), _lstr(b), 'true' if c else 'false', 'true' if d else 'false') for a, b, c, d in f['special_directives']]
    L[-1] = L[-1].rstrip(',')
    L += [']', '', 'end Pyr.Gen.C05', '']
    return {'PyramidModel/Gen/C05.lean': '\n'.join(L)}


if __name__ == '__main__':
    import sys
    print(generate(sys.argv[1] if len(sys.argv) > 1 else '/repo/src')['PyramidModel/Gen/C05.lean'])
