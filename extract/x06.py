"""Translator for X06: regenerates, by RUNNING the predicate classes of the tree under test (src/pyramid/predicates.py) and
PredicateList.make (src/pyramid/config/predicates.py) in a fresh interpreter with `src_root` first on the path, the
behavioural tables that Props/X06.lean decides against the model's own functions.  No AST matching: a refactoring that
keeps the behaviour leaves the tables unchanged; a change of behaviour inside the probed domain changes them and the
`decide`d obligations fail.

Tables (Lean data in Gen/X06.lean):
 * spaceCodes     every code point c with (chr(c) + 'x').strip() != chr(c) + 'x'   (what str.strip() removes)
 * parseTable     (text, key, value?) of RequestParamPredicate(text).reqs[0] over a list of parameter texts
 * sortedTable    (list, as_sorted_tuple(list))
 * rxTable        (regex text, tree) — the library `re.compile` stands for in the probes; each text is checked to compile
 * textTable      (factory, value, number of not_ wrappers, (text(), phash()) or none when the constructor raises)
 * reqs / ctxs    the request and context cube, read back from real Request objects / described resource lineages
 * decisionTable  (factory, value, not_ count, ctx index, request index, decision or none when the call raises)
 * traverseTable  (pattern, not_ count, 'traverse' already in the info dict, matchdict before, matchdict after) of TraversePredicate
 * makeTable      (registration order, keywords, (order, phash pre-image) or none) of PredicateList.make; the real phash is
                  checked to be sha256 of the pre-image (the concatenated predicate phashes) before a row is emitted
 * viewOrder / routeOrder   names of the default view / route predicate lists in sorter order
 * evalTable      (answers of three counting custom predicates, mode, answer of the list, which ones were called) through
                  the view predicate wrapper, RoutesMapper and the subscriber wrapper
 * maxOrder, defaultPhashOk
Fail closed: any exception, inconsistency or time-out makes `probeStatus` an "unknown: …" text and empties the tables, so that
`gen_probe_trusted` and the length clauses fail.
"""
import hashlib, json, os, subprocess, sys

summary = {}
HERE = os.path.dirname(os.path.abspath(__file__))

PARSE = ['a', 'a=1', ' a = 1 ', 'a=', '=a', '=a=1', '==', '= a = 1', 'a=b=c', '', '=', ' =1', '\ta\t=\t1', 'a\xa0= 1　', 'a =', ' a', 'a ',
         '=  =', 'k=v=w=', '\x1fa=1', 'a=\x85', 'x y=z', '==a', 'é=ü', ' = ']
SORTED = [[], ['b', 'a'], ['GET', 'HEAD', 'DELETE'], ['a', 'B', 'aa', 'A', ''], ['é', 'z', 'e'], ['b', 'a', 'b'], ['日', 'a', 'é']]
RX = [['chr', 'a'], ['seq', ['chr', '/'], ['seq', ['chr', 'a'], ['chr', 'b']]], ['rep', True, 1, None, ['esc', 'd', False]],
      ['rep', True, 0, None, ['any']], ['alt', ['chr', 'x'], ['seq', ['chr', 'x'], ['chr', 'y']]], ['eps'],
      ['seq', ['chr', '/'], ['rep', False, 1, None, ['set', True, [['c', '/']]]]], ['set', False, [['r', 'a', 'c'], ['e', 'd']]]]
FNS = [['const', True], ['const', False], ['method', 'GET'], ['xhr']]


def cube():
    """(factory, [values]) — VAL in the harness's case form"""
    def cust(i, h, text=None):
        return {'cust': {'fn': i, 'hash': h, 'text': text}}
    return [
        ('xhr', [{'b': True}, {'b': False}]),
        ('request_method', [{'one': 'GET'}, {'one': 'POST'}, {'many': ['POST', 'GET']}, {'many': ['HEAD']}, {'many': []}, {'one': 'get'},
                            {'many': ['PUT', 'DELETE', 'GET', 'HEAD']}]),
        ('path_info', [{'one': 'a'}, {'one': '/ab'}, {'one': '\\d+'}, {'one': '.*'}, {'one': '(?:x|xy)'}, {'one': ''}, {'one': '/[^/]+?'},
                       {'one': '[a-c\\d]'}, {'one': '('}, {'one': '[a'}]),
        ('request_param', [{'one': 'a'}, {'one': 'a=1'}, {'one': ' a = 1 '}, {'one': 'a='}, {'one': '=a'}, {'one': '=a=1'}, {'many': ['b', 'a=1']},
                           {'many': ['a', 'b']}, {'one': 'a,b'}, {'many': []}, {'one': ''}, {'one': 'é=ü'}]),
        ('header', [{'one': 'X-Foo'}, {'one': 'x_foo'}, {'one': 'X-Foo:a'}, {'one': 'X-Foo:\\d+'}, {'one': 'X-Foo:'}, {'one': 'Content-Type'},
                    {'one': 'Content_Type'}, {'many': ['X-Foo', 'Host:.*']}, {'one': 'X-Foo:('}, {'one': 'A=x'}, {'many': []},
                    {'one': 'content-length:\\d+'}]),
        ('accept', [{'one': 'text/html'}, {'many': ['text/plain', 'image/png']}, {'many': []}, {'many': ['application/json', 'text/html']}]),
        ('containment', [{'tag': t} for t in range(4)]),
        ('request_type', [{'tag': t, 'req': True} for t in range(3)]),
        ('match_param', [{'one': 'a=1'}, {'many': ['a = 1', 'b=2']}, {'one': 'a'}, {'one': 'a='}, {'many': []}, {'one': 'traverse=x'}]),
        ('custom', [cust(0, 5), cust(1, -7, 'my text'), cust(2, 0, ''), cust(3, 123456789012345)]),
        ('traverse', [{'pat': [['lit', '/'], ['ph', 'a']]}]),
        ('physical_path', [{'one': '/a'}, {'one': '/'}, {'one': 'a'}, {'one': '//a//b'}, {'many': ['', 'a']}, {'many': ['a']}, {'many': []},
                           {'many': ['', "it's", 'a"b']}, {'one': ''}]),
        ('is_authenticated', [{'auth': True}, {'auth': False}, {'auth': None}, {'auth': {'i': 1}}, {'auth': {'i': 0}}, {'auth': {'i': -3}}]),
        ('effective_principals', [{'one': 'fred'}, {'many': ['fred', 'system.Everyone']}, {'many': []}, {'many': ["it's", 'a"b', 'x\\y', 'b\n']},
                                  {'many': ['b', 'a', 'b']}]),
    ]


def base_req(**kw):
    q = {'method': 'GET', 'path': '/', 'get': [], 'post': None, 'environ': [], 'accept': None, 'context': None, 'ifaces': [],
         'matchdict': None, 'is_auth': False, 'principals': ['system.Everyone']}
    q.update(kw)
    return q


REQS = [
    base_req(),
    base_req(method='HEAD', path='/ab', get=[['a', '1']], environ=[['HTTP_X_FOO', 'a1']], is_auth=True, principals=['system.Everyone', 'fred', "it's", 'a"b', 'x\\y', 'b\n', 'a', 'b']),
    base_req(method='POST', path='/12/x', get=[['a', '2'], ['a', '1'], ['b', '']], post=[['a', '9'], ['c', '3']], environ=[['HTTP_X_REQUESTED_WITH', 'XMLHttpRequest']],
             accept=[['text', 'html', 1000]], ifaces=[0], matchdict=[['a', ['s', '1']], ['b', ['s', '2']]]),
    base_req(method='get', path='xy', get=[['a', ''], ['=a', '1']], environ=[['HTTP_X_FOO', '77'], ['HTTP_A', 'x']],
             accept=[['text', '*', 0], ['text', 'html', 1000]], context=[{'name': ['text', 'q'], 'tags': [1, 3]}], matchdict=[]),
    base_req(method='PUT', path='/a/b\nc', get=[['', 'x'], ['é', 'ü'], ['a', 'b=c']], post=[['b', '1']], environ=[['CONTENT_TYPE', 'text/html']],
             accept=[['*', '*', 0]], ifaces=[1], matchdict=[['a', ['t', ['1']]], ['traverse', ['s', 'x']]]),
    base_req(method='DELETE', path='', get=[['a,b', '1'], ['b', '2']], environ=[['HTTP_CONTENT_TYPE', 'z'], ['HTTP_X_REQUESTED_WITH', 'xmlhttprequest']],
             accept=[['text', 'html', 0], ['*', '*', 500]], matchdict=[['a', ['s', '']]], is_auth=True),
    base_req(method='GET', path='/abc', accept='invalid', environ=[['HTTP_X-FOO', 'a']], principals=['fred']),
    base_req(method='GET', path='c5', accept=[['text', '*', 1000], ['text', '*', 0], ['image', 'png', 1]], principals=[]),
]
CTXS = [
    {'kind': 'res', 'lineage': []},
    {'kind': 'res', 'lineage': [{'name': ['text', 'a'], 'tags': [0]}, {'name': ['text', ''], 'tags': [2]}]},
    {'kind': 'res', 'lineage': [{'name': ['text', 'b'], 'tags': [2, 3]}, {'name': ['text', 'a'], 'tags': []}, {'name': ['none'], 'tags': [1]}]},
    {'kind': 'res', 'lineage': [{'name': ['absent'], 'tags': [0, 1]}]},
    {'kind': 'res', 'lineage': [{'name': ['text', 'a'], 'tags': []}, {'name': ['absent'], 'tags': [3]}]},
    {'kind': 'res', 'lineage': [{'name': ['none'], 'tags': []}]},
    {'kind': 'res', 'lineage': [{'name': ['text', 'a"b'], 'tags': []}, {'name': ['text', "it's"], 'tags': []}, {'name': ['text', ''], 'tags': []}]},
]
TRAV = [([['lit', '/'], ['ph', 'a'], ['lit', '/q/'], ['ph', 'b']], [['a', ['s', 'x']], ['b', ['s', '..']]]),
        ([['lit', '/'], ['ph', 'a'], ['lit', '/q/'], ['ph', 'b']], [['a', ['s', 'x']], ['b', ['s', 'y/./z']]]),
        ([['lit', '/'], ['ph', 'a']], [['a', ['s', 'x']], ['traverse', ['s', 'old']], ['b', ['s', 'y']]]),
        ([['lit', '/']], [['a', ['s', 'x']]]),
        ([['lit', '/a/../../b/c']], [])]


def make_rows(H):
    V = [[n, n] for n in H.VIEW_NAMES]
    C = lambda i, h=0: {'v': {'cust': {'fn': i, 'hash': h, 'text': None}}, 'not': False}   # noqa: E731
    rows = [
        (V, []),
        (V, [['xhr', {'v': {'b': True}, 'not': False}]]),
        (V, [['xhr', None]]),
        (V, [['nope', None]]),
        (V, [['custom', {'seq': [C(0), C(1, 3), C(0, -2)]}]]),
        (V, [['custom', {'seq': []}]]),
        (V, [['request_method', {'v': {'one': 'GET'}, 'not': True}], ['xhr', {'v': {'b': False}, 'not': False}]]),
        (V, [['xhr', {'v': {'b': False}, 'not': False}], ['request_method', {'v': {'one': 'GET'}, 'not': True}]]),
        (V, [['path_info', {'v': {'one': '/ab'}, 'not': False}], ['request_param', {'v': {'one': 'y'}, 'not': False}]]),
        (V, [['path_info', {'v': {'one': '('}, 'not': False}]]),
        (V, [['match_param', {'v': {'one': 'a'}, 'not': False}]]),
        (V, [['request_param', {'v': {'one': '日'}, 'not': False}]]),
        (V, [['effective_principals', {'v': {'many': ['b', 'a']}, 'not': True}], ['physical_path', {'v': {'one': '/a/b'}, 'not': False}],
             ['is_authenticated', {'v': {'auth': True}, 'not': False}], ['accept', {'v': {'one': 'text/html'}, 'not': False}],
             ['header', {'v': {'many': ['X-Foo', 'Host:.*']}, 'not': False}], ['containment', {'v': {'tag': 1}, 'not': False}],
             ['request_type', {'v': {'tag': 0, 'req': True}, 'not': False}], ['match_param', {'v': {'one': 'a=1'}, 'not': False}]]),
        ([[n, n] for n in H.ROUTE_NAMES], [['traverse', {'v': {'pat': [['lit', '/'], ['ph', 'a']]}, 'not': False}], ['xhr', {'v': {'b': True}, 'not': True}]]),
        ([['z', 'custom'], ['a', 'xhr'], ['m', 'request_method']], [['m', {'v': {'one': 'POST'}, 'not': False}], ['z', C(1)]]),
        ([['z', 'custom'], ['a', 'xhr'], ['m', 'request_method']], [['a', {'v': {'b': True}, 'not': False}]]),
    ]
    return rows


def _probe(src_root):
    out = {}
    try:
        import warnings
        warnings.simplefilter('ignore')
        sys.path.insert(0, os.path.join(os.path.dirname(HERE), 'lib'))
        sys.path.insert(0, os.path.join(os.path.dirname(HERE), 'harness'))
        import x06 as H
        import re
        M = H.mods(src_root)
        P, CP = M['P'], M['CP']
        out['module'] = [os.path.realpath(m.__file__) for m in (P, CP)]
        out['space'] = [c for c in range(0x110000) if not 0xD800 <= c < 0xE000 and (chr(c) + 'x').strip() != chr(c) + 'x']
        parse = []
        for p in PARSE:
            pr = P.RequestParamPredicate(p, None)
            if len(pr.reqs) != 1:
                raise RuntimeError('one text gave %d requirements' % len(pr.reqs))
            k, v = pr.reqs[0]
            parse.append([p, k, v])
        out['parse'] = parse
        out['sorted'] = [[v, list(M['U'].as_sorted_tuple(tuple(v)))] for v in SORTED]
        for t in RX:
            re.compile(H.rx_print(t))
        out['rx'] = [[H.rx_print(t), H.rx_wire(t)] for t in RX]
        base = {'rxlib': RX, 'fns': FNS}
        texts, decisions, reqs, valtab = [], [], [], []
        real_reqs = []
        for q in REQS:
            r = H.build_request(M, q)
            reqs.append(H.enc_req(H.measure(q, r)))
        out['reqs'] = reqs
        out['ctxs'] = [H.enc_ctx(c) for c in CTXS]
        for f, vals in cube():
            for val in vals:
                for k in (0, 1, 2):
                    case = dict(base, op='pred', f=f, val=val, ctx=CTXS[0], req=REQS[0])
                    case['not'] = k
                    g = H.one_pred(M, case, val, [], {})
                    ev = H.enc_val(M, case, val)
                    if k == 0:
                        valtab.append([f, ev])
                    vi = len(valtab) - 1
                    texts.append([vi, k, None if 'err' in g else [g['text'], g['phash']]])
                    if 'err' in g or (k == 2 and f != 'custom'):
                        continue
                    for ci, c in enumerate(CTXS if f in ('containment', 'physical_path') else CTXS[:2]):
                        for qi, q in enumerate(REQS):
                            if f == 'traverse':
                                continue
                            case = dict(base, op='pred', f=f, val=val, ctx=c, req=q)
                            case['not'] = k
                            g = H.one_pred(M, case, val, [], {})
                            d = g['call']['ok'][0] if 'ok' in g['call'] else None
                            decisions.append([vi, k, ci, qi, 2 if d is None else 1 if d else 0])
        out['texts'], out['decisions'], out['vals'] = texts, decisions, valtab
        trav = []
        for pat, match in TRAV:
            for k, ht in ((0, False), (1, False), (0, True), (1, True)):
                ctx = {'kind': 'info', 'has_traverse': ht, 'match': match}
                case = dict(base, op='pred', f='traverse', val={'pat': pat}, ctx=ctx, req=REQS[0])
                case['not'] = k
                g = H.one_pred(M, case, case['val'], [], {})
                if 'ok' not in g.get('call', {}) or g['call']['ok'][0] is not True:
                    raise RuntimeError('traverse did not answer True')
                trav.append([H.enc_val(M, case, case['val']), k, ht, H.enc_dict(match), H.enc_dict(g['call']['ok'][1]['match'])])
        out['traverse'] = trav
        mk = []
        for reg, kw in make_rows(H):
            case = dict(base, op='make', mode='direct', reg=reg, kw=kw, var=None, ctx=CTXS[0], req=REQS[0])
            g = H.impl_make_direct(M, case, kw)
            res = None
            if 'err' not in g:
                pre = ''.join(g['phashes'])
                if hashlib.sha256(pre.encode('latin-1')).hexdigest() != g['phash']:
                    raise RuntimeError('phash is not sha256 of the concatenated predicate phashes')
                res = [g['order'], pre]
            mk.append([[[H.codes(n), f] for n, f in reg], H.enc_kw(M, case, kw), res])
        out['make'] = mk
        cfg = M['Configurator']()
        cfg.commit()
        out['view_order'] = [n for n, _ in cfg.get_predlist('view').sorter.sorted()]
        out['route_order'] = [n for n, _ in cfg.get_predlist('route').sorter.sorted()]
        ev = []
        import itertools
        for bits in itertools.product([True, False], repeat=3):
            fns = [['const', b] for b in bits]
            kw = [['custom', {'seq': [{'v': {'cust': {'fn': i, 'hash': i, 'text': None}}, 'not': False} for i in range(3)]}]]
            for mode in ('view', 'route', 'subscriber'):
                reg = [[n, n] for n in (H.VIEW_NAMES if mode == 'view' else H.ROUTE_NAMES)] if mode != 'subscriber' else [['custom', 'custom']]
                ctx = CTXS[1] if mode != 'route' else {'kind': 'info', 'has_traverse': False, 'match': [['a', ['s', 'x']]]}
                case = {'op': 'make', 'mode': mode, 'reg': reg, 'kw': kw, 'var': None, 'rxlib': [], 'fns': fns, 'ctx': ctx, 'req': REQS[0]}
                g = H.impl_make_config(M, case, kw)
                if 'err' in g or 'ok' not in g['eval']:
                    raise RuntimeError('evaluation probe failed: %r' % (g.get('err') or g['eval'],))
                ev.append([list(bits), {'view': 0, 'route': 1, 'subscriber': 2}[mode], g['eval']['ok'][0], g['eval']['ok'][2]])
        out['eval'] = ev
        out['max_order'] = CP.MAX_ORDER
        out['default_phash_ok'] = CP.DEFAULT_PHASH == hashlib.sha256(b'').hexdigest()
        out['status'] = 'ok'
    except BaseException as e:      # noqa — fail closed
        out = {'status': 'unknown: %s: %s' % (type(e).__name__, str(e)[:200])}
    return out


def facts(src_root):
    py = '/venv/bin/python' if os.path.exists('/venv/bin/python') else sys.executable
    env = dict(os.environ, PYTHONPATH=src_root, PYTHONWARNINGS='ignore')
    try:
        p = subprocess.run([py, os.path.abspath(__file__), '--probe', src_root], env=env, stdout=subprocess.PIPE, stderr=subprocess.PIPE,
                           timeout=300)
        f = json.loads(p.stdout.decode().strip().splitlines()[-1])
    except Exception as e:          # noqa
        return {'status': 'unknown: probe did not answer: %s' % type(e).__name__}
    if f.get('status') == 'ok':
        want = [os.path.realpath(os.path.join(src_root, 'pyramid', n)) for n in ('predicates.py', os.path.join('config', 'predicates.py'))]
        if f.get('module') != want:
            return {'status': 'unknown: the probe imported %s, not the tree under test' % f.get('module')}
        for k in ('space', 'parse', 'sorted', 'rx', 'vals', 'texts', 'decisions', 'reqs', 'ctxs', 'traverse', 'make', 'view_order', 'route_order', 'eval'):
            if not isinstance(f.get(k), list):
                return {'status': 'unknown: probe answer lacks %s' % k}
    return f


# ---------------------------------------------------------------------------------------------------- Lean emitters
FAC = {'xhr': '.xhr', 'request_method': '.method', 'path_info': '.pathInfo', 'request_param': '.reqParam', 'header': '.header', 'accept': '.accept',
       'containment': '.containment', 'request_type': '.reqType', 'match_param': '.matchParam', 'custom': '.custom', 'traverse': '.traverse',
       'physical_path': '.physPath', 'is_authenticated': '.isAuth', 'effective_principals': '.effPrin'}


def _c(cs):
    return 'C [' + ', '.join(str(c) for c in cs) + ']'


def _s(s):
    return _c([ord(c) for c in s])


def _l(xs, f):
    return '[' + ', '.join(f(x) for x in xs) + ']'


def _b(b):
    return 'true' if b else 'false'


def _o(x, f):
    return 'none' if x is None else '(some (%s))' % f(x)


def _val(v):
    if 'b' in v:
        return '(.bool %s)' % _b(v['b'])
    if 'one' in v:
        return '(.txt (.one (%s)))' % _c(v['one'])
    if 'many' in v:
        return '(.txt (.many %s))' % _l(v['many'], _c)
    if 'tag' in v:
        return '(.tag %d (%s))' % (v['tag'], _c(v['str']))
    if 'cust' in v:
        c = v['cust']
        return '(.cust ⟨%s, %s, %d⟩)' % ('(%d)' % c['hash'], _c(c['text']), c['fn'])
    if 'auth' in v:
        a = v['auth']
        return '(.auth %s)' % ('.none' if a is None else '(.bool %s)' % _b(a) if isinstance(a, bool) else '(.int (%d))' % a['i'])
    if 'pat' in v:
        return '(.pat %s)' % _l(v['pat'], lambda t: '(.%s (%s))' % (t[0], _c(t[1])))
    raise ValueError(v)


def _mv(v):
    return '(.str (%s))' % _c(v[1]) if v[0] == 's' else '(.segs %s)' % _l(v[1], _c)


def _dict(d):
    return _l(d, lambda e: '(%s, %s)' % (_c(e[0]), _mv(e[1])))


def _node(n):
    nm = n['name']
    return '⟨%s, %s⟩' % ('.absent' if nm[0] == 'absent' else '.none' if nm[0] == 'none' else '(.text (%s))' % _c(nm[1]), json.dumps(n['tags']))


def _ctx(c):
    return '⟨%s, %s, %s⟩' % (_l(c['lineage'], _node), _b(c['has_traverse']), _dict(c['match']))


def _pairs(xs):
    return _l(xs, lambda e: '(%s, %s)' % (_c(e[0]), _c(e[1])))


def _req(q):
    return ('{ method := %s, upath := %s, get := %s, post := %s, environ := %s, accept := %s, context := %s, ifaces := %s, matchdict := %s, '
            'isAuth := %s, principals := %s }' % (
                _c(q['method']), _c(q['upath']), _pairs(q['get']), _pairs(q['post']), _pairs(q['environ']),
                _o(q['accept'], lambda a: _l(a, lambda r: '⟨%s, %s, %d⟩' % (_c(r[0]), _c(r[1]), r[2]))),
                _o(q['context'], lambda l: _l(l, _node)), json.dumps(q['ifaces']), _o(q['matchdict'], _dict), _b(q['is_auth']),
                _l(q['principals'], _c)))


def _item(i):
    if i[0] == 'c':
        return '(.ch (Char.ofNat %d))' % i[1]
    if i[0] == 'r':
        return '(.range (Char.ofNat %d) (Char.ofNat %d))' % (i[1], i[2])
    return '(.esc .%s)' % i[1]


def _rx(t):
    k = t[0]
    if k in ('eps', 'any', 'all'):
        return '.' + k
    if k == 'chr':
        return '(.chr (Char.ofNat %d))' % t[1]
    if k == 'set':
        return '(.set %s %s)' % (_b(t[1]), _l(t[2], _item))
    if k == 'esc':
        return '(.esc .%s %s)' % (t[1], _b(t[2]))
    if k in ('seq', 'alt'):
        return '(.%s %s %s)' % (k, _rx(t[1]), _rx(t[2]))
    return '(.rep %s %d %s %s)' % (_b(t[1]), t[2], 'none' if t[3] is None else '(some %d)' % t[3], _rx(t[4]))


def _kwval(k):
    if k is None:
        return 'none'
    es = k['seq'] if 'seq' in k else [k]
    return '(some %s)' % _l(es, lambda e: '(%s, %s)' % (_b(e['not']), _val(e['v'])))


def generate(src_root):
    f = facts(src_root)
    ok = f.get('status') == 'ok'
    status = f.get('status', 'unknown: no status')
    summary.clear()
    summary.update({'status': status, 'rows': {k: len(f.get(k, [])) for k in ('space', 'parse', 'texts', 'decisions', 'traverse', 'make', 'eval')},
                    'view_order': f.get('view_order'), 'route_order': f.get('route_order'), 'max_order': f.get('max_order')})
    g = (lambda k: f[k]) if ok else (lambda k: [])
    nl = ',\n'
    L = ['/- GENERATED by extract/x06.py by probing the running code of src/pyramid/predicates.py and config/predicates.py — do not edit. -/',
         'import PyramidModel.Predicates',
         'namespace Pyr.Pred.Gen',
         'open Pyr Pyr.Rx Pyr.Pred', 'set_option maxRecDepth 8000', '',
         'def C (cs : List Nat) : Text := cs.map Char.ofNat', '',
         '/-- "ok", or why the probe of the tree under test could not be trusted -/',
         'def probeStatus : Text := %s' % _s(status.replace('\n', ' ')), '',
         '/-- code points `str.strip()` removes -/',
         'def spaceCodes : List Nat := %s' % json.dumps(g('space')), '',
         'def parseTable : List (Text × Text × Option Text) := [',
         nl.join('  (%s, %s, %s)' % (_s(p), _s(k), _o(v, _s)) for p, k, v in g('parse')), ']', '',
         'def sortedTable : List (List Text × List Text) := [',
         nl.join('  (%s, %s)' % (_l(a, _s), _l(b, _s)) for a, b in g('sorted')), ']', '',
         'def rxTable : List (Text × Rx) := [',
         nl.join('  (%s, %s)' % (_s(t), _rx(r)) for t, r in g('rx')), ']', '',
         'def reqs : List Req := [',
         nl.join('  ' + _req(q) for q in g('reqs')), ']', '',
         'def ctxs : List Ctx := [',
         nl.join('  ' + _ctx(c) for c in g('ctxs')), ']', '',
         '/-- the value cube: (factory, value) -/',
         'def valTable : List (Factory × Val) := [',
         nl.join('  (%s, %s)' % (FAC[a], _val(v)) for a, v in g('vals')), ']', '',
         '/-- (value index, not_ wrappers, (text, phash) — none: the constructor raises) -/',
         'def textTable : List (Nat × Nat × Option (Text × Text)) := [',
         nl.join('  (%d, %d, %s)' % (vi, k, _o(r, lambda r: '(%s, %s)' % (_s(r[0]), _s(r[1])))) for vi, k, r in g('texts')), ']', '',
         '/-- (value index, not_ wrappers, context index, request index, decision 0 False 1 True 2 the call raises) -/',
         '-- one number per row: ((((value index * 3 + wrappers) * 16 + context) * 16 + request) * 3 + decision)',
         '\n'.join('def dec%d : List Nat := [' % (i // 64) + ', '.join(str((((r[0] * 3 + r[1]) * 16 + r[2]) * 16 + r[3]) * 3 + r[4]) for r in g('decisions')[i:i + 64]) + ']'
                   for i in range(0, len(g('decisions')), 64)),
         'def decisionChunks : List (List Nat) := [' + ', '.join('dec%d' % (i // 64) for i in range(0, len(g('decisions')), 64)) + ']', '',
         'def decisionRows : Nat := %d' % len(g('decisions')), '',
         '/-- (traverse value, not_ wrappers, the info dict already has `traverse`, matchdict before, matchdict after) -/',
         'def traverseTable : List (Val × Nat × Bool × Dict × Dict) := [',
         nl.join('  (%s, %d, %s, %s, %s)' % (_val(v), k, _b(ht), _dict(a), _dict(b)) for v, k, ht, a, b in g('traverse')), ']', '',
         '/-- (registration order, keywords, (order, phash pre-image) — none: make raises) -/',
         'def makeTable : List (List (Text × Factory) × Kw × Option (Int × Text)) := [',
         nl.join('  (%s, %s, %s)' % (_l(o, lambda e: '(%s, %s)' % (_c(e[0]), FAC[e[1]])), _l(kw, lambda e: '(%s, %s)' % (_c(e[0]), _kwval(e[1]))),
                                   _o(r, lambda r: '((%d), %s)' % (r[0], _s(r[1])))) for o, kw, r in g('make')), ']', '',
         'def viewOrder : List Text := %s' % _l(g('view_order'), _s),
         'def routeOrder : List Text := %s' % _l(g('route_order'), _s), '',
         '/-- (answers of three counting custom predicates, caller 0 view 1 route 2 subscriber, answer, which were called) -/',
         'def evalTable : List (List Bool × Nat × Bool × List Nat) := [',
         nl.join('  (%s, %d, %s, %s)' % (_l(b, _b), m, _b(a), json.dumps(c)) for b, m, a, c in g('eval')), ']', '',
         'def maxOrder : Int := %d' % (f.get('max_order', 0) if ok else 0),
         'def defaultPhashOk : Bool := %s' % _b(ok and f.get('default_phash_ok')), '',
         'end Pyr.Pred.Gen', '']
    return {'PyramidModel/Gen/X06.lean': '\n'.join(L)}


if __name__ == '__main__':
    if len(sys.argv) > 2 and sys.argv[1] == '--probe':
        print(json.dumps(_probe(sys.argv[2])))
    else:
        print(generate(sys.argv[1] if len(sys.argv) > 1 else '/repo/src')['PyramidModel/Gen/X06.lean'])
