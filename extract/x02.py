"""Translator for X02: regenerates, by RUNNING the code of the tree under test (src/pyramid/settings.py and
src/pyramid/config/settings.py, in a fresh interpreter with `src_root` first on the path), the behavioural tables the
settings model rests on — no AST pattern matching, so a refactoring that preserves behaviour leaves them unchanged and a
change of behaviour inside the probed domain changes them.

Probed facts (Lean data in Gen/X02.lean, decided against the model / the declarative table in Props/X02.lean):
 * rows           one entry per setting `Settings` manages, sorted by name (the order of independent statements is not a fact):
                  (name, environment variable, kind, default, precedence, impliedBy, bothSpellings)
     - names      = the un-prefixed keys of `Settings({}, _environ_={})`
     - env var    = found with a recording mapping: which requested variable, when set, changes this setting (exactly one)
     - kind       = how the value 'yes\\nno x' comes back: True/False -> "bool" (and 'no' gives False, 'YES ' True),
                    the same text -> "str", ['yes','no','x'] -> "list"
     - default    = its value in `Settings({}, {})`, as text ("False", "'en'", "[]")
     - precedence = the total order of the three sources, from all 8 presence combinations with distinguishable values
                    (["env","prefixed","bare"] expected); "unknown" when the combinations do not form one order
     - impliedBy  = the other bool settings that alone, set true, turn this one on
     - bothSpellings = in every probe the un-prefixed and the prefixed key of the result hold the same value
 * orClosed       for ALL 2^k assignments of true/false to the k bool settings (prefixed key): every bool setting comes out as
                  own value OR the values of its impliedBy list — nothing else interacts
 * strayKept      keys that spell no setting come back unchanged and nothing else is added
 * truthyProbed   the lower-case strings that `asbool` accepts among all strings of length <= 3 over a-z0-9 and a word list
 * truthyConst / falseyConst   the exported frozensets, sorted
 * stripCodes     the code points c with asbool(c + 'true' + c) true           (what surrounds a truthy word)
 * splitCodes     the code points c with aslist('a' + c + 'b') == ['a', 'b']   (what separates list items)
 * lineCodes      the code points c with aslist_cronly('a' + c + 'b') == ['a', 'b']
 * asboolAtoms    asbool of None, True, False, 0, 1, 2, -1, [], ['true']
Fail closed: any exception, inconsistency or time-out makes `probeStatus` an "unknown: …" string and empties the tables.
"""
import json, os, subprocess, sys

summary = {}
WORDS = ['true', 'false', 'yes', 'no', 'on', 'off', 'none', 'null', 'nil', 'enable', 'enabled', 'disable', 'disabled',
         'ja', 'oui', 'si', 'truthy', 'falsey', 'okay', 'sure', 'yep', 'yeah', 'aye', 'active', 'always', 'never', 'full']


def _probe():
    out = {}
    try:
        import itertools
        import pyramid.settings as PS
        import pyramid.config.settings as CS
        out['module'] = [os.path.realpath(PS.__file__), os.path.realpath(CS.__file__)]
        Settings, asbool, aslist, cronly = CS.Settings, PS.asbool, PS.aslist, PS.aslist_cronly

        class Rec(dict):
            def __init__(self, *a):
                dict.__init__(self, *a); self.asked = []

            def get(self, k, default=None):
                self.asked.append(k)
                return dict.get(self, k, default)

        rec = Rec()
        base = Settings({}, _environ_=rec)
        asked = list(rec.asked)
        if len(set(asked)) != len(asked):
            raise RuntimeError('an environment variable is asked for twice')
        names = [k for k in base if not k.startswith('pyramid.')]
        if sorted(base) != sorted(names + ['pyramid.' + n for n in names]):
            raise RuntimeError('the keys of Settings({}) are not name / pyramid.name pairs')
        both = {n: True for n in names}

        def run(d, env):
            r = Settings(dict(d), _environ_=dict(env))
            for n in names:
                if n not in r or 'pyramid.' + n not in r or r[n] != r['pyramid.' + n] or type(r[n]) is not type(r['pyramid.' + n]):
                    both[n] = False
            return r
        # kind
        kind = {}
        for n in names:
            r = run({'pyramid.' + n: 'yes\nno x'}, {})[n]
            if r is False and run({'pyramid.' + n: 'YES '}, {})[n] is True and run({'pyramid.' + n: 'no'}, {})[n] is False:
                kind[n] = 'bool'
            elif r == 'yes\nno x':
                kind[n] = 'str'
            elif r == ['yes', 'no', 'x']:
                kind[n] = 'list'
            else:
                kind[n] = 'unknown'
        mark = {'bool': ('yes', 'no'), 'str': ('de', 'fr'), 'list': ('p q', 'r'), 'unknown': ('a', 'b')}
        # the environment variable of a setting = the one requested variable that overrides the setting's own
        # configured value (a switch's variable can only turn a setting ON, never override a configured 'yes' with 'no')
        direct = {}
        for n in names:
            hi, lo = mark[kind[n]]
            ref = run({'pyramid.' + n: hi}, {})[n]
            own = [e for e in asked if run({'pyramid.' + n: hi}, {e: lo})[n] != ref]
            direct[n] = own[0] if len(own) == 1 else 'unknown'
        if len(set(direct.values())) != len(names) or sorted(direct.values()) != sorted(asked):
            raise RuntimeError('settings and requested environment variables do not pair up: %r / %r' % (direct, asked))
        # precedence
        prec = {}
        for n in names:
            if direct[n] == 'unknown':
                prec[n] = ['unknown']; continue
            hi, lo = mark[kind[n]]
            srcs = ['env', 'prefixed', 'bare']
            beats = set()
            ok = True
            for a, b in itertools.permutations(srcs, 2):
                # a says hi, b says lo, third absent: who wins?
                def put(src, val, d, env):
                    if src == 'env': env[direct[n]] = val
                    elif src == 'prefixed': d['pyramid.' + n] = val
                    else: d[n] = val
                d, env = {}, {}
                put(a, hi, d, env); put(b, lo, d, env)
                r1 = run(d, env)[n]
                d, env = {}, {}
                put(a, hi, d, env)
                rh = run(d, env)[n]
                d, env = {}, {}
                put(b, lo, d, env)
                rl = run(d, env)[n]
                if rh == rl:
                    ok = False
                elif r1 == rh:
                    beats.add((a, b))
                elif r1 == rl:
                    beats.add((b, a))
                else:
                    ok = False
            order = sorted(srcs, key=lambda s: -sum(1 for (x, y) in beats if x == s))
            cons = ok and all((order[i], order[j]) in beats and (order[j], order[i]) not in beats for i in range(3) for j in range(i + 1, 3))
            # all three present: the first of the order wins
            if cons:
                for perm in itertools.permutations([hi, lo, lo]):
                    d, env = {}, {}
                    for src, val in zip(srcs, perm):
                        if src == 'env': env[direct[n]] = val
                        elif src == 'prefixed': d['pyramid.' + n] = val
                        else: d[n] = val
                    want = dict(zip(srcs, perm))[order[0]]
                    d1, e1 = {}, {}
                    if order[0] == 'env': e1[direct[n]] = want
                    elif order[0] == 'prefixed': d1['pyramid.' + n] = want
                    else: d1[n] = want
                    if run(d, env)[n] != run(d1, e1)[n]:
                        cons = False
            prec[n] = order if cons else ['unknown']
        # implications among the bool settings
        bools = [n for n in names if kind[n] == 'bool']
        implied = {n: [] for n in names}
        for n in bools:
            for m in bools:
                if m != n and run({'pyramid.' + m: 'true'}, {})[n] is True:
                    implied[n].append(m)
        orclosed = True
        if len(bools) > 14:
            raise RuntimeError('too many bool settings to enumerate')
        for bits in itertools.product([False, True], repeat=len(bools)):
            val = dict(zip(bools, bits))
            r = run({'pyramid.' + n: ('true' if val[n] else 'false') for n in bools}, {})
            for n in bools:
                if r[n] is not (val[n] or any(val[m] for m in implied[n])):
                    orclosed = False
        # stray keys
        stray = {'foo': 'true', 'pyramid.foo': ' x ', 'pyramid.': 1, 'Debug_All': 'true', 'pyramid.includes': 'a\nb'}
        r = run(stray, {'PATH': 'true', 'pyramid.debug_all': 'true', 'debug_all': 'true'})
        straykept = all(r.get(k) == v for k, v in stray.items()) and len(r) == len(stray) + 2 * len(names) and \
            all(r[n] == base[n] for n in names)
        out['rows'] = [[n, direct[n], kind[n], repr(base[n]), prec[n], sorted(implied[n]), both[n]] for n in sorted(names)]
        out['orclosed'] = orclosed
        out['straykept'] = straykept
        # asbool
        alpha = 'abcdefghijklmnopqrstuvwxyz0123456789'
        acc = []
        for L in range(0, 4):
            for tup in itertools.product(alpha, repeat=L):
                w = ''.join(tup)
                if asbool(w):
                    acc.append(w)
        for w in WORDS:
            if asbool(w) and w not in acc:
                acc.append(w)
        for w in list(acc):
            if not (asbool(w.upper()) and asbool(' ' + w + '\t')):
                raise RuntimeError('asbool(%r) is case- or padding-sensitive' % w)
        out['truthy_probed'] = sorted(acc)
        out['truthy_const'] = sorted(PS.truthy)
        out['falsey_const'] = sorted(PS.falsey)
        out['asbool_atoms'] = [[repr(v), bool(asbool(v)), asbool(v) is True or asbool(v) is False] for v in
                               (None, True, False, 0, 1, 2, -1, [], ['true'])]
        cps = [c for c in range(0x110000) if not 0xD800 <= c <= 0xDFFF]
        strip_, split_, line_ = [], [], []
        for cp in cps:
            c = chr(cp)
            if asbool(c + 'true' + c):
                strip_.append(cp)
                if not (asbool(c + 'true') and asbool('true' + c)):
                    raise RuntimeError('U+%04X is stripped on one side only' % cp)
            r = aslist('a' + c + 'b')
            if r == ['a', 'b']:
                split_.append(cp)
            elif r != ['a' + c + 'b']:
                raise RuntimeError('aslist splits at U+%04X in an unexpected way: %r' % (cp, r))
            r = cronly('a' + c + 'b')
            if r == ['a', 'b']:
                line_.append(cp)
            elif r != ['a' + c + 'b']:
                raise RuntimeError('aslist_cronly splits at U+%04X in an unexpected way: %r' % (cp, r))
        out['strip'], out['split'], out['line'] = strip_, split_, line_
        out['status'] = 'ok'
    except BaseException as e:      # noqa — fail closed
        out = {'status': 'unknown: %s: %s' % (type(e).__name__, str(e)[:200])}
    return out


def facts(src_root):
    py = '/venv/bin/python' if os.path.exists('/venv/bin/python') else sys.executable
    env = dict(os.environ, PYTHONPATH=src_root, PYTHONWARNINGS='ignore')
    for k in list(env):
        if k.upper().startswith('PYRAMID_'):
            del env[k]
    try:
        p = subprocess.run([py, os.path.abspath(__file__), '--probe', src_root], env=env, stdout=subprocess.PIPE, stderr=subprocess.PIPE,
                           timeout=300)
        f = json.loads(p.stdout.decode().strip().splitlines()[-1])
    except Exception as e:          # noqa
        return {'status': 'unknown: probe did not answer: %s' % type(e).__name__}
    if f.get('status') == 'ok':
        want = [os.path.realpath(os.path.join(src_root, 'pyramid', 'settings.py')),
                os.path.realpath(os.path.join(src_root, 'pyramid', 'config', 'settings.py'))]
        if f.get('module') != want:
            return {'status': 'unknown: the probe imported %s, not the tree under test' % f.get('module')}
        for k in ('rows', 'truthy_probed', 'truthy_const', 'falsey_const', 'strip', 'split', 'line', 'asbool_atoms'):
            if not isinstance(f.get(k), list):
                return {'status': 'unknown: probe answer lacks %s' % k}
    return f


def _txt(s):
    return '"' + s.replace('\\', '\\\\').replace('"', '\\"').replace('\n', '\\n') + '".toList'


def _txts(xs):
    return '[' + ', '.join(_txt(x) for x in xs) + ']'


def _bool(b):
    return 'true' if b else 'false'


def generate(src_root):
    f = facts(src_root)
    ok = f.get('status') == 'ok'
    summary.clear()
    summary.update({'status': f.get('status'), 'rows': f.get('rows'), 'truthy': f.get('truthy_probed'),
                    'strip': f.get('strip'), 'line': f.get('line'), 'split_equals_strip': ok and f['split'] == f['strip']})
    g = (lambda k: f[k]) if ok else (lambda k: [])
    status = f.get('status', 'unknown: no status')
    L = ['/- GENERATED by extract/x02.py by probing the running code of src/pyramid/settings.py and',
         '   src/pyramid/config/settings.py — do not edit. -/',
         'namespace Pyr.Settings.Gen', '',
         '/-- "ok", or why the probe of the tree under test could not be trusted -/',
         'def probeStatus : List Char := %s' % _txt(status.replace('\n', ' ')), '',
         '/-- (name, environment variable, kind, default, precedence of the sources, implied by, both spellings written) -/',
         'def rows : List (List Char × List Char × List Char × List Char × List (List Char) × List (List Char) × Bool) := [',
         ',\n'.join('  (%s, %s, %s, %s, %s, %s, %s)' % (_txt(n), _txt(e), _txt(k), _txt(d), _txts(p), _txts(i), _bool(b))
                    for n, e, k, d, p, i, b in g('rows')), ']', '',
         '/-- every bool setting = own value OR its impliedBy switches, over all assignments -/',
         'def orClosed : Bool := %s' % _bool(ok and f['orclosed']), '',
         '/-- keys that spell no setting are returned unchanged, nothing else is added -/',
         'def strayKept : Bool := %s' % _bool(ok and f['straykept']), '',
         '/-- the lower-case words `asbool` accepts (all strings of length ≤ 3 over a-z0-9 and a word list), sorted -/',
         'def truthyProbed : List (List Char) := %s' % _txts(g('truthy_probed')), '',
         'def truthyConst : List (List Char) := %s' % _txts(g('truthy_const')), '',
         'def falseyConst : List (List Char) := %s' % _txts(g('falsey_const')), '',
         '/-- (value, asbool(value), the result is a bool) -/',
         'def asboolAtoms : List (List Char × Bool × Bool) := [%s]' % ', '.join('(%s, %s, %s)' % (_txt(a), _bool(b), _bool(c)) for a, b, c in g('asbool_atoms')), '',
         '/-- code points that `asbool` strips around a truthy word -/',
         'def stripCodes : List Nat := %s' % json.dumps(g('strip')), '',
         '/-- code points at which `aslist` separates two items -/',
         'def splitCodes : List Nat := %s' % json.dumps(g('split')), '',
         '/-- code points at which `aslist_cronly` separates two lines -/',
         'def lineCodes : List Nat := %s' % json.dumps(g('line')), '',
         'end Pyr.Settings.Gen', '']
    return {'PyramidModel/Gen/X02.lean': '\n'.join(L)}


if __name__ == '__main__':
    if len(sys.argv) > 2 and sys.argv[1] == '--probe':
        print(json.dumps(_probe()))
    else:
        print(generate(sys.argv[1] if len(sys.argv) > 1 else '/repo/src')['PyramidModel/Gen/X02.lean'])
