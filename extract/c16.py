"""Translator for C16: regenerates, from the working tree's src/pyramid/static.py, the facts about `_secure_path`
that the containment proof rests on.

 * `_invalid_element_chars = {'/', os.sep, '\\x00'}`       -> the list of characters (os.sep is '/' on POSIX)
 * `_has_insecure_pathelement = {'..', '.', ''}.intersection` -> the list of forbidden elements
 * `_contains_invalid_element_char(item)`                  -> shape: for c in _invalid_element_chars: if c in item: return True
 * `_secure_path(path_tuple)`                              -> shape: the two refusals (in either order), then
                                                              `'/'.join(path_tuple)` returned (directly or through a local)
 * `static_view.get_resource_name`                         -> `_secure_path` is applied to the tuple, `None` raises HTTPNotFound,
                                                              and every later use goes through the checked value;
                                                              without use_subpath the tuple is `traversal_path_info` of the RAW
                                                              `request.environ` PATH_INFO (decoded once), not of `request.path_info`
 * `static_view.find_resource_path`                        -> only regular files: `isfile(name)` /
                                                              `resource_exists(pkg, name) and not resource_isdir(pkg, name)`

Anything that does not have the expected shape is emitted as the string "unknown: …" (and the tables as empty
lists), which makes the `decide`d obligations in Props/C16.lean fail.  Local variable names are not significant.
"""
import ast, os

summary = {}


def _lean_char(c):
    if c == '\x00':
        return "'\\x00'"
    if c == '\\':
        return "'\\\\'"
    if c == "'":
        return "'\\''"
    if 32 <= ord(c) < 127:
        return "'%s'" % c
    return "(Char.ofNat %d)" % ord(c)


def _lean_text(s):
    return '[' + ', '.join(_lean_char(c) for c in s) + ']'


def _set_elts(node):
    if isinstance(node, ast.Set):
        return node.elts
    if isinstance(node, ast.Call) and getattr(node.func, 'id', None) in ('set', 'frozenset') and len(node.args) == 1 \
            and isinstance(node.args[0], (ast.List, ast.Tuple, ast.Set)):
        return node.args[0].elts
    return None


def _is_os_sep(node):
    return isinstance(node, ast.Attribute) and node.attr == 'sep' and isinstance(node.value, ast.Name) and node.value.id == 'os'


def _returns_none(body):
    return len(body) == 1 and isinstance(body[0], ast.Return) and (
        body[0].value is None or (isinstance(body[0].value, ast.Constant) and body[0].value.value is None))


def _is_join_of(node, param):
    return (isinstance(node, ast.Call) and isinstance(node.func, ast.Attribute) and node.func.attr == 'join'
            and isinstance(node.func.value, ast.Constant) and node.func.value.value == '/'
            and len(node.args) == 1 and isinstance(node.args[0], ast.Name) and node.args[0].id == param and not node.keywords)


def facts(src_root):
    path = os.path.join(src_root, 'pyramid', 'static.py')
    tree = ast.parse(open(path).read())
    top = {}
    funcs = {}
    for st in tree.body:
        if isinstance(st, ast.Assign) and len(st.targets) == 1 and isinstance(st.targets[0], ast.Name):
            top[st.targets[0].id] = st.value
        elif isinstance(st, ast.FunctionDef):
            funcs[st.name] = st
    out = {}

    # --- the character set
    chars, why = [], None
    elts = _set_elts(top.get('_invalid_element_chars'))
    if elts is None:
        why = '_invalid_element_chars is not a set literal'
    else:
        for e in elts:
            if isinstance(e, ast.Constant) and isinstance(e.value, str) and len(e.value) == 1:
                chars.append(e.value)
            elif _is_os_sep(e):
                chars.append(os.sep)
            else:
                why = 'unexpected element in _invalid_element_chars'
    out['chars'] = [] if why else chars
    out['chars_shape'] = 'unknown: ' + why if why else 'ok'

    # --- the element set
    elems, why = [], None
    v = top.get('_has_insecure_pathelement')
    if not (isinstance(v, ast.Attribute) and v.attr == 'intersection'):
        why = '_has_insecure_pathelement is not <set>.intersection'
    else:
        elts = _set_elts(v.value)
        if elts is None:
            why = '_has_insecure_pathelement is not built from a set literal'
        else:
            for e in elts:
                if isinstance(e, ast.Constant) and isinstance(e.value, str):
                    elems.append(e.value)
                else:
                    why = 'unexpected element in the insecure path element set'
    out['elems'] = [] if why else elems
    out['elems_shape'] = 'unknown: ' + why if why else 'ok'

    # --- _contains_invalid_element_char
    f = funcs.get('_contains_invalid_element_char')
    ok = False
    if f is not None and len(f.args.args) == 1 and len(f.body) == 1 and isinstance(f.body[0], ast.For):
        item = f.args.args[0].arg
        loop = f.body[0]
        if (isinstance(loop.target, ast.Name) and isinstance(loop.iter, ast.Name) and loop.iter.id == '_invalid_element_chars'
                and not loop.orelse and len(loop.body) == 1 and isinstance(loop.body[0], ast.If)):
            t = loop.body[0]
            c = t.test
            if (isinstance(c, ast.Compare) and len(c.ops) == 1 and isinstance(c.ops[0], ast.In) and isinstance(c.left, ast.Name)
                    and c.left.id == loop.target.id and isinstance(c.comparators[0], ast.Name) and c.comparators[0].id == item
                    and not t.orelse and len(t.body) == 1 and isinstance(t.body[0], ast.Return)
                    and isinstance(t.body[0].value, ast.Constant) and t.body[0].value.value is True):
                ok = True
    out['contains_shape'] = 'ok' if ok else 'unknown: _contains_invalid_element_char has another shape'

    # --- _secure_path
    f = funcs.get('_secure_path')
    why = None
    if f is None or len(f.args.args) != 1:
        why = '_secure_path missing or with another signature'
    else:
        p = f.args.args[0].arg
        body = [s for s in f.body if not (isinstance(s, ast.Expr) and isinstance(s.value, ast.Constant))]    # docstring
        checks = set()
        i = 0
        while i < len(body) and isinstance(body[i], ast.If):
            t = body[i]
            if t.orelse or not _returns_none(t.body):
                why = 'a check of _secure_path does not just return None'
                break
            c = t.test
            if (isinstance(c, ast.Call) and isinstance(c.func, ast.Name) and c.func.id == '_has_insecure_pathelement'
                    and len(c.args) == 1 and isinstance(c.args[0], ast.Name) and c.args[0].id == p):
                checks.add('elements')
            elif (isinstance(c, ast.Call) and isinstance(c.func, ast.Name) and c.func.id == 'any' and len(c.args) == 1
                  and isinstance(c.args[0], (ast.ListComp, ast.GeneratorExp)) and len(c.args[0].generators) == 1):
                comp = c.args[0]
                g = comp.generators[0]
                e = comp.elt
                if (isinstance(g.target, ast.Name) and isinstance(g.iter, ast.Name) and g.iter.id == p and not g.ifs
                        and isinstance(e, ast.Call) and isinstance(e.func, ast.Name) and e.func.id == '_contains_invalid_element_char'
                        and len(e.args) == 1 and isinstance(e.args[0], ast.Name) and e.args[0].id == g.target.id):
                    checks.add('chars')
                else:
                    why = 'unrecognised any(...) check in _secure_path'
                    break
            else:
                why = 'unrecognised check in _secure_path'
                break
            i += 1
        rest = body[i:]
        if why is None:
            if checks != {'elements', 'chars'}:
                why = '_secure_path does not perform both refusals (found %s)' % sorted(checks)
            elif len(rest) == 1 and isinstance(rest[0], ast.Return) and _is_join_of(rest[0].value, p):
                pass
            elif (len(rest) == 2 and isinstance(rest[0], ast.Assign) and len(rest[0].targets) == 1
                  and isinstance(rest[0].targets[0], ast.Name) and _is_join_of(rest[0].value, p)
                  and isinstance(rest[1], ast.Return) and isinstance(rest[1].value, ast.Name)
                  and rest[1].value.id == rest[0].targets[0].id):
                pass
            else:
                why = "_secure_path does not end with return '/'.join(path_tuple)"
    out['secure_shape'] = 'unknown: ' + why if why else 'ok'

    # --- the call site in get_resource_name
    why = 'static_view.get_resource_name not found'
    for n in tree.body:
        if isinstance(n, ast.ClassDef) and n.name == 'static_view':
            for g in n.body:
                if isinstance(g, ast.FunctionDef) and g.name == 'get_resource_name':
                    why = _call_site(g)
    out['callsite_shape'] = 'unknown: ' + why if why else 'ok'
    why1 = why2 = 'static_view not found'
    for n in tree.body:
        if isinstance(n, ast.ClassDef) and n.name == 'static_view':
            why1, why2 = 'get_resource_name not found', 'find_resource_path not found'
            for g in n.body:
                if isinstance(g, ast.FunctionDef) and g.name == 'get_resource_name':
                    why1 = _decode_once(g)
                if isinstance(g, ast.FunctionDef) and g.name == 'find_resource_path':
                    why2 = _regular_file(g)
    out['decodeonce_shape'] = 'unknown: ' + why1 if why1 else 'ok'
    out['regularfile_shape'] = 'unknown: ' + why2 if why2 else 'ok'
    return out


def _decode_once(g):
    """if self.use_subpath: t = request.subpath / else: t = traversal_path_info(<raw PATH_INFO of request.environ>)"""
    if len(g.args.args) != 2:
        return 'get_resource_name has another signature'
    req = g.args.args[1].arg
    raw = {"%s.environ.get('PATH_INFO', '/')" % req, "%s.environ['PATH_INFO']" % req, "%s.environ.get('PATH_INFO', '')" % req}
    for st in g.body:
        if isinstance(st, ast.If) and ast.unparse(st.test) == 'self.use_subpath':
            if not (len(st.body) == 1 and isinstance(st.body[0], ast.Assign) and ast.unparse(st.body[0].value) == '%s.subpath' % req):
                return 'the use_subpath branch does not take request.subpath'
            if not (len(st.orelse) == 1 and isinstance(st.orelse[0], ast.Assign) and isinstance(st.orelse[0].value, ast.Call)
                    and ast.unparse(st.orelse[0].value.func) == 'traversal_path_info' and len(st.orelse[0].value.args) == 1):
                return 'the other branch is not traversal_path_info(<one argument>)'
            if ast.unparse(st.body[0].targets[0]) != ast.unparse(st.orelse[0].targets[0]):
                return 'the two branches assign different names'
            arg = ast.unparse(st.orelse[0].value.args[0])
            if arg not in raw:
                return 'traversal_path_info is applied to %s, not to the raw PATH_INFO of request.environ' % arg
            return None
    return 'no `if self.use_subpath:` in get_resource_name'


def _regular_file(g):
    if len(g.args.args) != 2:
        return 'find_resource_path has another signature'
    nm = g.args.args[1].arg
    body = [s for s in g.body if not (isinstance(s, ast.Expr) and isinstance(s.value, ast.Constant))]
    if not (len(body) == 1 and isinstance(body[0], ast.If) and ast.unparse(body[0].test) == 'self.package_name'):
        return 'find_resource_path is not `if self.package_name: … elif …`'
    top = body[0]
    ex, isd = 'resource_exists(self.package_name, %s)' % nm, 'resource_isdir(self.package_name, %s)' % nm

    def both(t):
        if not (isinstance(t, ast.BoolOp) and isinstance(t.op, ast.And) and len(t.values) == 2):
            return False
        pos = [v for v in t.values if not isinstance(v, ast.UnaryOp)]
        neg = [v for v in t.values if isinstance(v, ast.UnaryOp) and isinstance(v.op, ast.Not)]
        return len(pos) == 1 and len(neg) == 1 and ast.unparse(pos[0]) == ex and ast.unparse(neg[0].operand) == isd
    if not (len(top.body) == 1 and isinstance(top.body[0], ast.If) and not top.body[0].orelse
            and both(top.body[0].test)
            and len(top.body[0].body) == 1 and isinstance(top.body[0].body[0], ast.Return)
            and ast.unparse(top.body[0].body[0].value) == 'resource_filename(self.package_name, %s)' % nm):
        return 'package branch is not `if resource_exists(…) and not resource_isdir(…): return resource_filename(…)`'
    if not (len(top.orelse) == 1 and isinstance(top.orelse[0], ast.If) and not top.orelse[0].orelse
            and ast.unparse(top.orelse[0].test) == 'isfile(%s)' % nm and len(top.orelse[0].body) == 1
            and isinstance(top.orelse[0].body[0], ast.Return) and ast.unparse(top.orelse[0].body[0].value) == nm):
        return 'filesystem branch is not `elif isfile(name): return name`'
    return None


def _call_site(g):
    """`path = _secure_path(path_tuple)`; `if path is None: raise HTTPNotFound(...)`; path_tuple not used afterwards"""
    body = [s for s in g.body if not (isinstance(s, ast.Expr) and isinstance(s.value, ast.Constant))]
    idx = None
    for i, st in enumerate(body):
        if (isinstance(st, ast.Assign) and isinstance(st.value, ast.Call) and isinstance(st.value.func, ast.Name)
                and st.value.func.id == '_secure_path' and len(st.value.args) == 1 and isinstance(st.value.args[0], ast.Name)
                and len(st.targets) == 1 and isinstance(st.targets[0], ast.Name)):
            idx = i
    if idx is None:
        return 'get_resource_name does not assign the result of _secure_path(<tuple>)'
    checked, tup = body[idx].targets[0].id, body[idx].value.args[0].id
    if idx + 1 >= len(body):
        return 'nothing follows the _secure_path call'
    t = body[idx + 1]
    c = t.test if isinstance(t, ast.If) else None
    if not (c is not None and isinstance(c, ast.Compare) and isinstance(c.left, ast.Name) and c.left.id == checked
            and len(c.ops) == 1 and isinstance(c.ops[0], ast.Is) and isinstance(c.comparators[0], ast.Constant)
            and c.comparators[0].value is None and len(t.body) == 1 and isinstance(t.body[0], ast.Raise)
            and isinstance(t.body[0].exc, ast.Call) and getattr(t.body[0].exc.func, 'id', None) == 'HTTPNotFound' and not t.orelse):
        return 'the None result of _secure_path does not raise HTTPNotFound at once'
    for st in body[idx + 2:]:
        for n in ast.walk(st):
            if isinstance(n, ast.Name) and n.id == tup:
                return 'the unchecked tuple is used after the _secure_path check'
            if isinstance(n, ast.Attribute) and n.attr in ('subpath', 'path_info'):
                return 'request.%s is read again after the _secure_path check' % n.attr
    return None


def generate(src_root):
    f = facts(src_root)
    summary.clear()
    summary.update(f)
    lines = ['/- GENERATED by extract/c16.py from src/pyramid/static.py — do not edit. -/',
             'namespace Pyr.Static.Gen', '',
             '/-- `_invalid_element_chars` (os.sep = \'/\' on POSIX) -/',
             'def invalidElementChars : List Char := [%s]' % ', '.join(_lean_char(c) for c in sorted(f['chars'])),
             '', '/-- the set `_has_insecure_pathelement` intersects with -/',
             'def insecureElements : List (List Char) := [%s]' % ', '.join(_lean_text(s) for s in sorted(f['elems'])),
             '']
    for k in ('chars_shape', 'elems_shape', 'contains_shape', 'secure_shape', 'callsite_shape', 'decodeonce_shape', 'regularfile_shape'):
        lines.append('def %s : String := %s' % (k.replace('_shape', 'Shape'), '"' + f[k].replace('\\', '\\\\').replace('"', '\\"') + '"'))
    lines += ['', 'end Pyr.Static.Gen', '']
    return {'PyramidModel/Gen/C16.lean': '\n'.join(lines)}


if __name__ == '__main__':
    import sys
    print(generate(sys.argv[1] if len(sys.argv) > 1 else '/repo/src')['PyramidModel/Gen/C16.lean'])
