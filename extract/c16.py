"""Translator for C16: regenerates, from the working tree's src/pyramid/static.py, the facts about `_secure_path`,
`get_resource_name` and `find_resource_path` that the containment proof rests on — by RUNNING the code of the tree under
test and probing it exhaustively over finite domains (no AST pattern matching: every fact below is a behavioural table,
so it survives any refactoring that preserves behaviour and changes under any that does not).

The probe runs in a fresh interpreter (`<python> extract/c16.py --probe <src_root>`, PYTHONPATH=<src_root>) so that the
module state of the runner (lru caches, already imported pyramid) is neither used nor disturbed.  It needs a scratch
directory (tempfile.mkdtemp, removed before the probe exits).

Probed facts (emitted as Lean data in Gen/C16.lean, decided against the model in Props/C16.lean):
 * invalidElementChars  the characters c for which `_secure_path((x,))` is None for elements x containing c —
                        domain: every BMP code point except surrogates plus 6 astral ones, at the start / in the middle /
                        at the end of an element, in the first and in the second position of the tuple (must agree)
 * insecureElements     the elements e free of such characters for which `_secure_path` is None — domain: every string of
                        length <= 3 over {'.', 'a', ' ', '-', '~'} (156), alone / first / last / in the middle (must agree)
 * securePathProbe      `_secure_path(t)` for every tuple t of length <= 2 over 10 elements (111 entries)
 * resourceNameProbe    `static_view(root, use_subpath=True).get_resource_name(request)` with `request.subpath = t` for the
                        same 111 tuples, for a filesystem root (a fixed absolute path that does not exist) and a
                        package-relative root (`pkg:static/` of a scratch package): HTTPNotFound | add-slash redirect (the
                        package root itself) | the resource name
 * pathInfoProbe        `static_view(root, use_subpath=False).get_resource_name(request)` for 16 raw PATH_INFO values
                        (ASCII, UTF-8 two- and three-byte names, `..`, `//`, `%2e%2e`, backslash, NUL, overlong UTF-8):
                        URLDecodeError | HTTPNotFound | the resource name
 * pkgRootNameProbe     `get_resource_name` for the package-ROOT spec `pkg:` (empty docroot), the same tuples, with and without slash
 * guardProbe           `get_resource_name` for `pkg:` on 9 tuples whose name pkg_resources refuses / accepts as (non-)absolute
 * sourcePathProbe      `FSAssetSource(prefix).get_path(name)` / `PackageAssetSource(pkg, prefix).get_path(name)`: 7 prefixes x 9 names
 * overrideApplyProbe   `PackageOverrides.insert(path, src)` + `filtered_sources(name)`: 6 paths x 11 names; most recent first
 * findResourceProbe    `find_resource_path(name)` for a regular file / a directory / a missing name, filesystem and
                        package root: found or not, and that what is returned is the OS path of the name
Fail closed: any exception, time-out, disagreement between positions or unexpected value makes `probeStatus` an
"unknown: …" string and empties the tables, so every obligation of Props/C16.lean §0 fails.
"""
import itertools, json, os, subprocess, sys

summary = {}

PROBE_ROOT = '/nonexistent-c16/www'
ELEMENTS = ['a', 'b.c', '..', '.', '', 'a/b', 'x\x00y', '...', '..a', 'b\\c']
REG_NAMES = ['static', 'static/', 'a/b', 'http://cdn.example.com/s', '//cdn.example.com/x/']
REG_SPECS = ['c16probepkg:static', 'c16probepkg:static/', 'c16probepkg:', '/abs/dir', '/abs/dir/']
BUSTER_SPECS = ['p:a', 'p:a/b', 'p:c/']
GEN_CONFIGS = [
    ([('static', 'c16probepkg:static'), ('other', 'c16probepkg:static2')], []),
    ([('static', 'c16probepkg:static'), ('static', '/abs/dir')], []),
    ([('http://cdn.example.com/s', 'c16probepkg:static'), ('st', 'c16probepkg:static/sub')], []),
    ([('static', 'c16probepkg:static')], [['c16probepkg:static', 'q', False, 'x', 'tok', []]]),
    ([('static', 'c16probepkg:static')], [['c16probepkg:static', 'q', False, 'x', 'tok', []], ['c16probepkg:static/sub', 'm', False, '', '', [['a.css', 'a-123.css']]]]),
    ([('static', 'c16probepkg:static')], [['c16probepkg:', 'm', True, '', '', [['sub/a.css', 'sub/a-9.css']]], ['c16probepkg:static', 'q', False, 'v', 'a b', []]]),
]
GEN_ASSETS = ['c16probepkg:static/sub/a.css', 'c16probepkg:static2/x y.txt', 'c16probepkg:static', '/abs/dir/\u00fc', 'c16probepkg:staticx/y']
GEN_QUERIES = [None, [True, [['a', '1'], ['x', '0']]], [False, [['x', '0'], ['a', '1']]]]
GUARD_TUPLES = [['\\x'], ['\\'], ['C:', 'x'], ['c:\\x'], ['x'], ['C:'], ['a', '\\x'], ['\\x', 'y'], ['1:', 'b', 'c']]
SRC_PREFIXES = ['/d', '/d/', '/d/e', '/d/e/']
SRC_NAMES = ['', 'a', 'a/b', '/a', '//a/b', '/index.html', 'a/', '/etc/passwd', 'a.css.gz']
OV_PATHS = ['', 'static/', 'static/a.css', 'st', 'static', 's/t/']
OV_NAMES_P = ['static/a.css', 'static/', 'static', 'st', 'stat/x', '', '/static/a.css', 'static/a.css.gz', 's/t/u', 'index.html', '/index.html']
PATH_INFOS = ['/a', '/a/b.c', '/', '', '/a/../b', '//a//./b/', '/../../x', '/%2e%2e/x', '/a\\b', '/..\\..\\x', '/a\x00',
              '/\xc3\xbc', '/d/\xe6\x97\xa5', '/\xc0\xae\xc0\xae/x', '/\xc3', '/...']


# ------------------------------------------------------------------------------------------------
# the probe (runs in its own interpreter with the tree under test first on sys.path)

def _probe():
    import shutil, tempfile
    out = {}
    tmp = os.path.realpath(tempfile.mkdtemp(prefix='c16probe_'))
    try:
        import pyramid.static as S
        from pyramid.request import Request
        from pyramid.httpexceptions import HTTPNotFound, HTTPMovedPermanently
        from pyramid.exceptions import URLDecodeError
        out['module'] = os.path.realpath(S.__file__)
        sp = S._secure_path

        # --- characters
        cps = [c for c in range(0x10000) if not 0xD800 <= c <= 0xDFFF] + [0x10000, 0x1F600, 0x1D518, 0xE0001, 0xFFFFF, 0x10FFFF]
        bad = []
        for cp in cps:
            c = chr(cp)
            rs = {sp((c + 'ab',)) is None, sp(('a' + c + 'b',)) is None, sp(('ab' + c,)) is None, sp(('x', 'a' + c + 'b')) is None,
                  sp(('a' + c + 'b', 'x')) is None}
            if len(rs) != 1:
                raise RuntimeError('refusal of character U+%04X depends on its position' % cp)
            if rs.pop():
                bad.append(cp)
        out['chars'] = bad
        # --- elements
        alpha = [a for a in ['.', 'a', ' ', '-', '~'] if ord(a) not in bad]
        if len(alpha) != 5:
            raise RuntimeError('probe alphabet intersects the refused characters')
        elems = []
        for n in range(4):
            for combo in itertools.product(alpha, repeat=n):
                e = ''.join(combo)
                rs = {sp((e,)) is None, sp((e, 'x')) is None, sp(('x', e)) is None, sp(('x', e, 'y')) is None}
                if len(rs) != 1:
                    raise RuntimeError('refusal of element %r depends on its position' % e)
                if rs.pop():
                    elems.append(e)
        out['elems'] = elems
        # --- _secure_path on small tuples
        tuples = [()] + [(a,) for a in ELEMENTS] + [(a, b) for a in ELEMENTS for b in ELEMENTS]
        table = []
        for t in tuples:
            r = sp(t)
            if r is not None and not isinstance(r, str):
                raise RuntimeError('_secure_path returned %r' % type(r))
            table.append([list(t), r])
        out['secure'] = table

        # --- a scratch package and a scratch filesystem root
        pkg = 'c16probe_pkg_%d' % os.getpid()
        os.makedirs(os.path.join(tmp, pkg, 'static', 'dir'))
        open(os.path.join(tmp, pkg, '__init__.py'), 'w').close()
        with open(os.path.join(tmp, pkg, 'static', 'file.txt'), 'w') as f:
            f.write('x')
        os.makedirs(os.path.join(tmp, 'site', 'dir'))
        with open(os.path.join(tmp, 'site', 'file.txt'), 'w') as f:
            f.write('x')
        sys.path.insert(0, tmp)

        def request(path_info='/p'):
            env = {'REQUEST_METHOD': 'GET', 'SCRIPT_NAME': '', 'PATH_INFO': path_info, 'QUERY_STRING': '', 'SERVER_NAME': 'localhost',
                   'SERVER_PORT': '80', 'HTTP_HOST': 'localhost:80', 'SERVER_PROTOCOL': 'HTTP/1.0', 'wsgi.url_scheme': 'http'}
            return Request(env)

        def name_of(view, req):
            try:
                r = view.get_resource_name(req)
            except HTTPNotFound:
                return ['notfound', None]
            except HTTPMovedPermanently:
                return ['redirect', None]
            except URLDecodeError:
                return ['urldecode', None]
            if not isinstance(r, str):
                raise RuntimeError('get_resource_name returned %r' % type(r))
            return ['name', r]

        # --- get_resource_name with an arbitrary subpath (nothing below the probe roots is a directory)
        rn = []
        for is_pkg, spec in ((False, PROBE_ROOT), (True, pkg + ':static/')):
            view = S.static_view(spec, use_subpath=True)
            if is_pkg and (view.package_name != pkg or view.docroot != 'static/'):
                raise RuntimeError('package root resolved to %r:%r' % (view.package_name, view.docroot))
            if not is_pkg and (view.package_name or view.norm_docroot != PROBE_ROOT):
                raise RuntimeError('filesystem root resolved to %r' % (view.norm_docroot,))
            for t in tuples:
                if is_pkg and any(x in ('dir', 'file.txt') for x in t):
                    continue
                req = request()
                req.subpath = t
                rn.append([is_pkg, list(t)] + name_of(view, req))
        out['resource_name'] = rn
        # --- get_resource_name without use_subpath: raw PATH_INFO
        view = S.static_view(PROBE_ROOT, use_subpath=False)
        out['path_info'] = [[[ord(c) for c in p]] + name_of(view, request(p)) for p in PATH_INFOS]
        # --- find_resource_path
        fr = []
        vf = S.static_view(os.path.join(tmp, 'site'), use_subpath=True)
        vp = S.static_view(pkg + ':static', use_subpath=True)
        for is_pkg, view, prefix, ospfx in ((False, vf, os.path.join(tmp, 'site') + '/', os.path.join(tmp, 'site') + '/'),
                                            (True, vp, 'static/', os.path.join(tmp, pkg, 'static') + '/')):
            for leaf, there, isdir in (('file.txt', True, False), ('dir', True, True), ('missing', False, False)):
                r = view.find_resource_path(prefix + leaf)
                kind = 'none' if r is None else 'path' if r == ospfx + leaf else 'other'
                fr.append([is_pkg, there, isdir, kind])
        out['find_resource'] = fr

        # --- the configuration / URL side: StaticURLInfo.add, add_cache_buster, generate
        from pyramid.config import Configurator
        from pyramid.interfaces import IStaticURLInfo
        from pyramid.static import QueryStringConstantCacheBuster, ManifestCacheBuster
        os.makedirs(os.path.join(tmp, 'c16probepkg', 'static'))
        open(os.path.join(tmp, 'c16probepkg', '__init__.py'), 'w').close()

        def regs_of(adds):
            cfg = Configurator()
            for name, spec in adds:
                cfg.add_static_view(name, spec)
                cfg.commit()
            info = cfg.registry.getUtility(IStaticURLInfo)
            return cfg, [[u, sp, rn or ''] for u, sp, rn in info.registrations]
        single = [(n, sp) for n in REG_NAMES for sp in REG_SPECS]
        seqs = [[a] for a in single] + [[a, b] for a in single[::3] for b in single[1::4]]
        out['register'] = []
        for adds in seqs:
            out['register'].append([[list(a) for a in adds], regs_of(adds)[1]])
        # cache-buster insertion order: every sequence of <= 3 insertions over 3 specs x {implicit, explicit}
        items = [(sp, ex) for sp in BUSTER_SPECS for ex in (False, True)]
        out['buster_order'] = []
        for n in range(4):
            for seq in itertools.product(items, repeat=n):
                cfg = Configurator()
                for sp, ex in seq:
                    cfg.add_cache_buster(sp, QueryStringConstantCacheBuster('t'), explicit=ex)
                    cfg.commit()
                info = cfg.registry.queryUtility(IStaticURLInfo)
                out['buster_order'].append([[list(x) for x in seq], [[sp, ex] for sp, cb, ex in (info.cache_busters if info else [])]])

        class FixedManifest(ManifestCacheBuster):
            def __init__(self, m):
                self._m = m

            @property
            def manifest(self):
                return self._m
        # generate: static_path through the real request, for every probe configuration x asset x query
        out['generate'] = []
        for adds, busters in GEN_CONFIGS:
            cfg, _ = regs_of(adds)
            for sp, kind, ex, param, token, mf in busters:
                cfg.add_cache_buster(sp, QueryStringConstantCacheBuster(token, param=param) if kind == 'q' else FixedManifest(dict(mf)), explicit=ex)
                cfg.commit()
            for asset in GEN_ASSETS:
                for q in GEN_QUERIES:
                    req = request('/')
                    req.registry = cfg.registry
                    kw = {} if q is None else {'_query': dict(q[1]) if q[0] else [tuple(x) for x in q[1]]}
                    try:
                        r = ['url', req.static_path(asset, **kw)]
                    except ValueError as e:
                        r = ['nostatic' if 'No static URL definition' in str(e) else 'error', '']
                    out['generate'].append([[list(a) for a in adds], busters, asset, q, r[0], r[1]])
        # --- package-ROOT spec (`pkg:`, empty docroot) and the asset-override layer
        view = S.static_view(pkg + ':', use_subpath=True)
        if view.package_name != pkg or view.docroot != '':
            raise RuntimeError('package-root spec resolved to %r:%r' % (view.package_name, view.docroot))
        prn = []
        for t in tuples:
            if any(x in ('static', '__init__.py') for x in t):
                continue
            for slash in (False, True):
                req = request('/p/' if slash else '/p')
                req.subpath = t
                prn.append([slash, list(t)] + name_of(view, req))
        out['pkgroot_name'] = prn
        gp = []
        for t in GUARD_TUPLES:
            req = request('/p')
            req.subpath = tuple(t)
            gp.append([list(t)] + name_of(view, req))
        out['guard'] = gp
        from pyramid.config.assets import FSAssetSource, PackageAssetSource, PackageOverrides
        sp_ = []
        for prefix in SRC_PREFIXES:
            for nm in SRC_NAMES:
                sp_.append([False, prefix, nm, FSAssetSource(prefix).get_path(nm)])
        for prefix in ('', 'alt/', 'alt/x.css'):
            for nm in SRC_NAMES:
                sp_.append([True, prefix, nm, PackageAssetSource('c16probepkg', prefix).get_path(nm)])
        out['source_path'] = sp_

        class FakePkgResources:
            def register_loader_type(self, *a):
                pass

        class FakePackage:
            __name__ = 'c16fake'
        oa = []
        for path in OV_PATHS:
            po = PackageOverrides(FakePackage(), pkg_resources=FakePkgResources())
            po.insert(path, 'SRC')
            for nm in OV_NAMES_P:
                got = list(po.filtered_sources(nm))
                if got and (len(got) != 1 or got[0][0] != 'SRC' or not isinstance(got[0][1], str)):
                    raise RuntimeError('filtered_sources(%r) for override %r = %r' % (nm, path, got))
                oa.append([path, nm, got[0][1] if got else None])
        po = PackageOverrides(FakePackage(), pkg_resources=FakePkgResources())
        po.insert('a/', 'first'); po.insert('a/', 'second')
        if [x for x, _ in po.filtered_sources('a/x')] != ['second', 'first']:
            raise RuntimeError('overrides are not consulted most recent first')
        out['override_apply'] = oa
        out['status'] = 'ok'
    except BaseException as e:      # noqa — fail closed
        out = {'status': 'unknown: %s: %s' % (type(e).__name__, str(e)[:200])}
    finally:
        shutil.rmtree(tmp, ignore_errors=True)
    return out


def facts(src_root):
    py = '/venv/bin/python' if os.path.exists('/venv/bin/python') else sys.executable
    env = dict(os.environ, PYTHONPATH=src_root, PYTHONWARNINGS='ignore')
    try:
        p = subprocess.run([py, os.path.abspath(__file__), '--probe', src_root], env=env, stdout=subprocess.PIPE, stderr=subprocess.PIPE,
                           timeout=120)
        f = json.loads(p.stdout.decode().strip().splitlines()[-1])
    except Exception as e:          # noqa
        return {'status': 'unknown: probe did not answer: %s' % type(e).__name__}
    if f.get('status') == 'ok':
        want = os.path.realpath(os.path.join(src_root, 'pyramid', 'static.py'))
        if f.get('module') != want:
            return {'status': 'unknown: the probe imported %s, not the tree under test' % f.get('module')}
        for k in ('chars', 'elems', 'secure', 'resource_name', 'path_info', 'find_resource', 'register', 'buster_order', 'generate', 'pkgroot_name', 'source_path', 'override_apply', 'guard'):
            if not isinstance(f.get(k), list):
                return {'status': 'unknown: probe answer lacks %s' % k}
    return f


# ------------------------------------------------------------------------------------------------
# Lean output

def _lean_char(c):
    if 32 < ord(c) < 127 and c not in "'\\":
        return "'%s'" % c
    return '(Char.ofNat %d)' % ord(c)


def _lean_text(s):
    return '[' + ', '.join(_lean_char(c) for c in s) + ']'


def _lean_opt(s):
    return 'none' if s is None else '(some %s)' % _lean_text(s)


def _lean_tuple(t):
    return '[' + ', '.join(_lean_text(x) for x in t) + ']'


def _lean_bool(b):
    return 'true' if b else 'false'


def _lean_str(s):
    return '"' + s.replace('\\', '\\\\').replace('"', '\\"').replace('\n', ' ') + '"'


def generate(src_root):
    f = facts(src_root)
    ok = f.get('status') == 'ok'
    summary.clear()
    summary.update({'status': f.get('status'), 'chars': f.get('chars'), 'elems': f.get('elems'),
                    'entries': {k: len(f[k]) for k in ('secure', 'resource_name', 'path_info', 'find_resource', 'register', 'buster_order', 'generate', 'pkgroot_name', 'source_path', 'override_apply', 'guard')} if ok else None})
    g = (lambda k: f[k]) if ok else (lambda k: [])
    L = ['/- GENERATED by extract/c16.py by probing the code of src/pyramid/static.py — do not edit. -/',
         'namespace Pyr.Static.Gen', '',
         '/-- "ok", or why the probe of the tree under test could not be trusted -/',
         'def probeStatus : String := %s' % _lean_str(f.get('status', 'unknown: no status')), '',
         '/-- the root the filesystem probes were made with (does not exist; nothing below it is a directory) -/',
         'def probeRoot : List Char := %s' % _lean_text(PROBE_ROOT), '',
         '/-- the characters that make `_secure_path` refuse an element -/',
         'def invalidElementChars : List Char := [%s]' % ', '.join(_lean_char(chr(c)) for c in g('chars')), '',
         '/-- the elements (free of those characters) that make `_secure_path` refuse a tuple -/',
         'def insecureElements : List (List Char) := [%s]' % ', '.join(_lean_text(e) for e in g('elems')), '',
         '/-- `_secure_path(t)` -/',
         'def securePathProbe : List (List (List Char) × Option (List Char)) := [',
         ',\n'.join('  (%s, %s)' % (_lean_tuple(t), _lean_opt(r)) for t, r in g('secure')), ']', '',
         '/-- `(package root?, request.subpath, outcome, name)` of `get_resource_name` with `use_subpath=True` -/',
         'def resourceNameProbe : List (Bool × List (List Char) × String × List Char) := [',
         ',\n'.join('  (%s, %s, %s, %s)' % (_lean_bool(p), _lean_tuple(t), _lean_str(k), _lean_text(n or '')) for p, t, k, n in g('resource_name')), ']', '',
         '/-- `(raw PATH_INFO bytes, outcome, name)` of `get_resource_name` with `use_subpath=False` -/',
         'def pathInfoProbe : List (List Nat × String × List Char) := [',
         ',\n'.join('  (%s, %s, %s)' % (json.dumps(b), _lean_str(k), _lean_text(n or '')) for b, k, n in g('path_info')), ']', '',
         '/-- `(package root?, exists, is a directory, what find_resource_path returned: "path" = the OS path of the name)` -/',
         'def findResourceProbe : List (Bool × Bool × Bool × String) := [',
         ',\n'.join('  (%s, %s, %s, %s)' % (_lean_bool(p), _lean_bool(t), _lean_bool(d), _lean_str(k)) for p, t, d, k in g('find_resource')), ']', '',
         '/-- `(add_static_view calls (name, spec), StaticURLInfo.registrations (url or none, spec, route name or ""))` -/',
         'def registerProbe : List (List (List Char × List Char) × List (Option (List Char) × List Char × List Char)) := [',
         ',\n'.join('  ([%s], [%s])' % (', '.join('(%s, %s)' % (_lean_text(n), _lean_text(sp)) for n, sp in adds),
                                        ', '.join('(%s, %s, %s)' % (_lean_opt(u), _lean_text(sp), _lean_text(rn)) for u, sp, rn in regs))
                   for adds, regs in g('register')), ']', '',
         '/-- `(add_cache_buster calls (spec, explicit), StaticURLInfo.cache_busters (spec, explicit))` -/',
         'def busterOrderProbe : List (List (List Char × Bool) × List (List Char × Bool)) := [',
         ',\n'.join('  ([%s], [%s])' % (', '.join('(%s, %s)' % (_lean_text(sp), _lean_bool(ex)) for sp, ex in seq),
                                        ', '.join('(%s, %s)' % (_lean_text(sp), _lean_bool(ex)) for sp, ex in res))
                   for seq, res in g('buster_order')), ']', '',
         '/-- `(adds, busters (spec, manifest?, explicit, param, token, manifest), asset, query (none | (dict?, pairs)), outcome, URL)`',
         'of `request.static_path(asset, _query=…)` on the default request -/',
         'def generateProbe : List (List (List Char × List Char) × List (List Char × Bool × Bool × List Char × List Char × List (List Char × List Char)) ×',
         '    List Char × Option (Bool × List (List Char × List Char)) × String × List Char) := [',
         ',\n'.join('  ([%s], [%s], %s, %s, %s, %s)' % (
             ', '.join('(%s, %s)' % (_lean_text(n), _lean_text(sp)) for n, sp in adds),
             ', '.join('(%s, %s, %s, %s, %s, [%s])' % (_lean_text(sp), _lean_bool(k == 'm'), _lean_bool(ex), _lean_text(pa), _lean_text(tk),
                                                     ', '.join('(%s, %s)' % (_lean_text(a), _lean_text(b)) for a, b in mf)) for sp, k, ex, pa, tk, mf in busters),
             _lean_text(asset),
             'none' if q is None else '(some (%s, [%s]))' % (_lean_bool(q[0]), ', '.join('(%s, %s)' % (_lean_text(a), _lean_text(b)) for a, b in q[1])),
             _lean_str(kind), _lean_text(url)) for adds, busters, asset, q, kind, url in g('generate')), ']', '',
         '/-- `(trailing slash?, request.subpath, outcome, name)` of `get_resource_name` for the package-ROOT spec `pkg:` -/',
         'def pkgRootNameProbe : List (Bool × List (List Char) × String × List Char) := [',
         ',\n'.join('  (%s, %s, %s, %s)' % (_lean_bool(sl), _lean_tuple(t), _lean_str(k), _lean_text(n or '')) for sl, t, k, n in g('pkgroot_name')), ']', '',
         '/-- `(request.subpath, outcome, name)` of `get_resource_name` for `pkg:` on names pkg_resources refuses as absolute (fbf36b3) -/',
         'def guardProbe : List (List (List Char) × String × List Char) := [',
         ',\n'.join('  (%s, %s, %s)' % (_lean_tuple(t), _lean_str(k), _lean_text(n or '')) for t, k, n in g('guard')), ']', '',
         '/-- `(package source?, prefix, name, get_path(name))` of FSAssetSource / PackageAssetSource -/',
         'def sourcePathProbe : List (Bool × List Char × List Char × List Char) := [',
         ',\n'.join('  (%s, %s, %s, %s)' % (_lean_bool(k), _lean_text(pf), _lean_text(nm), _lean_text(r)) for k, pf, nm, r in g('source_path')), ']', '',
         '/-- `(overridden path, resource name, what the override hands to its source: none = no match)` of',
         '`PackageOverrides.insert` + `filtered_sources` -/',
         'def overrideApplyProbe : List (List Char × List Char × Option (List Char)) := [',
         ',\n'.join('  (%s, %s, %s)' % (_lean_text(pa), _lean_text(nm), _lean_opt(r)) for pa, nm, r in g('override_apply')), ']', '',
         'end Pyr.Static.Gen', '']
    return {'PyramidModel/Gen/C16.lean': '\n'.join(L)}


if __name__ == '__main__':
    if len(sys.argv) > 2 and sys.argv[1] == '--probe':
        print(json.dumps(_probe()))
    else:
        print(generate(sys.argv[1] if len(sys.argv) > 1 else '/repo/src')['PyramidModel/Gen/C16.lean'])
