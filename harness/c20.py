"""C20 — the introspector reports what was actually configured.

Two streams, both against the real code in-process:

* `ops`  — operation sequences on a real `pyramid.registry.Introspector` (add / get / get_category / categories /
           categorized / remove / relate / unrelate / related) compared with lean/PyramidModel/Introspect.lean, and
           the state-machine laws checked directly on the implementation's answers (python reference below).
* `cfg`  — every directive family that builds an introspectable is called on a real `Configurator` with sentinel
           argument values (pairwise distinct per call, option pairs set to different values), inside trees of
           nested `include`s in which some statements are overridden by a shallower one and some configurators
           have `introspection` off; after `commit()`
             - correspondence: the pending action dicts (discriminator, order, include path, introspectables
               with their relations) are abstracted to numbers and given to the model, which resolves the
               conflicts (C04 model), registers the executed actions' introspectables and must predict the
               real `introspector.categorized()` / `related` exactly (and the real include paths, and the number
               of introspectables each pending action carries — the `introspection` flag);
             - property oracle (python only, independent of the Lean build): for every statement that took
               effect the entry exists in the documented category, every recorded key holds the value the
               statement was given (or its documented normalised form), `action_info` points at the statement,
               relations link the right pairs both ways; overridden statements own no entry; configurators
               with introspection off record nothing.
"""
import copy, inspect, json, os, sys, warnings

import vfutil

warnings.simplefilter('ignore')

from zope.interface import Interface
from zope.interface.interface import InterfaceClass

from pyramid.config import Configurator
from pyramid.exceptions import ConfigurationConflictError, ConfigurationError, ConfigurationExecutionError
from pyramid.registry import Introspectable, Introspector, undefer, Deferred

BASE_INFO = 1000000

RULE = ('cfg histories (several commits on one configurator, or an autocommit configurator) are always non-trivial; '
        'ops: a case is non-trivial when it re-adds a live key, removes a related introspectable, or relates two '
        'introspectables with equal contents; cfg: a case is non-trivial when at least one statement is overridden '
        'through include nesting, or some configurator has introspection off, or a statement produces a relation; '
        'distinct = distinct canonical case JSON')


# =====================================================================================================
#  stream A: Introspector operation sequences
# =====================================================================================================

NC, ND, NV = 3, 4, 6


def gen_ops(rng, n, collide=False):
    seq, live = [], set()
    nextval = [0]

    def fresh():
        nextval[0] += 1
        return nextval[0] if not collide else rng.randrange(NV)
    for _ in range(n):
        r = rng.random()
        c, d = rng.randrange(NC), rng.randrange(ND)
        if live and rng.random() < 0.7:
            c, d = rng.choice(sorted(live))
        if r < 0.3 or not live:
            c, d = rng.randrange(NC), rng.randrange(ND)
            seq.append(['add', c, d, fresh(), len(seq)])
            live.add((c, d))
        elif r < 0.5:
            k = rng.choice([1, 2, 2, 2, 3])
            pairs = []
            for _ in range(k):
                if rng.random() < 0.85:
                    pairs.append(list(rng.choice(sorted(live))))
                else:
                    pairs.append([rng.randrange(NC), rng.randrange(ND)])
            seq.append([rng.choice(['relate', 'relate', 'unrelate']), pairs])
        elif r < 0.6:
            seq.append(['remove', c, d])
            live.discard((c, d))
        elif r < 0.7:
            seq.append(['get', rng.randrange(NC + 1), d])
        elif r < 0.8:
            seq.append(['related', c, d])
        elif r < 0.9:
            seq.append(['get_category', rng.randrange(NC + 1)])
        elif r < 0.95:
            seq.append(['categorized'])
        else:
            seq.append(['categories'])
    seq.append(['categorized'])
    return {'stream': 'ops', 'seq': seq}


def _cname(c):
    return 'c%d' % c


def _dname(d):
    return 'd%d' % d


def _obj3(i):
    return [int(i.category_name[1:]), int(i.discriminator[1:]), i['v']]


def _entry(i):
    return [int(i.discriminator[1:]), i['v'], i.action_info]


def _catview(lst):
    return [[int(x['introspectable'].discriminator[1:]), x['introspectable']['v'], x['introspectable'].action_info,
             [_obj3(y) for y in x['related']]] for x in lst]


def impl_ops(case):
    """-> (results, number of operations performed: the sequence ends at a `remove` that raises)"""
    I = Introspector()
    out = []
    for op in case['seq']:
        name = op[0]
        try:
            if name == 'add':
                i = Introspectable(_cname(op[1]), _dname(op[2]), 't', 'ty')
                i['v'] = op[3]
                i.action_info = op[4]
                I.add(i)
                out.append(None)
            elif name == 'get':
                r = I.get(_cname(op[1]), _dname(op[2]))
                out.append(None if r is None else _entry(r))
            elif name == 'get_category':
                r = I.get_category(_cname(op[1]))
                out.append(None if r is None else _catview(r))
            elif name == 'categories':
                out.append([int(c[1:]) for c in I.categories()])
            elif name == 'categorized':
                out.append([[int(c[1:]), _catview(l)] for c, l in I.categorized()])
            elif name == 'remove':
                I.remove(_cname(op[1]), _dname(op[2]))
                out.append(None)
            elif name in ('relate', 'unrelate'):
                getattr(I, name)(*[(_cname(c), _dname(d)) for c, d in op[1]])
                out.append(None)
            elif name == 'related':
                i = Introspectable(_cname(op[1]), _dname(op[2]), 't', 'ty')
                out.append([_obj3(y) for y in I.related(i)])
            else:
                raise RuntimeError('bad op')
        except KeyError:
            out.append({'err': 'KeyError'})
            if name == 'remove':
                return out, len(out)
        except ValueError:
            out.append({'err': 'ValueError'})
            if name == 'remove':
                return out, len(out)
    return out, len(out)


class RefIntrospector:
    """The state-machine laws, stated directly (python reference for the property oracle of the ops stream).
    Every `add` creates a new *object* (identified by its fresh contents number); a slot (category, discriminator)
    holds the object added to it last.  Relations belong to objects, not to slots: `relate` links the objects that
    occupy the named slots at that moment, pairwise and both ways; re-adding a slot puts a new, unrelated object
    there (the replaced object keeps its links but is no longer in any category); `remove` unlinks the removed object.
    Valid for sequences in which all added contents are different (`wf_ops`)."""

    def __init__(self):
        self.live = {}        # (c, d) -> v, insertion order = last add
        self.obj = {}         # v -> (c, d, info)
        self.cats = set()
        self.rel = {}         # v -> [v] in link order

    def add(self, c, d, v, info):
        self.live.pop((c, d), None)
        self.live[(c, d)] = v
        self.obj[v] = (c, d, info)
        self.cats.add(c)

    def o3(self, v):
        c, d, _ = self.obj[v]
        return [c, d, v]

    def catview(self, c):
        return [[d, v, self.obj[v][2], [self.o3(w) for w in self.rel.get(v, [])]]
                for (cc, d), v in self.live.items() if cc == c]


def wf_ops(seq):
    vals = [op[3] for op in seq if op[0] == 'add']
    return len(vals) == len(set(vals))


def oracle_ops(case, results):
    """property on the implementation's answers; None or a detail string"""
    if not wf_ops(case['seq']):
        return None
    R = RefIntrospector()
    for op, got in zip(case['seq'], results):
        name = op[0]
        exp = '?'
        if name == 'add':
            R.add(op[1], op[2], op[3], op[4]); exp = None
        elif name == 'get':
            R.cats.add(op[1])
            v = R.live.get((op[1], op[2]))
            exp = None if v is None else [op[2], v, R.obj[v][2]]
        elif name == 'get_category':
            exp = R.catview(op[1]) if op[1] in R.cats else None
        elif name == 'categories':
            exp = sorted(R.cats)
        elif name == 'categorized':
            exp = [[c, R.catview(c)] for c in sorted(R.cats)]
        elif name == 'remove':
            R.cats.add(op[1])
            k = (op[1], op[2])
            if k in R.live:
                v = R.live.pop(k)
                for o in R.rel.pop(v, []):
                    R.rel[o].remove(v)
            exp = None
        elif name in ('relate', 'unrelate'):
            ks = [tuple(p) for p in op[1]]
            if any(k not in R.live for k in ks):
                exp = {'err': 'KeyError'}
            else:
                vs = [R.live[k] for k in ks]
                for x in vs:
                    for y in vs:
                        L = R.rel.setdefault(x, []) if name == 'relate' else R.rel.get(x, [])
                        if name == 'relate':
                            if x != y and y not in L:
                                L.append(y)
                        elif y in L:
                            L.remove(y)
                exp = None
        elif name == 'related':
            k = (op[1], op[2])
            exp = {'err': 'KeyError'} if k not in R.live else [R.o3(w) for w in R.rel.get(R.live[k], [])]
        if got != exp:
            return 'operation %s answered %s; the state-machine laws give %s' % (json.dumps(op), json.dumps(got), json.dumps(exp))
    return None


SMALL_SLOTS = [(0, 0), (0, 1), (1, 0)]


def small_scope_ops(maxlen):
    """every operation sequence of 1..maxlen steps over three slots (two share a category) and the alphabet
    add(slot) [fresh contents, so a second add of a slot is a re-add by another object], relate / unrelate of each pair
    of slots, remove(slot); each followed by `categorized` (which lists every live entry with its related list)"""
    import itertools
    alpha = [('add', s_) for s_ in SMALL_SLOTS] + [('remove', s_) for s_ in SMALL_SLOTS]
    pairs = [(a_, b_) for i, a_ in enumerate(SMALL_SLOTS) for b_ in SMALL_SLOTS[i + 1:]]
    alpha += [('relate', p_) for p_ in pairs] + [('unrelate', p_) for p_ in pairs]
    for n in range(1, maxlen + 1):
        for combo in itertools.product(alpha, repeat=n):
            if combo[0][0] != 'add':
                continue            # anything before the first add only raises KeyError / creates categories
            seq, v = [], 0
            for kind, arg in combo:
                if kind == 'add':
                    v += 1
                    seq.append(['add', arg[0], arg[1], v, len(seq)])
                elif kind == 'remove':
                    seq.append(['remove', arg[0], arg[1]])
                else:
                    seq.append([kind, [list(arg[0]), list(arg[1])]])
            seq.append(['categorized'])
            yield {'stream': 'ops', 'seq': seq}


def nontrivial_ops(case):
    live, related = {}, set()
    for op in case['seq']:
        if op[0] == 'add':
            if (op[1], op[2]) in live:
                return True
            if op[3] in live.values():
                return True
            live[(op[1], op[2])] = op[3]
        elif op[0] == 'relate':
            for p in op[1]:
                related.add(tuple(p))
        elif op[0] == 'remove' and (op[1], op[2]) in related:
            return True
    return False


# =====================================================================================================
#  stream B: directive families on a real Configurator
# =====================================================================================================

def dotted_target(*a, **k):          # resolved from the dotted name 'harness_c20.dotted_target'
    return None


def tween_0(handler, registry):
    return handler


def tween_1(handler, registry):
    return handler


def tween_2(handler, registry):
    return handler


_TDIR_ROOT = []


def tdir(tag):
    """translation directory sentinel: a real, empty directory under a tempfile root outside /repo and /verif (created on
    first use, removed when the process exits); a tag ending in '/' gives the path with a trailing slash"""
    import atexit, glob, shutil, tempfile, time
    if not _TDIR_ROOT:
        # roots left behind by a run that was killed (older than an hour) are removed first
        for old in glob.glob(os.path.join(tempfile.gettempdir(), 'c20_tdirs_*')):
            try:
                if time.time() - os.path.getmtime(old) > 3600:
                    shutil.rmtree(old, True)
            except OSError:
                pass
        root = tempfile.mkdtemp(prefix='c20_tdirs_')
        _TDIR_ROOT.append(root)
        atexit.register(cleanup_tdirs)
    name = str(tag).rstrip('/')
    path = os.path.join(_TDIR_ROOT[0], 'locale_%s' % name)
    os.makedirs(path, exist_ok=True)
    return path + ('/' if str(tag).endswith('/') else '')


def cleanup_tdirs():
    import shutil
    while _TDIR_ROOT:
        shutil.rmtree(_TDIR_ROOT.pop(), True)


class _Objs:
    """sentinel objects of one run, by tag"""

    def __init__(self):
        self.d = {}

    def get(self, spec):
        if isinstance(spec, dict):
            (kind, tag), = spec.items()
            if kind == 'tup':
                return tuple(self.get(x) for x in tag)
            if kind == 'list':
                return [self.get(x) for x in tag]
            if kind == 'tdir':
                return tdir(tag)
            key = (kind, tag)
            if key not in self.d:
                self.d[key] = self.make(kind, tag)
            return self.d[key]
        return spec

    @staticmethod
    def make(kind, tag):
        if kind == 'fn':
            def f(*a, **k):
                return None
            f.__name__ = f.__qualname__ = str(tag)
            return f
        if kind == 'view':
            def v(context, request):
                return {}
            v.__name__ = v.__qualname__ = str(tag)
            return v
        if kind == 'cls':
            return type(str(tag), (), {})
        if kind == 'viewcls':
            return type(str(tag), (), {'__init__': lambda self, request: None, 'meth': lambda self: {}})
        if kind == 'exc':
            return type(str(tag), (Exception,), {})
        if kind == 'iface':
            return InterfaceClass(str(tag))
        if kind == 'inst':
            return type(str(tag), (), {})()
        if kind == 'deriver':
            def d(view, info):
                return view
            d.__name__ = d.__qualname__ = str(tag)
            d.options = ('zopt',)
            return d
        if kind == 'deco':
            def deco(view):
                return view
            deco.__name__ = deco.__qualname__ = str(tag)
            return deco
        if kind == 'prop':
            return property(lambda self: None)
        raise RuntimeError('bad sentinel kind %r' % kind)


def as_sorted_tuple(v):
    if isinstance(v, str):
        v = (v,)
    return tuple(sorted(set(v)))


def norm_accept(v):
    return v.lower()


# ---- the python side of the specification -----------------------------------------------------------------
# PY_SPEC[directive][var] = (documented-or-source category, source category, {key: shape})
#   shape = ('param', p) | ('resolved', p) | ('const', value) | ('derived', lean expr text, fn(args, env)) |
#           ('computed', lean expr text, check(value, args, env)) | ('extra', p)
# The table is cross-checked against Lemmas/IntrospectSpec.lean (through the driver) on every run.

def _P(p): return ('param', p)
def _R(p): return ('resolved', p)
def _C(v): return ('const', v)
def _D(text, fn): return ('derived', text, fn)
def _K(text, chk): return ('computed', text, chk)


def _route_pattern(a, env):
    pat = a['pattern'] if a['pattern'] is not None else a['path']
    pre = env.get('route_prefix')
    if pre:
        pat = pre.rstrip('/') + '/' + pat.lstrip('/')
    return pat


def _slash(s):
    return s if s.endswith('/') or s.endswith(':') else s + '/'


PY_SPEC = {
    'add_subscriber': {'intr': ('subscribers', 'subscribers', {
        'subscriber': _D('subscriber', lambda a, e: a['subscriber']),
        'interfaces': _D('iface', lambda a, e: (Interface,) if a['iface'] is None else
                         (a['iface'] if isinstance(a['iface'], (tuple, list)) else (a['iface'],))),
        'phash': _K('phash', lambda v, a, e: isinstance(v, str)),
        'order': _K('order', lambda v, a, e: isinstance(v, int)),
        'predicates': _K('preds', lambda v, a, e: isinstance(v, list)),
        'derived_predicates': _K('derived_predicates', lambda v, a, e: isinstance(v, list)),
        'derived_subscriber': _K('derived_subscriber', lambda v, a, e: callable(v)),
    })},
    'add_response_adapter': {'intr': ('response adapters', 'response adapters', {
        'adapter': _R('adapter'), 'type': _R('type_or_iface')})},
    'add_traverser': {'intr': ('traversers', 'traversers', {'adapter': _R('adapter'), 'iface': _R('iface')})},
    'add_resource_url_adapter': {'intr': ('resource url adapters', 'resource url adapters', {
        'adapter': _R('adapter'), 'resource_iface': _R('resource_iface')})},
    'override_asset': {'intr': ('asset overrides', 'asset overrides', {
        'to_override': _P('to_override'), 'override_with': _P('override_with')})},
    'set_root_factory': {'intr': ('root factories', 'root factories', {
        'factory': _D('factory', lambda a, e: a['factory'])})},     # None -> DefaultRootFactory is not generated
    'set_session_factory': {'intr': ('session factory', 'session factory', {'factory': _R('factory')})},
    'set_request_factory': {'intr': ('request factory', 'request factory', {'factory': _R('factory')})},
    'set_response_factory': {'intr': ('response factory', 'response factory', {'factory': _R('factory')})},
    'add_request_method': {'intr': ('request extensions', 'request extensions', {
        'callable': _D('callable', lambda a, e: ('prop', a) if (a['property'] or a['reify']) else a['callable']),
        'property': ('const2', lambda a, e: bool(a['property'] or a['reify'])),
        'reify': ('const2', lambda a, e: a['reify'] if (a['property'] or a['reify']) else False),
    })},
    'set_execution_policy': {'intr': ('execution policy', 'execution policy', {
        'policy': _D('policy', lambda a, e: a['policy'])})},
    'set_locale_negotiator': {'intr': ('locale negotiator', 'locale negotiator', {'negotiator': _P('negotiator')})},
    'add_translation_dirs': {'intr': ('translation directories', 'translation directories', {
        'directory': _D('directory', None), 'spec': _D('spec', None)})},   # per element, see expect()
    '_add_predicate': {'intr': (None, None, {
        'name': _P('name'), 'factory': _R('factory'), 'weighs_more_than': _P('weighs_more_than'),
        'weighs_less_than': _P('weighs_less_than')})},
    'add_renderer': {'intr': ('renderer factories', 'renderer factories', {
        'factory': _R('factory'), 'name': _D('name', lambda a, e: a['name'] or '')})},
    'add_route': {
        'intr': ('routes', 'routes', {
            'name': _P('name'), 'pattern': _D('pattern', _route_pattern), 'factory': _R('factory'), 'xhr': _P('xhr'),
            'request_methods': _D('request_method', lambda a, e: None if a['request_method'] is None else as_sorted_tuple(a['request_method'])),
            'path_info': _P('path_info'), 'request_param': _P('request_param'), 'header': _P('header'),
            'accept': _D('accept', lambda a, e: None if a['accept'] is None else
                         [norm_accept(x) for x in ([a['accept']] if isinstance(a['accept'], str) else a['accept'])]),
            'traverse': _P('traverse'), 'custom_predicates': _P('custom_predicates'),
            'pregenerator': _D('pregenerator', lambda a, e: a['pregenerator']),
            'static': _D('static', lambda a, e: a['static']),
            'use_global_views': _P('use_global_views'),
            'external_url': _D('external_url', lambda a, e: a['pattern'] if a['pattern'] is not None else a['path']),
            'object': _K('route', lambda v, a, e: getattr(v, 'name', None) == a['name'] and getattr(v, 'pattern', None) == _route_pattern(a, e)),
        }),
        'factory_intr': ('root factories', 'root factories', {'factory': _R('factory'), 'route_name': _P('name')}),
    },
    'set_security_policy': {'intr': ('security policy', 'security policy', {'policy': _R('policy')})},
    'set_authentication_policy': {'intr': ('authentication policy', 'authentication policy', {'policy': _R('policy')})},
    'set_authorization_policy': {'intr': ('authorization policy', 'authorization policy', {'policy': _R('policy')})},
    'set_default_permission': {
        'intr': ('default permission', 'default permission', {'value': _P('permission')}),
        'perm_intr': ('permissions', 'permissions', {'value': _P('permission')})},
    'add_permission': {'intr': ('permissions', 'permissions', {'value': _P('permission_name')})},
    'set_default_csrf_options': {'intr': ('default csrf view options', 'default csrf view options', {
        'require_csrf': _P('require_csrf'), 'token': _P('token'), 'header': _P('header'),
        'safe_methods': _D('as_sorted_tuple(safe_methods)', lambda a, e: as_sorted_tuple(a['safe_methods'])),
        'check_origin': _P('check_origin'), 'allow_no_origin': _P('allow_no_origin'), 'callback': _P('callback')})},
    'set_csrf_storage_policy': {'intr': ('csrf storage policy', 'csrf storage policy', {'policy': _P('policy')})},
    '_add_tween': {'intr': ('tweens', 'tweens', {
        'name': _D('name', lambda a, e: a['tween_factory']),
        'factory': _R('tween_factory'),
        'type': _D('tween_type', lambda a, e: 'explicit' if a.get('explicit') else 'implicit'),
        'under': _P('under'), 'over': _P('over')})},
    'add_view': {
        'view_intr': ('views', 'views', {
            'name': _P('name'),
            'context': _D('context', lambda a, e: a['context'] if a['context'] is not None else a['for_']),
            'exception_only': _P('exception_only'), 'containment': _R('containment'), 'request_param': _P('request_param'),
            'request_methods': _P('request_method'), 'route_name': _P('route_name'), 'attr': _P('attr'), 'xhr': _P('xhr'),
            'accept': _D('accept', lambda a, e: None if a['accept'] is None else norm_accept(a['accept'])),
            'header': _P('header'), 'path_info': _P('path_info'), 'match_param': _P('match_param'),
            'http_cache': _P('http_cache'), 'require_csrf': _P('require_csrf'),
            'callable': _D('view', lambda a, e: a['view'] if a['view'] is not None else ('anycallable', None)), 'mapper': _R('mapper'),
            'decorator': _D('decorator', lambda a, e: a['decorator']),          # single decorators only
            '**': ('extra', 'view_options'),
            'phash': _K('phash', lambda v, a, e: isinstance(v, str)),
            'order': _K('order', lambda v, a, e: isinstance(v, int)),
            'predicates': _K('preds', lambda v, a, e: isinstance(v, list)),
            'derived_callable': _K('derived_view', lambda v, a, e: callable(v)),
        }),
        'mapper_intr': ('view mappers', 'view mappers', {'mapper': _R('mapper')}),
        'tmpl_intr': ('templates', 'templates', {
            'name': _D('renderer.name', lambda a, e: a['renderer']),
            'type': _D('renderer.type', lambda a, e: os.path.splitext(a['renderer'])[1]),
            'renderer': _D('renderer', lambda a, e: ('helper', a['renderer']))}),
        'perm_intr': ('permissions', 'permissions', {'value': _P('permission')}),
    },
    'add_accept_view_order': {'intr': ('accept view order', 'accept view order', {
        'value': _D('value', lambda a, e: norm_accept(a['value'])),
        'weighs_more_than': _D('weighs_more_than', lambda a, e: a['weighs_more_than'] if not a['weighs_more_than'] else
                               [norm_accept(x) for x in ([a['weighs_more_than']] if isinstance(a['weighs_more_than'], str) else a['weighs_more_than'])]),
        'weighs_less_than': _D('weighs_less_than', lambda a, e: a['weighs_less_than'] if not a['weighs_less_than'] else
                               [norm_accept(x) for x in ([a['weighs_less_than']] if isinstance(a['weighs_less_than'], str) else a['weighs_less_than'])]),
    })},
    'add_view_deriver': {'intr': ('view derivers', 'view derivers', {
        'name': _D('name', lambda a, e: a['name'] if a['name'] is not None else a['deriver'].__name__),
        'deriver': _R('deriver'),
        'under': _D('under', lambda a, e: as_sorted_tuple(a['under'] if a['under'] is not None else 'decorated_view')),
        'over': _D('over', lambda a, e: as_sorted_tuple(a['over'] if a['over'] is not None else 'rendered_view')),
    })},
    'set_view_mapper': {'intr': ('view mappers', 'view mappers', {'mapper': _R('mapper')})},
    'add': {'intr': ('static views', 'static views', {
        'name': _D('name', lambda a, e: _slash(a['name'])),
        'spec': _D('spec', lambda a, e: _slash(a['path']))})},
    'add_cache_buster': {'intr': ('cache busters', 'cache busters', {
        'cachebust': _P('cachebust'), 'path': _D('spec', lambda a, e: _slash(a['path'])), 'explicit': _P('explicit')})},
}

# categories of the families the chapter documents (PY_SPEC names them; compared with the live document below)
DOCUMENTED_FAMILY_CATEGORIES = {doc for spec_ in PY_SPEC.values() for (doc, src, _k) in spec_.values()
                                if doc is not None and doc not in ('request extensions', 'execution policy', 'response factory',
                                                                   'csrf storage policy', 'cache busters', 'accept view order',
                                                                   'view derivers')}
_DOC_CACHE = {}


def live_doc_categories():
    """the category headings of docs/narr/introspector.rst of the tree under test (same parser as the translator)"""
    import pyramid
    src_root = os.path.dirname(os.path.dirname(os.path.abspath(pyramid.__file__)))
    if src_root not in _DOC_CACHE:
        here = os.path.dirname(os.path.dirname(os.path.abspath(__file__)))
        import importlib.util
        sp = importlib.util.spec_from_file_location('extract_c20_docs', os.path.join(here, 'extract', 'c20.py'))
        m = importlib.util.module_from_spec(sp)
        sp.loader.exec_module(m)
        status, names = m.doc_categories(src_root)
        _DOC_CACHE[src_root] = set(names) if status == 'ok' else set()
    return _DOC_CACHE[src_root]


# public directive -> (slice name in the generated / specified table, fixed extra arguments)
PUBLIC = {
    'add_view_predicate': ('_add_predicate', {'type': 'view'}),
    'add_route_predicate': ('_add_predicate', {'type': 'route'}),
    'add_subscriber_predicate': ('_add_predicate', {'type': 'subscriber'}),
    'add_tween': ('_add_tween', {'explicit': False}),
    'add_static_view': ('add', {}),
}

def spec_crosscheck(lean_spec):
    """the python table above against the Lean table (shape kinds, parameters, expression texts, key sets,
    categories).  -> list of differences (strings)"""
    diffs = []
    by_name = {s['name']: s for s in lean_spec}
    if set(by_name) != set(PY_SPEC):
        diffs.append('directive sets differ: %s' % sorted(set(by_name) ^ set(PY_SPEC)))
    lean_doc = {c for s_ in lean_spec for _, c in s_['docCategory']}
    if lean_doc != DOCUMENTED_FAMILY_CATEGORIES:
        diffs.append('documented categories: lean %s vs python %s' % (sorted(lean_doc - DOCUMENTED_FAMILY_CATEGORIES), sorted(DOCUMENTED_FAMILY_CATEGORIES - lean_doc)))
    # every family the harness calls reaches its slice through a specified public entry
    for fam in FAMILIES:
        slice_name = PUBLIC.get(fam, (fam, {}))[0]
        ents = [e.split('.', 1)[1] for e in by_name.get(slice_name, {}).get('entries', [])]
        if fam not in ents:
            diffs.append('family %s is not a specified public entry of %s (%s)' % (fam, slice_name, ents))
    called = {PUBLIC.get(f, (f, {}))[0] for f in FAMILIES} | {'set_authorization_policy'}
    for name, s in by_name.items():
        for e in s.get('entries', []):
            if e.split('.', 1)[1] not in FAMILIES and e.split('.', 1)[1] != 'set_authorization_policy':
                diffs.append('public entry %s of %s is not exercised by the harness' % (e, name))
    for name, s in by_name.items():
        py = PY_SPEC.get(name)
        if py is None:
            continue
        doc = dict(s['docCategory'])
        vars_ = {}
        for i in s['intros']:
            vars_.setdefault(i['var'], i)
        if set(vars_) != set(py):
            diffs.append('%s: introspectable variables %s vs %s' % (name, sorted(vars_), sorted(py)))
            continue
        for var, (pdoc, pcode, pkeys) in py.items():
            i = vars_[var]
            if pcode is not None:
                if i['category'] != repr(pcode):
                    diffs.append('%s.%s: source category %s vs %r' % (name, var, i['category'], pcode))
                if doc.get(var, pcode) != pdoc:
                    diffs.append('%s.%s: documented category %r vs %r' % (name, var, doc.get(var), pdoc))
            lk = {}
            for k in s['keys']:
                if k['var'] == var:
                    lk.setdefault(k['key'], []).append(k['shape'])
            if set(lk) != set(pkeys):
                diffs.append('%s.%s: key sets differ: %s' % (name, var, sorted(set(lk) ^ set(pkeys))))
                continue
            for key, shp in pkeys.items():
                for ls in lk[key]:
                    if shp[0] == 'const2':
                        if ls[0] not in ('const', 'param'):
                            diffs.append('%s.%s[%s]: %s vs const/param' % (name, var, key, ls[0]))
                    elif shp[0] != ls[0] or (shp[0] in ('param', 'resolved', 'extra', 'derived', 'computed') and shp[1] != ls[1]):
                        diffs.append('%s.%s[%s]: lean %s vs python %s' % (name, var, key, ls[:2], shp[:2]))
    return diffs


# ---- case generation ---------------------------------------------------------------------------------------

def _tag(g, kind):
    g['n'] += 1
    return {kind: '%s%d' % (kind, g['n'])}


def _two_bools(rng):
    b = rng.random() < 0.5
    return b, (not b)


def fam_args(rng, g, fam, key=None):
    """symbolic arguments of one statement of family `fam`; `key` fixes the discriminating arguments so that a
    second statement with the same key conflicts with / overrides the first"""
    k = key if key is not None else rng.randrange(3)
    opt = lambda v: v if rng.random() < 0.75 else None
    if fam == 'add_route':
        xhr, static = _two_bools(rng)
        a = {'name': 'route%d' % k, 'pattern': '/r%d/{x}/p%d' % (k, g['n']), 'factory': opt(_tag(g, 'fn')),
             'header': opt('X-H%d:v%d' % (g['n'], k)), 'xhr': opt(xhr), 'accept': opt('Text/X-%d' % g['n']),
             'path_info': opt('/pi%d' % g['n']), 'request_method': opt(rng.choice(['POST', {'tup': ['PUT', 'GET']}, 'GET'])),
             'request_param': opt('rp%d' % g['n']), 'traverse': opt('/tr%d' % g['n']),
             'use_global_views': (not xhr) if rng.random() < 0.7 else None, 'pregenerator': opt(_tag(g, 'fn')),
             'static': static if rng.random() < 0.5 else None}
        if rng.random() < 0.15:
            a['path'] = a.pop('pattern')
        if rng.random() < 0.1:
            a['pattern'] = 'https://ex%d.example.com/ext/{y}' % g['n']; a.pop('path', None)
        return a
    if fam == 'add_view':
        a = {'view': _tag(g, 'view'), 'name': 'v%d' % k, 'permission': opt('perm%d' % rng.randrange(3)),
             'request_method': opt(rng.choice(['POST', 'GET', {'tup': ['GET', 'POST']}])), 'request_param': opt('q%d' % g['n']),
             'containment': opt(_tag(g, 'cls')), 'xhr': opt(rng.random() < 0.5), 'accept': opt('Text/Y-%d' % g['n']),
             'header': opt('X-V%d' % g['n']), 'path_info': opt('/vp%d' % g['n']), 'context': opt({'cls': 'ctx%d' % k}),
             'decorator': opt(_tag(g, 'deco')) if rng.random() < 0.3 else None, 'mapper': None,
             'http_cache': opt(100 + g['n']), 'match_param': opt('mp%d=1' % g['n']),
             'require_csrf': opt(rng.random() < 0.5),
             'renderer': rng.choice([None, 'json', 'string', 'tpl%d.pt' % g['n'], 'tpl%d.xyz' % rng.randrange(2)])}
        if rng.random() < 0.2:
            a['for_'] = a.pop('context')
        if rng.random() < 0.2:
            a['view'] = _tag(g, 'viewcls'); a['attr'] = 'meth'
        elif a['renderer'] and rng.random() < 0.1:
            a['view'] = None            # the directive supplies its own `def view(context, request): return {}`
        return a
    if fam in ('add_view_predicate', 'add_route_predicate', 'add_subscriber_predicate'):
        a = {'name': 'pred%d' % k, 'factory': _tag(g, 'fn')}
        if fam != 'add_subscriber_predicate':
            a['weighs_more_than'] = opt(rng.choice(['xhr', {'tup': ['xhr', 'request_method']}]))
            a['weighs_less_than'] = opt('request_method') if a['weighs_more_than'] is None else None
        return a
    if fam == 'add_view_deriver':
        return {'deriver': _tag(g, 'deriver'), 'name': 'deriver%d' % k if rng.random() < 0.8 else None,
                'under': opt(rng.choice(['decorated_view', {'tup': ['decorated_view', 'http_cached_view']}])),
                'over': opt(rng.choice(['rendered_view', {'tup': ['rendered_view', 'mapped_view']}]))}
    if fam == 'add_renderer':
        return {'name': rng.choice(['.pt', '.xyz', 'rn%d' % k]) if key is None else ['.pt', '.xyz', 'rn0'][k % 3], 'factory': _tag(g, 'fn')}
    if fam in ('set_security_policy', 'set_authentication_policy', 'set_authorization_policy', 'set_csrf_storage_policy',
               'set_execution_policy'):
        return {'policy': _tag(g, 'inst') if fam != 'set_execution_policy' else _tag(g, 'fn')}
    if fam == 'set_default_permission':
        return {'permission': 'dperm%d' % rng.randrange(3)}
    if fam == 'add_permission':
        return {'permission_name': 'aperm%d' % k}
    if fam == 'set_default_csrf_options':
        co, ano = _two_bools(rng)
        return {'require_csrf': rng.random() < 0.5, 'token': 'tok%d' % g['n'], 'header': 'X-Hdr%d' % g['n'],
                'safe_methods': {'tup': rng.sample(['GET', 'HEAD', 'OPTIONS', 'TRACE', 'PROPFIND'], 3)},
                'check_origin': co, 'allow_no_origin': ano, 'callback': opt(_tag(g, 'fn'))}
    if fam in ('set_root_factory', 'set_session_factory', 'set_request_factory', 'set_response_factory'):
        return {'factory': _tag(g, 'fn') if rng.random() < 0.85 else 'harness_c20.dotted_target'}
    if fam == 'set_locale_negotiator':
        return {'negotiator': _tag(g, 'fn') if rng.random() < 0.85 else 'harness_c20.dotted_target'}
    if fam == 'add_request_method':
        prop, reify = rng.choice([(False, False), (True, False), (False, True), (True, True)])
        return {'callable': _tag(g, 'fn'), 'name': 'rm%d' % k, 'property': prop, 'reify': reify}
    if fam == 'add_subscriber':
        return {'subscriber': _tag(g, 'fn'), 'iface': rng.choice([None, _tag(g, 'iface'), {'tup': [_tag(g, 'iface'), _tag(g, 'iface')]}])}
    if fam == 'add_response_adapter':
        return {'adapter': _tag(g, 'fn'), 'type_or_iface': {'cls': 'rtype%d' % k}}
    if fam == 'add_traverser':
        return {'adapter': _tag(g, 'cls'), 'iface': {'iface': 'tiface%d' % k} if k else None}
    if fam == 'add_resource_url_adapter':
        return {'adapter': _tag(g, 'cls'), 'resource_iface': {'iface': 'riface%d' % k} if k else None}
    if fam == 'add_tween':
        return {'tween_factory': 'harness_c20.tween_%d' % k, 'under': opt(rng.choice(['pyramid.tweens.excview_tween_factory', {'tup': ['INGRESS']},
                                         {'tup': ['INGRESS', 'pyramid.tweens.excview_tween_factory']}])),
                'over': opt('MAIN')}
    if fam == 'add_static_view':
        return {'name': 'static%d' % k, 'path': rng.choice(['pyramid:config', 'pyramid:scripts/', 'pyramid:config/'])}
    if fam == 'add_cache_buster':
        e = rng.random() < 0.5
        return {'path': ['pyramid:config', 'pyramid:scripts/', 'zope.interface:common'][k % 3], 'cachebust': _tag(g, 'fn'), 'explicit': e}
    if fam == 'override_asset':
        return {'to_override': ['pyramid:config/', 'pyramid:scripts/', 'zope.interface:common/'][k % 3],
                'override_with': rng.choice(['pyramid.scripts:', 'pyramid.config:']), '_override': {'fn': 'ovjig'}}
    if fam == 'add_translation_dirs':
        # 1-4 pairwise different directories per call (a pool of its own per key, so that two statements of one program
        # never share a slot), with and without trailing slash, one of them optionally a package asset spec; both modes
        pool = [{'tdir': '%d%s' % (4 * (k % 3) + j, rng.choice(['', '/']))} for j in range(4)]
        specs = rng.sample(pool, rng.choice([1, 2, 2, 3, 3, 4]))
        if rng.random() < 0.3:
            specs[rng.randrange(len(specs))] = ['pyramid:config/', 'pyramid:scripts', 'zope.interface:common'][k % 3]
        a = {'*': specs}
        if rng.random() < 0.5:
            a['override'] = rng.random() < 0.5
        return a
    if fam == 'set_view_mapper':
        return {'mapper': {'mappercls': _tag(g, 'cls')['cls']}}
    if fam == 'add_accept_view_order':
        return {'value': 'Text/Z-%d' % k, 'weighs_more_than': opt(rng.choice(['text/html', {'list': ['Text/HTML', 'application/json']}])),
                'weighs_less_than': None}
    raise RuntimeError('unknown family %s' % fam)


FAMILIES = ['add_route', 'add_view', 'add_view_predicate', 'add_route_predicate', 'add_subscriber_predicate',
            'add_view_deriver', 'add_renderer', 'set_security_policy', 'set_authentication_policy',
            'set_default_permission', 'add_permission', 'set_default_csrf_options', 'set_csrf_storage_policy',
            'set_root_factory', 'set_session_factory', 'set_request_factory', 'set_response_factory',
            'set_execution_policy', 'set_locale_negotiator', 'add_request_method', 'add_subscriber',
            'add_response_adapter', 'add_traverser', 'add_resource_url_adapter', 'add_tween', 'add_static_view',
            'add_cache_buster', 'override_asset', 'add_translation_dirs', 'set_view_mapper', 'add_accept_view_order']
# families whose statements have no discriminator (nothing to override)
NO_DISC = ('add_permission', 'add_subscriber', 'add_static_view', 'add_cache_buster', 'override_asset', 'add_translation_dirs')


def mk_stmt(g, fam, args):
    g['sid'] += 1
    return {'stmt': {'id': g['sid'], 'dir': fam, 'args': args}}


def gen_cfg(rng, fams=None, shape=None, flag=None, g=None, same_as=None, firsts=None, switches=True):
    """one configuration program.  `same_as[fam] = (key, args)`: the first statement of that family re-declares the
    slot of an earlier statement (same discriminating arguments, fresh values); `firsts` collects them."""
    g = g if g is not None else {'n': 0, 'sid': 0, 'inc': 0}
    fams = fams or rng.sample(FAMILIES, rng.choice([1, 2, 3, 4]))
    shape = shape or rng.choice(['flat', 'nested', 'override', 'override', 'override', 'deep', 'deep', 'nested', 'flat', 'override', 'conflict'])
    root_flag = (rng.random() < 0.8) if flag is None else flag
    tree = []

    def inc(body, set_=None, prefix=None):
        g['inc'] += 1
        n = {'incl': g['inc'], 'set': set_, 'body': body}
        if prefix:
            n['prefix'] = prefix
        return n
    legacy = False
    for fam in fams:
        if fam == 'set_authentication_policy':
            if 'set_security_policy' in fams:
                continue
            legacy = True
        key = rng.randrange(3)
        if same_as and fam in same_as:
            key = same_as[fam][0]
            s1 = mk_stmt(g, fam, _same_key(fam, copy.deepcopy(same_as[fam][1]), fam_args(rng, g, fam, key)))
        else:
            s1 = mk_stmt(g, fam, fam_args(rng, g, fam, key))
        if firsts is not None:
            firsts.setdefault(fam, (key, s1['stmt']['args']))
        if fam == 'add_view' and 'route_name' not in s1['stmt']['args'] and not (same_as and fam in same_as) and rng.random() < 0.5:
            # a view bound to a route of this program
            rk = rng.randrange(3)
            tree.append(mk_stmt(g, 'add_route', fam_args(rng, g, 'add_route', rk)))
            s1['stmt']['args']['route_name'] = 'route%d' % rk
        if fam == 'add_view' and rng.random() < 0.3:
            mp = _tag(g, 'cls')
            s1['stmt']['args']['mapper'] = {'mappercls': mp['cls']}
        if fam == 'add_view' and rng.random() < 0.25:
            tree.append(mk_stmt(g, 'add_view_deriver', {'deriver': _tag(g, 'deriver'), 'name': 'zderiver', 'under': None, 'over': None}))
            s1['stmt']['args']['zopt'] = 'zval%d' % g['n']
        if fam == 'add_view' and (s1['stmt']['args'].get('renderer') or '').endswith('.xyz') and rng.random() < 0.7:
            tree.append(mk_stmt(g, 'add_renderer', {'name': '.xyz', 'factory': _tag(g, 'fn')}))
        if shape == 'flat' or fam in NO_DISC:
            tree.append(s1)
            if fam in NO_DISC and shape != 'flat':
                tree.append(inc([mk_stmt(g, fam, fam_args(rng, g, fam, (key + 1) % 3))]))
        elif shape == 'nested':
            tree.append(inc([s1], prefix=('/pre%d' % g['inc']) if rng.random() < 0.3 else None))
        elif shape == 'override':
            # the shallower statement wins whatever the declaration order
            s2 = mk_stmt(g, fam, _same_key(fam, s1['stmt']['args'], fam_args(rng, g, fam, key)))
            if rng.random() < 0.5:
                tree += [s1, inc([s2])]
            else:
                tree += [inc([s2]), s1]
        elif shape == 'deep':
            s2 = mk_stmt(g, fam, _same_key(fam, s1['stmt']['args'], fam_args(rng, g, fam, key)))
            s3 = mk_stmt(g, fam, _same_key(fam, s1['stmt']['args'], fam_args(rng, g, fam, key)))
            tree.append(inc([s1, inc([s2, inc([s3])])]))
        elif shape == 'conflict':
            s2 = mk_stmt(g, fam, _same_key(fam, s1['stmt']['args'], fam_args(rng, g, fam, key)))
            tree += [inc([s1]), inc([s2])]
    if legacy:
        tree.append(mk_stmt(g, 'set_authorization_policy', {'policy': _tag(g, 'inst')}))
    # introspection flags: root, and now and then a nested configurator that switches
    if switches and rng.random() < 0.25:
        for n in tree:
            if 'incl' in n and rng.random() < 0.5:
                n['set'] = rng.random() < 0.5
    if rng.random() < 0.3:
        tree = [inc(tree)]
    return {'stream': 'cfg', 'introspection': root_flag, 'tree': tree}


POLICY_FAMS = ('set_security_policy', 'set_authentication_policy')


def gen_history(rng, flag=None):
    """a history of 2-3 commits on one configurator: later commits re-declare slots of earlier ones (same
    discriminating arguments, other values, other callables, other relation targets) and add new statements"""
    g = {'n': 0, 'sid': 0, 'inc': 0}
    root_flag = (rng.random() < 0.85) if flag is None else flag
    fams = rng.sample(FAMILIES, rng.choice([1, 2, 3]))
    if rng.random() < 0.5 and 'add_view' not in fams:
        fams.append('add_view')
    firsts = {}
    c1 = gen_cfg(rng, fams=fams, shape=rng.choice(['flat', 'nested', 'override']), flag=root_flag, g=g, firsts=firsts, switches=False)
    commits = [c1['tree']]
    for _ in range(rng.choice([1, 1, 2])):
        # (a second set_authentication_policy is refused by pyramid itself once the first installed its legacy policy)
        again = [f for f in firsts if rng.random() < 0.8 and f != 'set_authentication_policy']
        fresh = [f for f in rng.sample(FAMILIES, rng.choice([0, 1])) if f not in firsts and f not in POLICY_FAMS]
        fams2 = again + fresh
        if not fams2:
            fams2 = [f for f in firsts if f != 'set_authentication_policy'][:1] or ['add_permission']
        if any(f in POLICY_FAMS for f in firsts):
            fams2 = [f for f in fams2 if f not in POLICY_FAMS or f in firsts]
        c = gen_cfg(rng, fams=fams2, shape=rng.choice(['flat', 'nested', 'override']), flag=root_flag, g=g,
                    same_as=firsts, firsts=firsts, switches=False)
        commits.append(c['tree'])
    return {'stream': 'cfg', 'introspection': root_flag, 'commits': commits}


AUTO_FAMS = [f for f in FAMILIES if f not in POLICY_FAMS]


def gen_autocommit(rng, flag=None):
    """an autocommit configurator: every statement takes effect at once (one statement per step); later statements
    re-declare slots of earlier ones"""
    g = {'n': 0, 'sid': 0, 'inc': 0}
    root_flag = (rng.random() < 0.85) if flag is None else flag
    fams = rng.sample(AUTO_FAMS, rng.choice([1, 2, 3]))
    if rng.random() < 0.5 and 'add_view' not in fams:
        fams.append('add_view')
    firsts = {}
    steps = []
    for rnd in range(rng.choice([2, 2, 3])):
        for fam in (fams if rnd == 0 else [f for f in fams if rng.random() < 0.8]):
            c = gen_cfg(rng, fams=[fam], shape=rng.choice(['flat', 'flat', 'nested']), flag=root_flag, g=g,
                        same_as=firsts if rnd else None, firsts=firsts, switches=False)
            # one statement per step: helper statements (route, renderer, deriver of a view) come first
            for node in c['tree']:
                steps.append([node])
    return {'stream': 'cfg', 'introspection': root_flag, 'autocommit': True, 'commits': steps}


DISC_ARGS = {'add_route': ['name'], 'add_view': ['name', 'context', 'for_', 'route_name', 'request_method', 'request_param', 'containment',
                                                  'xhr', 'accept', 'header', 'path_info', 'match_param', 'attr'],
             'add_renderer': ['name'], 'add_request_method': ['name'], 'add_response_adapter': ['type_or_iface'],
             'add_traverser': ['iface'], 'add_resource_url_adapter': ['resource_iface'], 'add_tween': ['tween_factory'],
             'add_view_deriver': ['name'], 'add_view_predicate': ['name'], 'add_route_predicate': ['name'],
             'add_subscriber_predicate': ['name'], 'add_accept_view_order': ['value']}


def _same_key(fam, a1, a2):
    """give a2 the discriminating arguments of a1"""
    for k in DISC_ARGS.get(fam, []):
        if k in a1:
            a2[k] = a1[k]
        else:
            a2.pop(k, None)
    if fam == 'add_view':
        # same view callable is not required for a conflict; keep class views consistent with attr
        if 'attr' in a2:
            a2['view'] = a1['view']
        elif isinstance(a2.get('view'), dict) and 'viewcls' in a2['view']:
            a2['view'] = {'view': a2['view']['viewcls']}
        if a2.get('view') is None and not a2.get('renderer'):
            a2['view'] = {'view': 'viewX'}
        if fam == 'add_view' and a2.get('name') is None:
            a2['name'] = a1.get('name')
    if fam == 'add_view_deriver' and a2.get('name') is None:
        a2['name'] = 'deriverX'
        a1['name'] = 'deriverX'
    return a2


# ---- running a program on the real Configurator -----------------------------------------------------------

class MapperBase:
    def __init__(self, **kw):
        self.kw = kw

    def __call__(self, view):
        return view


def _mk_mapper(tag):
    return type(str(tag), (MapperBase,), {})


def build_args(st, objs):
    pos, kw = [], {}
    for k, v in st['args'].items():
        if isinstance(v, dict) and 'mappercls' in v:
            key = ('mappercls', v['mappercls'])
            if key not in objs.d:
                objs.d[key] = _mk_mapper(v['mappercls'])
            val = objs.d[key]
        else:
            val = objs.get(v)
        if k == '*':
            pos = [objs.get(x) for x in v]
        elif val is None and k not in ('iface', 'resource_iface', 'under', 'over', 'name', 'weighs_more_than', 'weighs_less_than', 'callback', 'factory'):
            continue            # leave the option at its default
        else:
            kw[k] = val
    return pos, kw


def full_args(dirname, pos, kw):
    """the values the statement was given, defaults included, keyed by parameter name"""
    sig = inspect.signature(getattr(Configurator, dirname))
    ba = sig.bind(None, *pos, **kw)
    ba.apply_defaults()
    a = dict(ba.arguments)
    a.pop('self', None)
    for p in sig.parameters.values():
        if p.kind == p.VAR_KEYWORD:
            extra = a.pop(p.name, {})
            a['**' + p.name] = extra
            if dirname == 'add_static_view':
                a.update(extra)
    return a


def snapshot(introspector):
    cats = {}
    for name, d in introspector._categories.items():
        cats[name] = sorted(set(d.values()), key=lambda i: i.order)
    refs = [(k, list(v)) for k, v in introspector._refs.items()]
    return {'cats': cats, 'refs': refs, 'counter': introspector._counter}


def safe_undefer(d):
    try:
        return undefer(d)
    except Exception as e:
        return ('undefer-raised', type(e).__name__, id(d))


class Canon:
    """numbers for category names (sorted order), discriminators (python ==/hash) and contents (dict ==)"""

    def __init__(self):
        self.catnames, self.discs, self.vals = set(), {}, []

    def note_cat(self, name):
        self.catnames.add(name)

    def freeze(self):
        self.cat_id = {n: i for i, n in enumerate(sorted(self.catnames))}

    def disc(self, d):
        try:
            return self.discs.setdefault(d, len(self.discs))
        except TypeError:
            return self.discs.setdefault(('unhashable', repr(d)), len(self.discs))

    def val(self, intr):
        content = dict(intr)
        for i, rep in enumerate(self.vals):
            try:
                if rep == content:
                    return i
            except Exception:
                pass
        self.vals.append(content)
        return len(self.vals) - 1

    def obj(self, intr):
        return [self.cat_id[intr.category_name], self.disc(safe_undefer(intr.discriminator)), self.val(intr)]


def case_trees(case):
    """the commits of a case: `commits` (a history) or the single `tree`"""
    return case['commits'] if 'commits' in case else [case['tree']]


class RecConfigurator(Configurator):
    """records what every directive hands to `action()` (needed for autocommit configurators, whose actions never
    reach `ActionState.actions`); `include` builds nested configurators with `self.__class__`, so they record too"""

    def action(self, discriminator, callable=None, args=(), kw=None, order=0, introspectables=(), **extra):
        rec = getattr(self.registry, '_c20_rec', None)
        if rec is not None and self.autocommit:
            rec.append({'discriminator': discriminator, 'order': order, 'includepath': self.includepath,
                        'info': self.action_info, 'introspectables': introspectables if self.introspection else ()})
        return Configurator.action(self, discriminator, callable, args, kw, order, introspectables, **extra)


def run_history(case, force_on=False, after_commit=None):
    """declare every commit of the case on one real Configurator and commit it; `after_commit(real_k)` is called
    right after each commit (the property oracle looks at the live introspector).  -> [real_k]"""
    objs = _Objs()
    flag = True if force_on else bool(case['introspection'])
    auto = bool(case.get('autocommit'))
    config = RecConfigurator(introspection=flag, autocommit=auto, package=sys.modules[__name__])
    config.registry._c20_rec = rec = []
    introspector = config.introspector
    base0 = snapshot(introspector)
    all_actions = []
    out = []
    prior_renderers = set()
    for k, tree_k in enumerate(case_trees(case)):
        astate = config.action_state
        first = len(all_actions)
        stmts, order = {}, []

        def npending():
            return first + (len(rec) - first if auto else len(astate.actions))

        def declare(cfg, nodes, env, expflag=flag):
            for n in nodes:
                if 'stmt' in n:
                    st = n['stmt']
                    pos, kw = build_args(st, objs)
                    a0 = npending()
                    code = compile('getattr(cfg, name)(*pos, **kw)', '<c20-stmt-%d>' % st['id'], 'exec')
                    exec(code, {'cfg': cfg, 'name': st['dir'], 'pos': pos, 'kw': kw})
                    # 'flag': what the program asks for (root flag, inherited through include unless the included
                    # callable sets it) — not what the configurator object happens to carry
                    stmts[st['id']] = {'st': st, 'range': (a0, npending()), 'flag': bool(expflag), 'cfgflag': bool(cfg.introspection),
                                       'path': tuple(cfg.includepath), 'env': dict(env), 'pos': pos, 'kw': kw}
                    order.append(st['id'])
                else:
                    def inc(c, n=n, env=env, expflag=expflag):
                        if n.get('set') is not None and not force_on:
                            c.introspection = n['set']
                            expflag = n['set']
                        env2 = dict(env)
                        env2['route_prefix'] = c.route_prefix
                        declare(c, n['body'], env2, expflag)
                    inc.__name__ = inc.__qualname__ = 'inc_%03d' % n['incl']
                    inc.__module__ = __name__
                    cfg.include(inc, route_prefix=n.get('prefix'))
        res = {'outcome': 'ok', 'objs': objs, 'config': config, 'base': snapshot(introspector), 'base0': base0,
               'stmts': stmts, 'order': order, 'first': first, 'k': k, 'auto': auto, 'prior_renderers': set(prior_renderers)}
        out.append(res)

        def pend():
            return list(rec[first:]) if auto else list(astate.actions)
        try:
            declare(config, tree_k, {'route_prefix': None})
        except KeyError as e:
            res['outcome'] = 'KeyError' if auto else 'declare-raised:KeyError:%s' % str(e)[:200]
            res['detail'] = repr(e)
        except ConfigurationExecutionError as e:
            res['outcome'] = 'raised:ConfigurationExecutionError:%s:%s' % (getattr(e.etype, '__name__', e.etype), str(e.evalue)[:200])
        except Exception as e:
            res['outcome'] = 'declare-raised:%s:%s' % (type(e).__name__, str(e)[:200])
        all_actions += pend()
        res['actions'] = all_actions
        if res['outcome'] == 'ok':
            try:
                config.commit()
            except ConfigurationConflictError as e:
                res['outcome'] = 'conflict'
                res['conflict_keys'] = list(e._conflicts.keys())
            except ConfigurationExecutionError as e:
                res['outcome'] = 'raised:ConfigurationExecutionError:%s:%s' % (getattr(e.etype, '__name__', e.etype), str(e.evalue)[:200])
            except KeyError as e:
                res['outcome'] = 'KeyError'
                res['detail'] = repr(e)
            except Exception as e:
                res['outcome'] = 'raised:%s:%s' % (type(e).__name__, str(e)[:200])
        res['end'] = len(all_actions)
        if res['outcome'] == 'ok':
            res['raw'] = [(name, [(x['introspectable'], list(x['related'])) for x in lst]) for name, lst in introspector.categorized()]
        if after_commit is not None:
            after_commit(res)
        if res['outcome'] != 'ok':
            break
        for sid in order:
            st = stmts[sid]
            if st['st']['dir'] == 'add_renderer' and st['flag']:
                prior_renderers.add(st['kw'].get('name') or '')
    return out


def _path_ids(includepath):
    return [int(s.rsplit('_', 1)[1]) for s in includepath]


def needs_shadow(case):
    if not case['introspection']:
        return True

    def walk(nodes):
        for n in nodes:
            if 'incl' in n:
                if n.get('set') is not None:
                    return True
                if walk(n['body']):
                    return True
        return False
    return any(walk(t) for t in case_trees(case))


def abstract(case, reals, shadows):
    """-> (model input, canon, act_stmt) from the pending actions of the real run (every commit); the introspectables
    a directive *built* are taken from the shadow run (same history, introspection forced on everywhere) when some
    configurator of the real run has introspection off"""
    real_actions = reals[-1]['actions']
    src_actions = shadows[-1]['actions'] if shadows is not None else real_actions
    canon = Canon()
    for name in reals[0]['base0']['cats']:
        canon.note_cat(name)
    for name in reals[0]['config'].introspector._categories:
        canon.note_cat(name)
    for a in src_actions + real_actions:
        for i in a.get('introspectables', ()):
            canon.note_cat(i.category_name)
            for _, cn, _ in i._relations:
                canon.note_cat(cn)
    canon.freeze()
    # base state (what the constructor's own commit registered)
    b0 = reals[0]['base0']
    cats = []
    for name, lst in b0['cats'].items():
        cats.append([canon.cat_id[name], [[canon.disc(i.discriminator), canon.val(i), BASE_INFO, i.order] for i in lst]])
    refs = [[canon.obj(k), [canon.obj(x) for x in v]] for k, v in b0['refs']]
    base = {'cats': cats, 'refs': refs, 'counter': b0['counter']}
    if len(src_actions) < len(real_actions):
        raise RuntimeError('shadow run declared %d actions, real run %d' % (len(src_actions), len(real_actions)))
    act_stmt = {}
    for real in reals:
        for sid, info in real['stmts'].items():
            for k in range(*info['range']):
                act_stmt[k] = sid

    def decl(i):
        rels = []
        for rel, cn, d in i._relations:
            rels.append([1 if rel else 0, canon.cat_id[cn], canon.disc(safe_undefer(d))])
        return {'obj': canon.obj(i), 'rels': rels}

    def acts_of(real, sid):
        out = []
        for k in range(*real['stmts'][sid]['range']):
            a = real_actions[k]
            d = safe_undefer(a['discriminator'])
            out.append({'act': {'id': k, 'disc': None if d is None else canon.disc(('action', d)),
                                'order': a['order'] or 0,
                                'intrs': [decl(i) for i in (a.get('introspectables', ()) or src_actions[k].get('introspectables', ()))]}})
        return out

    def tree(real, nodes):
        out = []
        for n in nodes:
            if 'stmt' in n:
                if n['stmt']['id'] in real['stmts']:
                    out += acts_of(real, n['stmt']['id'])
            else:
                out.append({'incl': n['incl'], 'set': n.get('set'), 'body': tree(real, n['body'])})
        return out
    commits = [{'auto': bool(real['auto']), 'tree': tree(real, t)} for real, t in zip(reals, case_trees(case))]
    minput = {'op': 'history', 'base': base, 'flag': bool(case['introspection']), 'forwards': True, 'commits': commits}
    return minput, canon, act_stmt


def real_view(real, canon, act_stmt):
    """`introspector.categorized()` as it was right after the commit, in model numbers; info = declaring statement"""
    info_of = {}
    for k, a in enumerate(real['actions']):
        info_of[id(a['info'])] = act_stmt.get(k, -1)
    out = []
    base_objs = {id(i) for lst in real['base0']['cats'].values() for i in lst}
    for name, lst in real['raw']:
        row = []
        for i, rel in lst:
            info = BASE_INFO if id(i) in base_objs else info_of.get(id(i.action_info), -2)
            row.append([canon.disc(i.discriminator), canon.val(i), info, [canon.obj(y) for y in rel]])
        out.append([canon.cat_id.get(name, -1), row])
    return out


# ---- the property oracle on one committed program ----------------------------------------------------------

def _winner_map(real):
    """statement id -> True (took effect) / False (overridden): the C04 rule stated directly on the observed
    discriminators and include paths.  None when the program has a genuine conflict."""
    if real.get('auto'):
        # autocommit: no conflict resolution, every statement takes effect at once
        return {sid: True for sid in real['stmts']}
    groups = {}
    for k, a in enumerate(real['actions']):
        if k < real.get('first', 0):
            continue
        try:
            d = undefer(a['discriminator'])
        except Exception:
            return None
        if d is None:
            continue
        groups.setdefault((a['order'] or 0, d), []).append(k)
    # across orders the same discriminator may recur; the first order executed wins, later ones must lie below
    lost = set()
    bydisc = {}
    for (o, d), ks in groups.items():
        bydisc.setdefault(d, []).append((o, ks))
    for d, lst in bydisc.items():
        lst.sort(key=lambda t: t[0])
        win = None
        for o, ks in lst:
            paths = {k: tuple(real['actions'][k]['includepath']) for k in ks}
            if win is None:
                cands = [k for k in ks if all(k == j or (paths[j][:len(paths[k])] == paths[k] and paths[j] != paths[k]) for j in ks)]
                if len(cands) != 1:
                    return None
                win = cands[0]
                lost.update(k for k in ks if k != win)
            else:
                wp = tuple(real['actions'][win]['includepath'])
                for k in ks:
                    if not (paths[k][:len(wp)] == wp and paths[k] != wp):
                        return None
                lost.update(ks)
    eff = {}
    for sid, info in real['stmts'].items():
        ks = list(range(*info['range']))
        eff[sid] = not any(k in lost for k in ks)
    return eff


def _tagged(i):
    f = getattr(i.action_info, 'file', None)
    if isinstance(f, str) and f.startswith('<c20-stmt-') and f.endswith('>') and getattr(i.action_info, 'line', None) == 1:
        return int(f[len('<c20-stmt-'):-1])
    return None


def _same(got, exp):
    """recorded value vs expected: identity for sentinel objects, equality (and same type) for plain data"""
    if exp is None or isinstance(exp, bool):
        return got is exp
    if isinstance(exp, (str, int, float, tuple, list, dict)):
        return type(got) == type(exp) and got == exp
    return got is exp


def oracle_cfg(case, real):
    """-> list of (detail, finding-or-None)"""
    out = []
    if real['outcome'].startswith('declare-raised') or real['outcome'].startswith('raised'):
        return [('the program could not be declared/committed: %s' % real['outcome'], None)]
    eff = _winner_map(real)
    if real['outcome'] == 'conflict':
        if eff is None:
            return []
        return [('commit raised a conflict for %r but every contested discriminator has a unique shallowest statement' % (real.get('conflict_keys'),), None)]
    if real['outcome'] == 'KeyError':
        flags = {s_['flag'] for s_ in real['stmts'].values()}
        if len(flags) > 1:
            # mixed flags inside one registry (an included callable switched `config.introspection` itself): an
            # introspectable recorded on one configurator relates to a slot whose statement was declared with
            # introspection off.  The property does not speak about this set-up; the model predicts the KeyError
            # (correspondence), the oracle does not count it.  (Observation O-1 in notes/C20.md.)
            return []
        return [('commit failed with KeyError %s while registering introspectables (an introspectable related to a slot that is not there)' % real.get('detail'), None)]
    if eff is None:
        return [('commit succeeded although two statements at unrelated include paths share a discriminator', None)]
    I = real['config'].introspector
    objs = real['objs']
    base_objs = {id(i) for lst in real['base']['cats'].values() for i in lst}
    live = [x['introspectable'] for _, lst in I.categorized() for x in lst if id(x['introspectable']) not in base_objs]
    by_stmt = {}
    for i in live:
        by_stmt.setdefault(_tagged(i), []).append(i)
    renderer_factories = {}
    for sid in real['order']:
        st = real['stmts'][sid]
        if st['st']['dir'] == 'add_renderer' and eff[sid] and st['flag']:
            renderer_factories[st['kw'].get('name') or ''] = sid
    for sid in real['order']:
        info = real['stmts'][sid]
        st = info['st']
        d = st['dir']
        slice_name, fixed = PUBLIC.get(d, (d, {}))
        a = full_args(d, info['pos'], info['kw'])
        a.update(fixed)
        if d == 'add_static_view':
            a.setdefault('path', info['kw'].get('path'))
        owned = by_stmt.get(sid, [])
        where = 'statement %d %s(%s)' % (sid, d, ', '.join('%s=%r' % kv for kv in sorted(st['args'].items(), key=str)))
        if not info['flag']:
            # introspection disabled on the declaring configurator: nothing of this statement is recorded
            leaked = owned + [i for i in by_stmt.get(None, []) if _owner_untagged(i, real) == sid]
            if leaked:
                out.append(('%s was declared on a configurator with introspection off but recorded %s' % (
                    where, [(i.category_name, repr(i.discriminator)[:60]) for i in leaked]), None))
            continue
        if not eff[sid]:
            if owned:
                out.append(('%s was overridden through conflict resolution but owns entries %s' % (
                    where, [(i.category_name, repr(i.discriminator)[:60]) for i in owned]), None))
            continue
        exp_list = expected_entries(slice_name, d, a, info, objs, renderer_factories)
        for exp in exp_list:
            cat_doc, cat_src = exp['doc'], exp['src']
            cands = [i for i in owned if i.category_name in (cat_doc, cat_src)]
            if not cands and 'discr' in exp:
                # the slot is filled but the entry is not attributed to the statement: its action_info names
                # something else (every statement is compiled under its own file name, line 1)
                got = I.get(cat_src, exp['discr'])
                if got is not None and id(got) not in base_objs and _tagged(got) is None and _owner_untagged(got, real) == sid:
                    ai = got.action_info
                    out.append(('%s: the entry (%s, %r) has action_info file=%r line=%r function=%r, which does not point at the statement'
                                % (where, cat_src, exp.get('discr'), getattr(ai, 'file', None), getattr(ai, 'line', None), getattr(ai, 'function', None)), None))
                    cands = [got]
            if 'discr' in exp:
                cands = [i for i in cands if i.discriminator == exp['discr']]
            if exp.get('multi'):
                pass
            if not cands:
                out.append(('%s took effect but no entry of it is in category %r%s' % (
                    where, cat_doc, (' with discriminator %r' % (exp['discr'],)) if 'discr' in exp else ''), None))
                continue
            i = cands[0]
            if i.category_name != cat_doc:
                out.append(('%s: the entry is filed under category %r, the documented category is %r' % (where, i.category_name, cat_doc), None))
            elif cat_doc in DOCUMENTED_FAMILY_CATEGORIES and cat_doc not in live_doc_categories():
                # the chapter read from the tree under test (docs/narr/introspector.rst), not a frozen copy
                out.append(('%s: the entry is filed under category %r, which docs/narr/introspector.rst does not document (its headings: %s)'
                            % (where, i.category_name, sorted(live_doc_categories())), None))
            if 'title' in exp and i.title != exp['title']:
                out.append(('%s: entry (%s, %r) records title %r, the value given at the same argument position is %r'
                            % (where, i.category_name, exp.get('discr'), i.title, exp['title']), None))
            if 'type_name' in exp and i.type_name != exp['type_name']:
                out.append(('%s: entry (%s, %r) records type_name %r, expected %r' % (where, i.category_name, exp.get('discr'), i.type_name, exp['type_name']), None))
            if 'position' in exp:
                mine = sorted([x for x in owned if x.category_name == i.category_name], key=lambda x: x.order)
                if exp['position'] >= len(mine) or mine[exp['position']] is not i:
                    out.append(('%s: the entries of this call are not listed in argument order: position %d of %r holds %r'
                                % (where, exp['position'], i.category_name, [x.discriminator for x in mine]), None))
            if I.get(i.category_name, i.discriminator) is not i:
                out.append(('%s: introspector.get(%r, …) does not return the statement\'s entry' % (where, i.category_name), None))
            for key, want in exp['keys'].items():
                if key not in i:
                    out.append(('%s: entry in %r lacks key %r' % (where, i.category_name, key), None))
                    continue
                got = i[key]
                ok = want(got) if callable(want) and getattr(want, '_chk', False) else any(_same(got, w) for w in want)
                if not ok:
                    out.append(('%s: entry in %r records %s=%r, the statement was given %r' % (
                        where, i.category_name, key, got, None if getattr(want, '_chk', False) else want[0]), None))
            extra = set(i.keys()) - set(exp['keys'])
            if extra and not exp.get('open'):
                out.append(('%s: entry in %r has keys %s that no parameter accounts for' % (where, i.category_name, sorted(extra)), None))
            for (c2, d2) in exp.get('rel', []):
                other = I.get(c2, d2)
                if other is None:
                    out.append(('%s: expected relation to (%r, %r) but that entry does not exist' % (where, c2, d2), None))
                    continue
                if not any(o is other for o in I.related(i)) or not any(o is i for o in I.related(other)):
                    out.append(('%s: entry (%s) and (%r, %r) are not related both ways' % (where, i.category_name, c2, d2), None))
            if exp.get('norel') is not None:
                for o in I.related(i):
                    if (o.category_name, ) in exp['norel']:
                        out.append(('%s: unexpected relation to %s' % (where, o.category_name), None))
    return out


def _owner_untagged(i, real):
    for k, a in enumerate(real['actions']):
        if a['info'] is i.action_info:
            for sid, info in real['stmts'].items():
                if info['range'][0] <= k < info['range'][1]:
                    return sid
    return None


def _chk(fn):
    fn._chk = True
    return fn


def expected_entries(slice_name, d, a, info, objs, renderer_factories):
    """what the statement must have recorded: list of {doc, src, discr?, keys{key: [accepted values] | check}, rel}"""
    env = info['env']
    spec = PY_SPEC[slice_name]
    out = []

    def keys_of(var, skip=()):
        ks = {}
        for key, shp in spec[var][2].items():
            if key in skip:
                continue
            kind = shp[0]
            if kind == 'param':
                ks[key] = [a[shp[1]]]
            elif kind == 'resolved':
                v = a[shp[1]]
                ks[key] = [v, dotted_target] if v == 'harness_c20.dotted_target' else [v]
                if isinstance(v, str) and v.startswith('harness_c20.tween_'):
                    ks[key] = [getattr(sys.modules[__name__], v.split('.')[1])]
            elif kind == 'const':
                ks[key] = [shp[1]]
            elif kind == 'const2':
                ks[key] = [shp[1](a, env)]
            elif kind == 'derived':
                v = shp[2](a, env)
                if isinstance(v, tuple) and len(v) == 2 and v[0] == 'helper':
                    ks[key] = _chk(lambda got, name=v[1]: getattr(got, 'name', None) == name)
                elif isinstance(v, tuple) and len(v) == 2 and v[0] == 'anycallable':
                    ks[key] = _chk(lambda got: callable(got))
                elif isinstance(v, tuple) and len(v) == 2 and v[0] == 'prop':
                    ks[key] = _chk(lambda got, r=v[1]['reify']: type(got).__name__ == ('reify' if r else 'SettableProperty'))
                elif v == 'harness_c20.dotted_target':
                    ks[key] = [v, dotted_target]
                else:
                    ks[key] = [v]
            elif kind == 'computed':
                ks[key] = _chk(lambda got, f=shp[2]: bool(f(got, a, env)))
            elif kind == 'extra':
                for k2, v2 in a.get('**' + shp[1], {}).items():
                    ks[k2] = [v2]
        return ks
    if slice_name == 'add_route':
        k = keys_of('intr')
        pat = a['pattern'] if a['pattern'] is not None else a['path']
        external = '://' in pat
        if external:
            from urllib.parse import urlparse
            k['pattern'] = [urlparse(pat).path]
            k['static'] = [True]
            k['pregenerator'] = _chk(lambda got: callable(got) and got is not a['pregenerator'])
            k['object'] = _chk(lambda got: getattr(got, 'name', None) == a['name'])
        if not (external or a['static'] is True):
            k.pop('external_url')
        out.append({'doc': 'routes', 'src': 'routes', 'discr': a['name'], 'keys': k})
        if a['factory']:
            out.append({'doc': 'root factories', 'src': 'root factories', 'discr': a['name'], 'keys': keys_of('factory_intr'),
                        'rel': [('routes', a['name'])]})
        return out
    if slice_name == 'add_view':
        k = keys_of('view_intr')
        if not isinstance(a['renderer'], str):
            pass
        rel = []
        if a['route_name']:
            rel.append(('routes', a['route_name']))
        if a['permission'] is not None:
            rel.append(('permissions', a['permission']))
        out.append({'doc': 'views', 'src': 'views', 'keys': k, 'rel': rel, 'view': True})
        return out       # the satellites are checked by expected_view_satellites (they need the view's discriminator)
    if slice_name == 'add_translation_dirs':
        from pyramid.path import AssetResolver
        for sp in info['pos']:
            sp2 = sp if sp.endswith('/') else sp + '/'
            directory = AssetResolver('harness_c20').resolve(sp2).abspath()
            # every value of one entry comes from the same argument position
            out.append({'doc': 'translation directories', 'src': 'translation directories', 'discr': directory,
                        'keys': {'directory': [directory], 'spec': [sp2]}, 'title': sp2, 'type_name': 'translation directory',
                        'position': len(out)})
        return out
    for var, (doc, src, _) in spec.items():
        e = {'doc': doc, 'src': src, 'keys': keys_of(var)}
        if slice_name == '_add_predicate':
            e['doc'] = e['src'] = '%s predicates' % a['type']
            e['discr'] = ('%s option' % a['type'], a['name'])
        elif slice_name == 'add_response_adapter':
            from pyramid.interfaces import IResponse
            e['discr'] = (IResponse, a['type_or_iface'])
        elif slice_name == 'add_traverser':
            e['discr'] = ('traverser', a['iface'])
        elif slice_name == 'add_resource_url_adapter':
            e['discr'] = ('resource url adapter', a['resource_iface'])
        elif slice_name == '_add_tween':
            e['discr'] = ('tween', a['tween_factory'], False)
        elif slice_name == 'add_renderer':
            e['discr'] = a['name'] or ''
        elif slice_name == 'add_request_method':
            e['discr'] = a['name']
        elif slice_name == 'add_permission':
            e['discr'] = a['permission_name']
        elif slice_name == 'set_default_permission':
            e['discr'] = None if var == 'intr' else a['permission']
        elif slice_name == 'add_view_deriver':
            e['discr'] = a['name'] if a['name'] is not None else a['deriver'].__name__
        elif slice_name == 'add':
            e['discr'] = _slash(a['name'])
        elif slice_name == 'add_cache_buster':
            e['discr'] = _slash(a['path'])
        elif slice_name == 'add_accept_view_order':
            e['discr'] = norm_accept(a['value'])
        elif slice_name == 'set_view_mapper':
            from pyramid.interfaces import IViewMapperFactory
            e['discr'] = IViewMapperFactory
        elif slice_name == 'add_subscriber':
            e['discr'] = id(a['subscriber'])
        elif slice_name == 'override_asset':
            pass
        else:
            e['discr'] = None
        out.append(e)
        if slice_name == 'add':
            # the same call also declares the route and the view that serve the files: all three entries must
            # describe the same name
            nm = _slash(a['name'])
            pre = env.get('route_prefix')
            rname = ('__%s/%s' % (pre, nm)) if pre else '__%s' % nm
            pat = '%s*subpath' % nm
            if pre:
                pat = pre.rstrip('/') + '/' + pat.lstrip('/')
            out.append({'doc': 'routes', 'src': 'routes', 'discr': rname, 'keys': {'name': [rname], 'pattern': [pat]}, 'open': True})
            out.append({'doc': 'views', 'src': 'views', 'keys': {'route_name': [rname], 'name': ['']}, 'open': True,
                        'rel': [('routes', rname)]})
    return out


def oracle_view_satellites(real, eff):
    """mapper / template / permission introspectables of the views that took effect, and their relations"""
    out = []
    I = real['config'].introspector
    base_objs = {id(i) for lst in real['base']['cats'].values() for i in lst}
    renderer_factories = set(real.get('prior_renderers', ()))
    for sid in real['order']:
        st = real['stmts'][sid]
        if st['st']['dir'] == 'add_renderer' and eff[sid] and st['flag']:
            renderer_factories.add(st['kw'].get('name') or '')
    for sid in real['order']:
        info = real['stmts'][sid]
        if info['st']['dir'] != 'add_view' or not eff[sid] or not info['flag']:
            continue
        a = full_args('add_view', info['pos'], info['kw'])
        views = [x['introspectable'] for x in (I.get_category('views') or []) if _tagged(x['introspectable']) == sid]
        if len(views) != 1:
            continue      # reported by oracle_cfg
        v = views[0]
        where = 'statement %d add_view' % sid
        rel_v = I.related(v)
        want = []
        if a['mapper']:
            want.append(('view mappers', {'mapper': a['mapper']}, []))
        if isinstance(a['renderer'], str) and '.' in a['renderer']:
            ext = os.path.splitext(a['renderer'])[1]
            want.append(('templates', {'name': a['renderer'], 'type': ext}, [('renderer factories', ext)] if ext in renderer_factories else []))
        for cat, keys, more in want:
            s = I.get(cat, v.discriminator)
            if s is None or _tagged(s) != sid:
                out.append(('%s took effect but has no entry in %r under the view\'s discriminator' % (where, cat), None))
                continue
            for k, w in keys.items():
                if not (k in s and (s[k] is w or s[k] == w)):
                    out.append(('%s: its %r entry records %s=%r, expected %r' % (where, cat, k, s.get(k), w), None))
            if cat == 'templates' and getattr(s.get('renderer'), 'name', None) != a['renderer']:
                out.append(('%s: its template entry records renderer %r' % (where, s.get('renderer')), None))
            if not any(o is v for o in I.related(s)) or not any(o is s for o in rel_v):
                out.append(('%s: its %r entry and the view entry are not related both ways' % (where, cat), None))
            for c2, d2 in more:
                o2 = I.get(c2, d2)
                if o2 is None or not any(o is o2 for o in I.related(s)) or not any(o is s for o in I.related(o2)):
                    out.append(('%s: its template entry is not related both ways to (%r, %r)' % (where, c2, d2), None))
        # nothing else may be related to the view
        allowed = {('routes', a['route_name'])} if a['route_name'] else set()
        if a['permission'] is not None:
            allowed.add(('permissions', a['permission']))
        if a['mapper']:
            allowed.add(('view mappers', v.discriminator))
        if isinstance(a['renderer'], str) and '.' in a['renderer']:
            allowed.add(('templates', v.discriminator))
        for o in rel_v:
            if (o.category_name, o.discriminator) not in allowed:
                out.append(('%s: the view entry is related to (%r, %r), which the statement did not ask for' % (
                    where, o.category_name, repr(o.discriminator)[:80]), None))
    return out


# =====================================================================================================
#  one case through implementation, model and oracle
# =====================================================================================================

def _oracle_commit(case, real):
    try:
        v = oracle_cfg(case, real)
        if real['outcome'] == 'ok':
            eff = _winner_map(real)
            if eff is not None:
                v += oracle_view_satellites(real, eff)
                # with introspection off everywhere nothing at all may be recorded
                if all(not s['flag'] for s in real['stmts'].values()) and real['stmts']:
                    now = snapshot(real['config'].introspector)
                    if {k: [id(x) for x in l] for k, l in now['cats'].items() if l} != {k: [id(x) for x in l] for k, l in real['base']['cats'].items() if l}:
                        v.append(('introspection is off on every configurator, yet the introspector changed during commit', None))
    except Exception:
        import traceback
        v = [('oracle crashed: %s' % traceback.format_exc()[-600:], None)]
    if len(case_trees(case)) > 1 or case.get('autocommit'):
        v = [('commit %d: %s' % (real['k'] + 1, d), f) for d, f in v]
    return v


def prep_cfg(case, want_model=True):
    """run the implementation and the oracle (after every commit); prepare the model input (`minput`) and what its
    reply is compared with"""
    viol = []
    reals = run_history(case, after_commit=lambda real: viol.extend(_oracle_commit(case, real)))
    last = reals[-1]
    res = {'impl': {'outcome': last['outcome'], 'outcomes': [r['outcome'] for r in reals]}, 'model': None, 'mismatch': None,
           'violations': viol, 'minput': None}
    res['impl']['effective'] = [sorted(k for k, x in (_winner_map(r) or {}).items() if x) if r['outcome'] == 'ok' else None for r in reals]
    res['nontrivial'] = any(nontrivial_cfg(case, r) for r in reals) or len(reals) > 1
    res['dist'] = {'outcome': last['outcome'].split(':')[0], 'stmts': sum(len(r['stmts']) for r in reals)}
    if not want_model or last['outcome'].startswith('declare-raised'):
        return res
    try:
        shadows = run_history(case, force_on=True) if needs_shadow(case) else None
        minput, canon, act_stmt = abstract(case, reals, shadows)
        res['minput'] = minput
        res['act_stmt'] = act_stmt
        res['real_pend'] = [[[k, _path_ids(a['includepath']), len(a.get('introspectables', ()))]
                             for k, a in enumerate(r['actions'][:r['end']]) if k >= r['first']] for r in reals]
        res['rv'] = [real_view(r, canon, act_stmt) if r['outcome'] == 'ok' else None for r in reals]
    except Exception:
        import traceback
        res['mismatch'] = 'harness error: %s' % traceback.format_exc()[-500:]
    return res


def finish_cfg(res, rep):
    """compare the model's reply with what the implementation did, commit by commit"""
    if res.get('minput') is None:
        return res
    res.pop('minput')
    act_stmt, real_pends, rvs = res.pop('act_stmt'), res.pop('real_pend'), res.pop('rv')
    outcomes = res['impl']['outcomes']
    if 'error' in rep:
        res['mismatch'] = 'driver error: %s' % rep['error']
        return res
    reps = rep.get('commits', [])
    res['model'] = [{k: r.get(k) for k in ('outcome', 'reg', 'executed')} for r in reps]
    if len(reps) != len(outcomes):
        res['mismatch'] = 'impl went through %d commits (%s), model through %d' % (len(outcomes), outcomes, len(reps))
        return res
    for n, (outcome, real_pend, rv, rp) in enumerate(zip(outcomes, real_pends, rvs, reps)):
        tag = 'commit %d: ' % (n + 1)
        model_pend = sorted(rp['pending'])
        if outcome != 'ok':
            # a commit that raised: the number of introspectables of an action is only comparable once the action has
            # run (add_translation_dirs fills its list inside the callable; an aborted commit leaves it empty while the
            # declaration taken from the shadow run has them) — compare ids and include paths only
            real_pend = [p[:2] for p in real_pend]
            model_pend = sorted(p[:2] for p in model_pend)
        if sorted(real_pend) != model_pend:
            res['mismatch'] = tag + 'pending actions differ (id, include path, number of introspectables): impl %s model %s' % (
                [p for p in sorted(real_pend) if p not in model_pend][:4], [p for p in model_pend if p not in real_pend][:4])
            return res
        if outcome == 'ok':
            if rp['outcome'] != 'ok' or rp['reg'] != 'ok':
                res['mismatch'] = tag + 'impl committed, model says %s / %s' % (rp['outcome'], rp['reg'])
                return res
            # empty categories are dropped on both sides: add_view's callable asks `introspector.get('renderer factories', …)`,
            # whose setdefault creates that category as a side effect of an action callable (not modelled here; the
            # side effect of `get` itself is compared in the ops stream)
            mv = [[c, [[d, v, (act_stmt.get(i, -1) if i != BASE_INFO else BASE_INFO), r] for d, v, i, r in rows]] for c, rows in rp['state'] if rows]
            rv = [x for x in rv if x[1]]
            if mv != rv:
                res['mismatch'] = tag + 'introspector state differs: first difference %s' % _first_diff(rv, mv)
                return res
        elif outcome == 'conflict':
            if not isinstance(rp['outcome'], dict) or 'conflict' not in rp['outcome']:
                res['mismatch'] = tag + 'impl raised a conflict, model says %s' % (rp['outcome'],)
                return res
        elif outcome == 'KeyError':
            if rp['outcome'] != 'ok' or rp['reg'] != {'err': 'KeyError'}:
                res['mismatch'] = tag + 'impl raised KeyError while registering, model says %s / %s' % (rp['outcome'], rp['reg'])
                return res
        # execution errors of action callables are outside the model (reported by the oracle)
    return res


def _first_diff(a, b):
    for x, y in zip(a, b):
        if x != y:
            if x[0] != y[0]:
                return 'category impl %s model %s' % (x[0], y[0])
            for p, q in zip(x[1], y[1]):
                if p != q:
                    return 'category %s: impl %s model %s' % (x[0], p, q)
            return 'category %s: impl %d entries, model %d' % (x[0], len(x[1]), len(y[1]))
    return 'impl %d categories, model %d' % (len(a), len(b))


def nontrivial_cfg(case, real):
    eff = _winner_map(real) if real['outcome'] == 'ok' else None
    if eff and not all(eff.values()):
        return True
    if any(not s['flag'] for s in real['stmts'].values()):
        return True
    for a in real.get('actions', []):
        for i in a.get('introspectables', ()):
            if i._relations:
                return True
    return False


def prep_ops(case, want_model=True):
    results, n = impl_ops(case)
    case2 = {'stream': 'ops', 'seq': case['seq'][:n]}
    res = {'impl': results, 'model': None, 'mismatch': None, 'violations': [], 'nontrivial': nontrivial_ops(case2),
           'dist': {'outcome': 'ops', 'stmts': n}, 'minput': {'op': 'ops', 'seq': case2['seq']} if want_model else None}
    d = oracle_ops(case2, results)
    if d:
        res['violations'] = [(d, None)]
    return res


def finish_ops(res, rep):
    if res.get('minput') is None:
        return res
    res.pop('minput')
    results = res['impl']
    res['model'] = rep.get('results')
    if rep.get('results') != results:
        got = rep.get('results') or []
        k = next((i for i, (x, y) in enumerate(zip(got, results)) if x != y), None)
        res['mismatch'] = 'operation %s: impl %s model %s' % (k, json.dumps(results[k]) if k is not None else len(results),
                                                              json.dumps(got[k]) if k is not None else rep)
    return res


def prepare(case, want_model=True):
    return prep_ops(case, want_model) if case.get('stream') == 'ops' else prep_cfg(case, want_model)


def finish(case, res, rep):
    return finish_ops(res, rep) if case.get('stream') == 'ops' else finish_cfg(res, rep)


def evaluate(ctx, case, want_model=True):
    want = want_model and ctx is not None and ctx.driver_path is not None
    res = prepare(case, want)
    if res.get('minput') is not None:
        try:
            rep = ctx.run_model([res['minput']])[0]
        except Exception as e:
            rep = {'error': str(e)}
        finish(case, res, rep)
    res.pop('minput', None)
    return res


KINDS = [('could not be declared/committed', 'invalid'), ('oracle crashed', 'invalid'), ('commit raised a conflict', 'conflict'),
         ('KeyError', 'keyerror'), ('commit succeeded although', 'no-conflict'),
         ('but no entry of it', 'missing'), ('has no entry in', 'missing'), ('lacks key', 'lacks'),
         ('is filed under category', 'category'), ('does not document', 'category'), ('overridden through conflict resolution but owns', 'overridden-owns'),
         ('introspection off', 'flag'), ('introspection is off', 'flag'), ('does not point at the statement', 'info'),
         ('no parameter accounts for', 'extra-keys'), ('not related both ways', 'relation'), ('is related to', 'relation'),
         ('expected relation', 'relation'), ('does not return the statement', 'get'), ('records title', 'value'), ('not listed in argument order', 'order'), ('records', 'value'),
         ('operation', 'ops-law')]


def kind_of(detail):
    for phrase, k in KINDS:
        if phrase in detail:
            return k
    return 'other'


def _strip_commit(d):
    import re
    return re.sub(r'^commit \d+: ', '', d)


def fails(case, kind=None):
    """does the implementation violate the property on this case (unknown findings only; same kind of violation)?"""
    try:
        r = evaluate(None, case, want_model=False)
    except Exception:
        return False
    return any(f is None and (kind is None or kind_of(d) == kind) and kind_of(d) != ('invalid' if kind != 'invalid' else None)
               for d, f in r['violations'])


def shrink_case(case, kind=None):
    if case.get('stream') == 'ops':
        def f(seq):
            return fails({'stream': 'ops', 'seq': seq}, kind)
        return {'stream': 'ops', 'seq': vfutil.shrink(case['seq'], f, max_steps=400)}

    hist = 'commits' in case

    def mk(commits):
        c = dict(case)
        if hist:
            c['commits'] = commits
        else:
            c['tree'] = commits[0]
        return c

    def f2(commits):
        return fails(mk(commits), kind)
    commits = [list(t) for t in case_trees(case)]
    steps = 0
    changed = True
    # 1. drop whole commits, unwrap / drop statements and include nodes (structural)
    while changed and steps < 160:
        changed = False
        cands = []
        if len(commits) > 1:
            cands += [commits[:i] + commits[i + 1:] for i in range(len(commits))]
        for i, t in enumerate(commits):
            for sub in _tree_candidates(t):
                cands.append(commits[:i] + [sub] + commits[i + 1:])
        for cand in cands:
            steps += 1
            if f2(cand):
                commits = cand; changed = True
                break
            if steps >= 160:
                break
    # 2. drop optional arguments of the remaining statements
    for st in [st for t in commits for st in _walk_stmts(t)]:
        for k in list(st['args']):
            if steps >= 320:
                break
            steps += 1
            c2 = copy.deepcopy(commits)
            for st2 in [x for t in c2 for x in _walk_stmts(t)]:
                if st2['id'] == st['id']:
                    st2['args'].pop(k, None)
            if f2(c2):
                commits = c2
    return mk(commits)


def _tree_candidates(tree):
    """smaller trees: one node dropped, or one include node replaced by its body"""
    for i in range(len(tree)):
        yield tree[:i] + tree[i + 1:]
    for i, n in enumerate(tree):
        if 'incl' in n:
            yield tree[:i] + n['body'] + tree[i + 1:]
            for sub in _tree_candidates(n['body']):
                yield tree[:i] + [dict(n, body=sub)] + tree[i + 1:]


# =====================================================================================================
#  entry points
# =====================================================================================================

def sweep_cases():
    """deterministic sweep: every family flat / overridden through include nesting / introspection off at the
    root / off through a nested include that does not touch the flag"""
    import random
    out = []
    for fi, fam in enumerate(FAMILIES):
        for shape, flag in (('flat', True), ('override', True), ('nested', False), ('deep', True)):
            rng = random.Random(1000 * fi + len(shape) + (7 if flag else 0))
            c = gen_cfg(rng, fams=[fam], shape=shape, flag=flag)
            # no random flag switching in the sweep
            def clear(nodes):
                for n in nodes:
                    if 'incl' in n:
                        n['set'] = None
                        clear(n['body'])
            clear(c['tree'])
            out.append(c)
    # every family declared, committed, and declared again for the same slot with other values in a second commit;
    # and the same on an autocommit configurator
    for fi, fam in enumerate(FAMILIES):
        if fam == 'set_authentication_policy':
            continue
        for auto in (False, True):
            rng = random.Random(7000 + 10 * fi + auto)
            g = {'n': 0, 'sid': 0, 'inc': 0}
            firsts = {}
            t1 = gen_cfg(rng, fams=[fam], shape='flat', flag=True, g=g, firsts=firsts, switches=False)['tree']
            t2 = gen_cfg(rng, fams=[fam], shape='flat' if auto else 'nested', flag=True, g=g, same_as=firsts, switches=False)['tree']
            if auto:
                out.append({'stream': 'cfg', 'introspection': True, 'autocommit': True, 'commits': [[n] for n in t1 + t2]})
            else:
                out.append({'stream': 'cfg', 'introspection': True, 'commits': [t1, t2]})
    # add_translation_dirs with 1..4 pairwise different directories in one call, every override mode
    for n in (1, 2, 3, 4):
        for ov in (None, False, True):
            args = {'*': [{'tdir': '%d%s' % (j, '/' if j % 2 else '')} for j in range(n)]}
            if ov is not None:
                args['override'] = ov
            out.append({'stream': 'cfg', 'introspection': True, 'tree': [{'stmt': {'id': 1, 'dir': 'add_translation_dirs', 'args': args}}]})
    # both settings of the two CSRF origin options, and a nested configurator below an introspection-off root
    for co in (True, False):
        out.append({'stream': 'cfg', 'introspection': True, 'tree': [{'stmt': {'id': 1, 'dir': 'set_default_csrf_options', 'args': {
            'require_csrf': True, 'token': 'tk', 'header': 'X-T', 'safe_methods': {'tup': ['GET', 'HEAD']},
            'check_origin': co, 'allow_no_origin': (not co), 'callback': None}}}]})
    out.append({'stream': 'cfg', 'introspection': False, 'tree': [{'incl': 1, 'set': None, 'body': [
        {'stmt': {'id': 1, 'dir': 'add_route', 'args': {'name': 'route0', 'pattern': '/r0'}}},
        {'incl': 2, 'set': None, 'body': [{'stmt': {'id': 2, 'dir': 'add_permission', 'args': {'permission_name': 'perm0'}}}]}]}]})
    return out


def run(ctx):
    try:
        return _run(ctx)
    finally:
        cleanup_tdirs()


def _run(ctx):
    import random
    dist, samples, mism, viol = {}, [], [], []
    seen, nontriv = set(), set()
    agree = evals = 0
    notes, assumptions = [], []

    # the python specification table against the Lean one
    if ctx.driver_path is not None:
        try:
            lean_spec = ctx.run_model([{'op': 'spec'}])[0]
            diffs = spec_crosscheck(lean_spec)
            if diffs:
                mism.append({'case': {'stream': 'spec-crosscheck'}, 'impl': 'harness PY_SPEC', 'model': diffs[:10]})
            notes.append('python oracle table cross-checked against Lemmas/IntrospectSpec.lean: %d differences' % len(diffs))
        except Exception as e:
            mism.append({'case': {'stream': 'spec-crosscheck'}, 'impl': 'harness PY_SPEC', 'model': 'driver error %s' % e})

    pending = []

    def flush():
        nonlocal agree
        todo = [(c, r) for c, r, o in pending if r.get('minput') is not None]
        reps = []
        if todo and ctx.driver_path is not None:
            try:
                reps = ctx.run_model([r['minput'] for _, r in todo])
            except Exception as e:
                reps = [{'error': str(e)}] * len(todo)
        for (c, r), rep in zip(todo, reps):
            finish(c, r, rep)
        for case, r, origin in pending:
            r.pop('minput', None)
            if r['mismatch']:
                mism.append({'case': case, 'impl': r['impl'], 'model': r['model'], 'detail': r['mismatch']})
            elif r['model'] is not None:
                agree += 1
        del pending[:]

    def one(case, origin):
        nonlocal evals
        r = prepare(case, ctx.driver_path is not None)
        evals += 1
        key = vfutil.canon(case)
        if key not in seen:
            seen.add(key)
            if r['nontrivial']:
                nontriv.add(key)
        vfutil.bump(dist, 'stream:' + case.get('stream', 'cfg'))
        vfutil.bump(dist, 'outcome:' + str(r['dist']['outcome']))
        if case.get('stream') == 'cfg':
            for st in [x for t in case_trees(case) for x in _walk_stmts(t)]:
                vfutil.bump(dist, 'dir:' + st['dir'])
            vfutil.bump(dist, 'flag:' + ('on' if case['introspection'] else 'off'))
            vfutil.bump(dist, 'commits:%d%s' % (len(case_trees(case)), '/autocommit' if case.get('autocommit') else ''))
        if len(samples) < 8 and origin == 'random':
            samples.append(case)
        for detail, finding in r['violations']:
            v = {'case': case, 'impl': r['impl'], 'expected': 'the property holds', 'detail': detail, 'stream': case.get('stream')}
            if finding:
                v['finding'] = finding
            viol.append(v)
        pending.append((case, r, origin))
        if len(pending) >= 400:
            flush()

    for fname, case in ctx.corpus():
        one(case, 'corpus')
    for case in sweep_cases():
        one(case, 'sweep')
    nss = 0
    for case in small_scope_ops(4):
        one(case, 'small-scope')
        nss += 1
    notes.append('small-scope exhaustive: all %d op sequences of <= %d steps over 3 slots (add/re-add, relate, unrelate, remove)' % (nss, 4))
    n_ops = ctx.n(8000, 100000)
    n_cfg = ctx.n(2000, 20000)
    for k in range(n_cfg):
        if ctx.time_left() < 120:
            notes.append('cfg stream stopped early at %d' % k)
            break
        one(gen_cfg(ctx.rng), 'random')
    for k in range(ctx.n(500, 5000)):
        if ctx.time_left() < 120:
            notes.append('history stream stopped early at %d' % k)
            break
        one(gen_history(ctx.rng) if k % 5 < 3 else gen_autocommit(ctx.rng), 'random')
    for k in range(n_ops):
        if ctx.time_left() < 60:
            notes.append('ops stream stopped early at %d' % k)
            break
        one(gen_ops(ctx.rng, ctx.rng.randrange(3, 16), collide=(k % 4 == 0)), 'random')
    flush()
    # shrink what is reported
    unknown = [v for v in viol if not v.get('finding')]
    if unknown:
        unknown.sort(key=lambda v: len(json.dumps(v['case'], default=str)))
        k0 = kind_of(unknown[0]['detail'])
        small = shrink_case(unknown[0]['case'], k0)
        r = evaluate(None, small, want_model=False)
        ds = [d for d, f in r['violations'] if f is None and kind_of(d) == k0]
        if ds:
            unknown[0] = dict(unknown[0], case=small, detail=ds[0], impl=r['impl'])
        viol = [v for v in viol if v.get('finding')] + unknown
    return {
        'evaluations': evals, 'distinct_nontrivial': len(nontriv), 'rule': RULE, 'samples': samples,
        'agreeing': agree, 'mismatches': mism, 'violations': viol, 'distribution': dist, 'notes': notes,
        'assumptions': [
            'the abstraction of a real program for the model takes discriminators, orders, include paths and the '
            'introspectables (slot, contents, recorded relations) from the pending action dicts of the real run '
            '(contents are compared after the commit)',
            'hash collisions between a discriminator_hash and another integer discriminator of the same category are '
            'outside the model',
            'action callables of the built-in directives do not add further actions (static programs)'],
        'trusted_base': ['extract/c20.py (python ast): the introspection slice of every directive is what the source says',
                         'zope.interface registry and the action callables themselves (only their introspection data is examined)'],
        'exhaustive': False,
    }


def _walk_stmts(nodes):
    for n in nodes:
        if 'stmt' in n:
            yield n['stmt']
        else:
            yield from _walk_stmts(n['body'])


def search(ctx):
    try:
        return _search(ctx)
    finally:
        cleanup_tdirs()


def _search(ctx):
    """after a break: the deterministic sweep plus a thorough-volume random stream, property oracle only"""
    import random
    viol, searched = [], 0
    cases = [c for _, c in ctx.corpus()] + sweep_cases()
    rng = random.Random(ctx.seed * 7919 + 20)
    for k in range(1500):
        cases.append(gen_cfg(rng) if k % 3 else (gen_history(rng) if k % 2 else gen_autocommit(rng)))
    cases = cases[:len(cases) - 1500] + list(small_scope_ops(4)) + cases[len(cases) - 1500:]
    for k in range(3000):
        cases.append(gen_ops(rng, rng.randrange(3, 14), collide=(k % 3 == 0)))
    for case in cases:
        if ctx.time_left() < 60:
            break
        searched += 1
        try:
            r = evaluate(None, case, want_model=False)
        except Exception:
            continue
        bad = [d for d, f in r['violations'] if f is None]
        if bad:
            small = shrink_case(case, kind_of(bad[0]))
            r2 = evaluate(None, small, want_model=False)
            bad2 = [d for d, f in r2['violations'] if f is None and kind_of(d) == kind_of(bad[0])]
            viol.append({'case': small if bad2 else case, 'impl': (r2 if bad2 else r)['impl'], 'expected': 'the property holds',
                         'detail': (bad2 or bad)[0], 'stream': case.get('stream')})
            if len(viol) >= 3:
                break
    return {'violations': viol, 'searched': searched, 'exhaustive': True,
            'scope': 'all op sequences of <= 4 steps over 3 slots (add incl. re-add, relate, unrelate, remove) + sweep + random'}


def replay(ctx, rep):
    try:
        return _replay(ctx, rep)
    finally:
        cleanup_tdirs()


def _replay(ctx, rep):
    case = rep['case']
    r = evaluate(ctx, case)
    unknown = [d for d, f in r['violations'] if f is None]
    known = [(d, f) for d, f in r['violations'] if f is not None]
    return {'case': case, 'impl': r['impl'], 'model': r['model'], 'correspondence': r['mismatch'] or 'agree',
            'violations': unknown, 'known_findings': known, 'violates': bool(unknown) or bool(known and rep.get('finding'))}
