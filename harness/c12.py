"""C12 — CSRF-protected views run only with the stored token and a trusted origin.

Correspondence of lean/PyramidModel/Csrf.lean with the real code, and the property itself evaluated on the
implementation by a Python oracle that states the property directly (independent of the Lean build).

Streams (every case is one JSON object, `op` selects the entry point):
  view     a real application (Configurator + Router): route /p with a view (or an exception view) carrying
           `require_csrf`, optional `set_default_csrf_options`, legacy/session/cookie storage policy, trusted origins
           from the settings; ONE WSGI request; observed: did the body run, status, exception class
  origin   check_csrf_origin(request, trusted_origins=<list or None>, allow_no_origin, raises)
  token    check_csrf_token(request, token, header, raises) under each storage policy
  seq      a SEQUENCE of check_csrf_origin calls sharing one trusted_origins list object (history independence)
  appseq   a sequence of WSGI requests through ONE application object vs. each through a fresh one
  urlparse urllib.parse.urlparse vs. the model's reading of scheme / netloc / ValueError
"""
import io, json, re, sys, urllib.parse, warnings, binascii
from urllib.parse import urlencode

import vfutil
from vfutil import bump

warnings.filterwarnings('ignore')

RULE = ('a case is non-trivial when the CSRF checks actually apply (enabled view, unsafe method, callback allows; or a '
        'direct function call on an https request / with a token to compare) AND at least one of: a token is supplied '
        'in some placement, an Origin/Referer is present on https; distinct = distinct canonical case JSON. Safe-method, '
        'opted-out and plain-http cases are counted in the distribution but not as non-trivial.')

FORM = 'application/x-www-form-urlencoded'
BOUNDARY = 'vfb0undary'
DEFAULT_SAFE = ['GET', 'HEAD', 'OPTIONS', 'TRACE']
# what set_default_csrf_options() configures when called without arguments (documented defaults)
NOARGS_DEFAULTS = {'require': True, 'token': 'csrf_token', 'header': 'X-CSRF-Token', 'safe': DEFAULT_SAFE, 'check_origin': True,
                   'allow_no_origin': False, 'callback': None, 'noargs': True}

# ------------------------------------------------------------------------------------------------------------
# building real requests

def build_environ(req):
    """WSGI environ of a case request.  `req['environ']` holds the CGI string keys verbatim."""
    env = {
        'REQUEST_METHOD': req['method'],
        'wsgi.url_scheme': req['scheme'],
        'SCRIPT_NAME': '',
        'PATH_INFO': '/p',
        'SERVER_PROTOCOL': 'HTTP/1.1',
        'wsgi.version': (1, 0),
        'wsgi.errors': sys.stderr,
        'wsgi.multithread': False, 'wsgi.multiprocess': False, 'wsgi.run_once': False,
    }
    env.update(req['environ'])
    env.setdefault('SERVER_NAME', 'srv.example')
    env.setdefault('SERVER_PORT', '443' if req['scheme'] == 'https' else '80')
    ct = env.get('CONTENT_TYPE', '')
    if ct.split(';', 1)[0] == 'multipart/form-data':
        parts = []
        for k, v in req['form']:
            parts.append('--%s\r\nContent-Disposition: form-data; name="%s"\r\n\r\n%s\r\n' % (BOUNDARY, k, v))
        body = (''.join(parts) + '--%s--\r\n' % BOUNDARY).encode('utf-8')
    else:
        body = urlencode([tuple(p) for p in req['form']]).encode('ascii')
    env['wsgi.input'] = io.BytesIO(body)
    env['CONTENT_LENGTH'] = str(len(body))
    env['QUERY_STRING'] = urlencode([tuple(p) for p in req['query']])
    return env


def model_environ(req):
    """the string-valued CGI keys the model sees (same defaults as build_environ)"""
    e = dict(req['environ'])
    e.setdefault('SERVER_NAME', 'srv.example')
    e.setdefault('SERVER_PORT', '443' if req['scheme'] == 'https' else '80')
    return e


class FakeOs:
    """pyramid.session's `os`, with a deterministic urandom (the legacy policy's new token = hexlify(urandom(20)))"""

    def __init__(self, real):
        self._real = real
        self.fresh = None

    def urandom(self, n):
        if self.fresh is not None:
            return binascii.unhexlify(self.fresh)[:n]
        return self._real.urandom(n)

    def __getattr__(self, k):
        return getattr(self._real, k)


_fake_os = None


def set_legacy_fresh(fresh):
    """make pyramid.session's new_csrf_token() return `fresh` when it is 40 hex digits (else leave it random)"""
    global _fake_os
    import pyramid.session as ps
    if _fake_os is None:
        _fake_os = FakeOs(ps.os)
        ps.os = _fake_os
    _fake_os.fresh = fresh if fresh and re.fullmatch(r'[0-9a-f]{40}', fresh) else None


class Boom(Exception):
    pass


CALLBACKS = {
    None: None,
    'true': lambda request: True,
    'false': lambda request: False,
    'put': lambda request: request.method == 'PUT',
    'noauth': lambda request: 'Authorization' not in request.headers,
}

_apps = {}


def settings_value(trusted, how):
    if how == 'list':
        return list(trusted)
    if how == 'nl':
        return '\n'.join(trusted)
    return ' '.join(trusted)


def aslist_model(trusted):
    """what pyramid.settings.aslist makes of the setting (whitespace splits, empty entries vanish)"""
    out = []
    for t in trusted:
        out.extend(t.split())
    return out


def make_app(case):
    """the real application of a `view` case (cached by configuration)"""
    key = json.dumps([case['explicit'], case['kind'], case['defaults'], case['storage'], case['trusted'], case.get('trusted_as', 'list'), case.get('vopts')], sort_keys=True)
    if key in _apps:
        return _apps[key]
    from pyramid.config import Configurator
    from pyramid.csrf import SessionCSRFStoragePolicy, CookieCSRFStoragePolicy
    from pyramid.session import SignedCookieSessionFactory
    from pyramid.response import Response
    from pyramid.tweens import EXCVIEW
    settings = {}
    if case['trusted'] is not None:
        settings['pyramid.csrf_trusted_origins'] = settings_value(case['trusted'], case.get('trusted_as', 'list'))
    config = Configurator(settings=settings)
    config.set_session_factory(SignedCookieSessionFactory('verif-secret', serializer=None))
    holder = {'fresh': None}
    if case['storage'] == 'session':
        pol = SessionCSRFStoragePolicy()
        pol._token_factory = lambda: holder['fresh']
        config.set_csrf_storage_policy(pol)
    elif case['storage'] == 'cookie':
        pol = CookieCSRFStoragePolicy()
        pol._token_factory = lambda: holder['fresh']
        config.set_csrf_storage_policy(pol)
    d = case['defaults']
    if d is not None and d.get('noargs'):
        config.set_default_csrf_options()        # the documented defaults (the case carries them for the model / oracle)
    elif d is not None:
        config.set_default_csrf_options(require_csrf=d['require'], token=d['token'], header=d['header'],
                                        safe_methods=tuple(d['safe']), check_origin=d['check_origin'],
                                        allow_no_origin=d['allow_no_origin'], callback=CALLBACKS[d['callback']])

    vopts = case.get('vopts') or {}

    def mark(request):
        request.environ['verif.ran'] = request.environ.get('verif.ran', 0) + 1
        if vopts.get('renderer') == 'json':
            return {'ran': 1}
        if vopts.get('renderer') == 'string':
            return 'ran'
        return Response('ran')

    def body(context, request):
        return mark(request)

    class BodyClass:
        def __init__(self, context, request):
            self.request = request

        def meth(self):
            return mark(self.request)

    if vopts.get('attr'):
        body = BodyClass

    def raiser(context, request):
        raise Boom()

    def prime(context, request):
        tok = request.environ.get('verif.plant')
        if tok is not None:
            request.session['_csrft_'] = tok
        else:
            request.session['other'] = 1
        return Response('primed')

    if not (case['kind'] == 'normal' and (case.get('vopts') or {}).get('no_route')):
        config.add_route('p', '/p')
    config.add_route('prime', '/_prime')
    config.add_view(prime, route_name='prime', require_csrf=False)
    kw = {}
    if case['explicit'] is not None or case.get('pass_none', True):
        kw['require_csrf'] = case['explicit']
    # the OTHER view options csrf_view can see in info.options / the predicates (the verdict must not depend on them)
    if 'request_method' in vopts:
        rm = vopts['request_method']
        kw['request_method'] = tuple(rm) if isinstance(rm, list) else rm
    if vopts.get('xhr'):
        kw['xhr'] = True
    if vopts.get('attr'):
        kw['attr'] = 'meth'
    if vopts.get('decorator'):
        def passthrough(view):
            def decorated(context, request):
                return view(context, request)
            return decorated
        kw['decorator'] = passthrough
    if vopts.get('renderer'):
        kw['renderer'] = vopts['renderer']
    if vopts.get('permission'):
        kw['permission'] = 'view'
    if vopts.get('http_cache'):
        kw['http_cache'] = 3600
    if vopts.get('mapper'):
        class PlainMapper:
            def __init__(self, **kwargs):
                pass

            def __call__(self, view):
                def mapped(context, request):
                    return view(context, request)
                return mapped
        kw['mapper'] = PlainMapper
    if vopts.get('wrapper'):
        def wrap(context, request):
            return request.wrapped_response
        kw['wrapper'] = 'wrap'
        config.add_view(wrap, name='wrap', require_csrf=False)
    if case['kind'] == 'normal' and vopts.get('no_route'):
        config.add_view(body, name='p', **kw)          # traversal: /p -> view name 'p' on the default root
    elif case['kind'] == 'normal':
        config.add_view(body, route_name='p', **kw)
    elif case['kind'] == 'exc_only':
        config.add_view(raiser, route_name='p', require_csrf=False)
        config.add_view(body, context=Boom, exception_only=True, **kw)
    elif case['kind'] == 'exc_api':   # add_exception_view refuses a require_csrf argument and registers require_csrf=False
        config.add_view(raiser, route_name='p', require_csrf=False)
        config.add_exception_view(body, context=Boom)
    else:  # 'exc_ctx': add_view with an exception class as context: serves as exception view, exception_only False
        config.add_view(raiser, route_name='p', require_csrf=False)
        config.add_view(body, context=Boom, **kw)

    def spy_factory(handler, registry):
        def spy(request):
            response = handler(request)
            exc = getattr(request, 'exception', None)
            request.environ['verif.exc'] = type(exc).__name__ if exc is not None else None
            return response
        return spy

    import types
    mod = types.ModuleType('verif_c12_spy')
    mod.spy_factory = spy_factory
    sys.modules['verif_c12_spy'] = mod
    config.add_tween('verif_c12_spy.spy_factory', over=EXCVIEW)
    app = config.make_wsgi_app()
    _apps[key] = (app, holder)
    if len(_apps) > 4000:
        _apps.pop(next(iter(_apps)))
    return _apps[key]


def call_app(app, env):
    st = {}

    def start_response(status, headers, exc_info=None):
        st['status'] = status
        st['headers'] = headers

    try:
        body = b''.join(app(env, start_response))
    except Exception as e:  # propagates out of the router
        return {'raised': type(e).__name__, 'ran': env.get('verif.ran', 0)}
    return {'status': int(st['status'].split()[0]), 'headers': st['headers'], 'body': body, 'ran': env.get('verif.ran', 0),
            'exc': env.get('verif.exc')}


def session_cookie(app, stored):
    """plant `stored` in a real signed-cookie session through the public API (a priming request)"""
    env = build_environ({'method': 'GET', 'scheme': 'http', 'environ': {'HTTP_HOST': 'prime.example'}, 'form': [], 'query': []})
    env['PATH_INFO'] = '/_prime'
    env['verif.plant'] = stored
    r = call_app(app, env)
    for k, v in r.get('headers', []):
        if k.lower() == 'set-cookie' and v.startswith('session='):
            return v.split(';', 1)[0]
    raise RuntimeError('priming request set no session cookie: %r' % (r,))


COOKIE_SAFE = re.compile(r"^[A-Za-z0-9!#$%&'*+\-.^_`|~:/?@\[\]()<>={}]*$")


def impl_view(case):
    """one WSGI request through the real application; canonical outcome"""
    app, holder = make_app(case)
    req = case['req']
    env = build_environ(req)
    holder['fresh'] = req['fresh']
    if case['storage'] == 'cookie':
        pass   # the csrf cookie is part of req['environ'] (HTTP_COOKIE), put there by the generator
    else:
        if req['stored'] is not None:
            ck = session_cookie(app, req['stored'])
            env['HTTP_COOKIE'] = (env['HTTP_COOKIE'] + '; ' if env.get('HTTP_COOKIE') else '') + ck
        if case['storage'] == 'legacy':
            set_legacy_fresh(req['fresh'])
    try:
        r = call_app(app, env)
    finally:
        if case['storage'] == 'legacy':
            set_legacy_fresh(None)
    return canon_view(r)


def canon_view(r):
    if 'raised' in r:
        out = 'raised:' + r['raised']
    elif r['ran'] and r['status'] == 200:
        out = 'ran'
    elif r['status'] == 400 and r['exc'] == 'BadCSRFToken':
        out = 'badtoken'
    elif r['status'] == 400 and r['exc'] == 'BadCSRFOrigin':
        out = 'badorigin'
    else:
        out = 'status:%s:%s' % (r['status'], r['exc'])
    return {'out': out, 'ran': r['ran']}


class DictSession(dict):
    """the minimal ISession the function-level streams use (the app-level stream uses pyramid's real signed session)"""

    def __init__(self, data, fresh):
        dict.__init__(self, data)
        self._fresh = fresh

    def new_csrf_token(self):
        self['_csrft_'] = self._fresh
        return self._fresh

    def get_csrf_token(self):
        token = self.get('_csrft_', None)
        if token is None:
            token = self.new_csrf_token()
        return token


def make_request(req, storage=None, trusted_setting=None):
    """a real pyramid Request with a registry, for the function-level streams"""
    from pyramid.request import Request
    from pyramid.registry import Registry
    from pyramid.interfaces import ICSRFStoragePolicy
    from pyramid.csrf import LegacySessionCSRFStoragePolicy, SessionCSRFStoragePolicy, CookieCSRFStoragePolicy
    request = Request(build_environ(req))
    reg = Registry('verif')
    reg.settings = {}
    if trusted_setting is not None:
        reg.settings['pyramid.csrf_trusted_origins'] = trusted_setting
    if storage is not None:
        pol = {'legacy': LegacySessionCSRFStoragePolicy, 'session': SessionCSRFStoragePolicy, 'cookie': CookieCSRFStoragePolicy}[storage]()
        if storage != 'legacy':
            pol._token_factory = lambda: req['fresh']
        reg.registerUtility(pol, ICSRFStoragePolicy)
        if storage != 'cookie':
            request.session = DictSession({} if req['stored'] is None else {'_csrft_': req['stored']}, req['fresh'])
    request.registry = reg
    return request


def outcome(fn):
    try:
        r = fn()
    except Exception as e:
        n = type(e).__name__
        return {'BadCSRFToken': 'badtoken', 'BadCSRFOrigin': 'badorigin', 'ValueError': 'valueerror',
                'UnicodeEncodeError': 'unicodeerror'}.get(n, 'raised:' + n)
    if r is True or r is False:
        return r
    return 'returned:%r' % (r,)


def impl_origin(case):
    from pyramid.csrf import check_csrf_origin
    via = case.get('via', 'arg')
    request = make_request(case['req'], trusted_setting=settings_value(case['trusted'], case.get('trusted_as', 'list')) if via == 'settings' else None)
    lst = list(case['trusted'])
    arg = None if via == 'settings' else lst
    kw = {'trusted_origins': arg, 'allow_no_origin': case['allow_no_origin'], 'raises': case['raises']}
    for k in case.get('omit', []):          # omitted arguments: the case carries the documented default (False / True / None)
        kw.pop(k, None)
    out = outcome(lambda: check_csrf_origin(request, **kw))
    return {'out': out, 'left': lst, 'own': own_host(case['req'])}


def impl_seq(case):
    from pyramid.csrf import check_csrf_origin
    shared = list(case['trusted'])
    outs = []
    for req in case['reqs']:
        request = make_request(req)
        outs.append(outcome(lambda: check_csrf_origin(request, trusted_origins=shared, allow_no_origin=case['allow_no_origin'], raises=case['raises'])))
    alone = []
    for req in case['reqs']:
        request = make_request(req)
        alone.append(outcome(lambda: check_csrf_origin(request, trusted_origins=list(case['trusted']), allow_no_origin=case['allow_no_origin'], raises=case['raises'])))
    return {'outs': outs, 'left': shared, 'alone': alone}


def impl_token(case):
    from pyramid.csrf import check_csrf_token
    request = make_request(case['req'], storage=case['storage'])
    kw = {}
    if not case.get('use_defaults'):
        kw = {'token': case['token'], 'header': case['header']}
    if not case.get('omit_raises'):
        kw['raises'] = case['raises']
    out = outcome(lambda: check_csrf_token(request, **kw))
    return {'out': out}


def impl_appseq(case):
    """the same requests through ONE application, and each through a freshly built one"""
    outs_shared, outs_fresh = [], []
    for req in case['reqs']:
        c = dict(case['cfg']); c['req'] = req; c['op'] = 'view'
        outs_shared.append(impl_view(c)['out'])
    for req in case['reqs']:
        _apps.clear()
        c = dict(case['cfg']); c['req'] = req; c['op'] = 'view'
        outs_fresh.append(impl_view(c)['out'])
    return {'outs': outs_shared, 'alone': outs_fresh}


# ------------------------------------------------------------------------------------------------------------
# urlparse facts handed to the model (they need `ipaddress` / `unicodedata`)

def url_netloc(origin):
    """the netloc urlsplit would extract, computed with urllib's own helpers (no validation)"""
    up = urllib.parse
    url = origin.lstrip(up._WHATWG_C0_CONTROL_OR_SPACE)
    for b in up._UNSAFE_URL_BYTES_TO_REMOVE:
        url = url.replace(b, '')
    i = url.find(':')
    if i > 0 and url[0].isascii() and url[0].isalpha():
        if all(c in up.scheme_chars for c in url[:i]):
            url = url[i + 1:]
    if url[:2] == '//':
        return up._splitnetloc(url, 2)[0]
    return ''


def url_facts(origin):
    up = urllib.parse
    netloc = url_netloc(origin)
    bracketed = netloc.partition('[')[2].partition(']')[0]
    br = True
    if '[' in netloc and ']' in netloc:
        try:
            up._check_bracketed_host(bracketed)
        except ValueError:
            br = False
    nfkc = True
    try:
        up._checknetloc(netloc)
    except ValueError:
        nfkc = False
    return br, nfkc, bracketed


def picked_origin(req):
    """(value, is_referrer) the way the statement says: the last Origin value, else the Referer"""
    env = req['environ']
    if 'HTTP_ORIGIN' in env:
        return env['HTTP_ORIGIN'].split(' ')[-1], False
    return env.get('HTTP_REFERER'), True


def codes(s_):
    return [ord(c) for c in s_]


def uncodes(cs):
    return ''.join(chr(c) for c in cs)


def model_req(req):
    o, _ = picked_origin(req)
    br, nfkc, _ = url_facts(o) if o else (True, True, '')
    return {'method': codes(req['method']), 'scheme': codes(req['scheme']),
            'environ': [[codes(k), codes(v)] for k, v in sorted(model_environ(req).items())],
            'form': [[codes(k), codes(v)] for k, v in req['form']],
            'query': [[codes(k), codes(v)] for k, v in req['query']],
            'stored': None if req['stored'] is None else codes(req['stored']), 'fresh': codes(req['fresh']),
            'br': br, 'nfkc': nfkc}


def model_defaults(d):
    if d is None:
        return None
    return {'require': bool(d['require']), 'token': None if d['token'] is None else codes(d['token']),
            'header': None if d['header'] is None else codes(d['header']), 'safe': [codes(m) for m in d['safe']],
            'check_origin': bool(d['check_origin']), 'allow_no_origin': bool(d['allow_no_origin']), 'callback': d['callback']}


def eff_explicit(case):
    return False if case['kind'] == 'exc_api' else case['explicit']


def to_model(case):
    op = case['op']
    if op == 'view':
        trusted = aslist_model(case['trusted'] or [])
        return {'op': 'view', 'explicit': eff_explicit(case), 'exc_only': case['kind'] != 'normal', 'defaults': model_defaults(case['defaults']),
                'storage': case['storage'], 'trusted': [codes(t) for t in trusted], 'req': model_req(case['req'])}
    if op == 'origin':
        trusted = aslist_model(case['trusted']) if case.get('via') == 'settings' else case['trusted']
        return {'op': 'origin', 'trusted': [codes(t) for t in trusted], 'allow_no_origin': case['allow_no_origin'], 'raises': case['raises'],
                'req': model_req(case['req'])}
    if op == 'seq':
        return {'op': 'seq', 'trusted': [codes(t) for t in case['trusted']], 'allow_no_origin': case['allow_no_origin'], 'raises': case['raises'],
                'reqs': [model_req(r) for r in case['reqs']]}
    if op == 'token':
        tok, hdr = ('csrf_token', 'X-CSRF-Token') if case.get('use_defaults') else (case['token'], case['header'])
        return {'op': 'token', 'storage': case['storage'], 'token': None if tok is None else codes(tok), 'header': None if hdr is None else codes(hdr),
                'raises': case['raises'], 'req': model_req(case['req'])}
    if op == 'urlparse':
        br, nfkc, _ = url_facts(case['origin'])
        return {'op': 'urlparse', 'origin': codes(case['origin']), 'br': br, 'nfkc': nfkc}
    if op == 'appseq':
        # the model side of an application sequence is the list of single-request verdicts
        return None
    raise ValueError(op)


def from_model(op, mo):
    """decode the model's reply into the shape of the implementation's canonical outcome"""
    if mo is None or 'error' in mo:
        return mo
    out = dict(mo)
    for k in ('supplied', 'held', 'own', 'scheme', 'netloc', 'bracketed'):
        if k in out:
            out[k] = uncodes(out[k])
    if 'left' in out:
        out['left'] = [uncodes(x) for x in out['left']]
    return out


# ------------------------------------------------------------------------------------------------------------
# the property, stated directly (Python oracle, independent of the model)

def own_host(req):
    """the request's own host as the statement means it: host name, plus the port when it is not 80/443 (WebOb's reading)"""
    from webob import Request as WRequest
    r = WRequest(build_environ(req))
    return r.domain if r.host_port in ('80', '443') else '%s:%s' % (r.domain, r.host_port)


def pattern_admits(netloc, pattern):
    """'host is … one of the trusted origins (a leading dot matching subdomains)'"""
    if not pattern:
        return False
    p = pattern.lower()
    if p.startswith('.'):
        return netloc == p[1:] or netloc.endswith(p)
    return netloc == p


_HTTPS = re.compile(r'(?i:https):(?://([^/?#]*))?', re.S)
_PLAIN_NETLOC = re.compile(r'[a-z0-9]([a-z0-9.-]*[a-z0-9])?(:[0-9]+)?')


def origin_verdict(req, trusted, allow_no_origin):
    """returns (necessary, sufficient):
    necessary  – False means the statement FORBIDS running (no https origin whose host is own/trusted, etc.)
    sufficient – True means the statement plainly ALLOWS it (only claimed for plain ASCII lower-case host[:port] origins)"""
    if req['scheme'] != 'https':
        return True, True
    o, is_ref = picked_origin(req)
    if not o:
        return bool(allow_no_origin), bool(allow_no_origin)
    pats = list(trusted) + [own_host(req)]
    if not is_ref and o == 'null':
        ok = 'null' in pats
        return ok, ok
    u = o.lstrip(urllib.parse._WHATWG_C0_CONTROL_OR_SPACE).replace('\t', '').replace('\r', '').replace('\n', '')
    m = _HTTPS.match(u)
    if not m:
        return False, False
    netloc = m.group(1) or ''
    nec = any(pattern_admits(netloc, p) for p in pats)
    suf = nec and u == o and m.group(0)[:5] == 'https' and bool(_PLAIN_NETLOC.fullmatch(netloc))
    return nec, suf


def body_field(req, name):
    vals = [v for k, v in req['form'] if k == name]
    return vals[-1] if vals else None


def token_verdict(req, storage, token, header):
    """(necessary, sufficient) for the token condition.
    necessary: the configured header (when present and non-empty) equals the held token, or – header absent/empty – the
    configured body field does; the query string never counts.  sufficient: claimed only for the header, or for a POST
    with an url-encoded form body."""
    stored = req['stored']
    if stored is None or (stored == '' and storage != 'legacy'):
        held = req['fresh']
    else:
        held = stored
    env = model_environ(req)
    hv = ''
    if header is not None:
        key = header.upper()
        key = {'CONTENT-TYPE': 'CONTENT_TYPE', 'CONTENT-LENGTH': 'CONTENT_LENGTH'}.get(key, 'HTTP_' + key.replace('-', '_'))
        hv = env.get(key, '')
    if hv != '':
        ok = hv == held
        return ok, ok
    bv = body_field(req, token) if token is not None else None
    ct = env.get('CONTENT_TYPE', '').split(';', 1)[0]
    if bv is None:
        ok = held == ''
        return ok, ok and False
    ok = bv == held
    return (ok or held == ''), (ok and req['method'] == 'POST' and ct == FORM)


def view_expect(case):
    """what the statement demands of a `view` case: 'ran' | 'rejected' | 'either' (+ reason)"""
    d = case['defaults'] or {'require': False, 'token': 'csrf_token', 'header': 'X-CSRF-Token', 'safe': DEFAULT_SAFE,
                             'check_origin': True, 'allow_no_origin': False, 'callback': None}
    req = case['req']
    explicit = eff_explicit(case)
    in_force = (explicit is True or (explicit is None and d['require'] and case['kind'] == 'normal'))
    in_force = in_force and bool(d['token'] or d['header'])
    if not in_force:
        return 'ran', 'checking not in force (opted out / no default / exception-only / no names)'
    if req['method'] in d['safe']:
        return 'ran', 'safe method'
    cb = d['callback']
    if cb is not None:
        from webob import Request as WRequest
        if not CALLBACKS[cb](WRequest(build_environ(req))):
            return 'ran', 'callback says the request needs no check'
    tn, ts = token_verdict(req, case['storage'], d['token'], d['header'])
    if d['check_origin']:
        on, os_ = origin_verdict(req, aslist_model(case['trusted'] or []), d['allow_no_origin'])
    else:
        on, os_ = True, True
    if not tn:
        return 'rejected', 'supplied token differs from the held token'
    if not on:
        return 'rejected', 'no trusted https origin'
    if ts and os_:
        return 'ran', 'token equal and origin trusted'
    return 'either', 'conditions hold on an unusual input'


def is_rejection(out):
    return out in ('badtoken', 'badorigin')


FINDING_D = 'F-C12d'


def classify_view(case, got, exp):
    """narrow classifier of the recorded finding: the protected view is an EXCEPTION view with require_csrf=True, the
    statement does not demand that it runs, the check DOES refuse (the body does not run) but the refusal
    (BadCSRFToken / BadCSRFOrigin) is raised out of the router instead of becoming a 400 response"""
    if (case['kind'] in ('exc_only', 'exc_ctx') and case['explicit'] is True and exp in ('rejected', 'either')
            and got['out'] in ('raised:BadCSRFToken', 'raised:BadCSRFOrigin') and not got['ran']):
        return FINDING_D
    return None


def check_view(case, mo):
    got = impl_view(case)
    exp, why = view_expect(case)
    viol = mism = None
    out = got['out']
    if exp == 'ran' and out != 'ran':
        viol = {'case': case, 'impl': got, 'expected': 'the view body runs (%s)' % why, 'detail': 'request refused although the statement lets it through'}
    elif exp == 'rejected' and not is_rejection(out):
        viol = {'case': case, 'impl': got, 'expected': 'rejected as a bad request, body not run (%s)' % why,
                'detail': 'view body ran' if got['ran'] else 'refusal is not a 400 bad-request response'}
    elif exp == 'either' and not (out == 'ran' or is_rejection(out)):
        viol = {'case': case, 'impl': got, 'expected': 'ran or 400', 'detail': 'neither ran nor rejected as a bad request'}
    elif is_rejection(out) and got['ran']:
        viol = {'case': case, 'impl': got, 'expected': 'body does not run on rejection', 'detail': 'body ran and request rejected'}
    if viol:
        f = classify_view(case, got, exp)
        if f:
            viol['finding'] = f
    if mo is not None:
        m_out = mo.get('out')
        i_out = out
        # the model describes the wrapper; how the router delivers a refusal raised inside an exception view is not
        # part of it (see F-C12d): compare the exception class
        if i_out.startswith('raised:BadCSRF'):
            i_out = 'badtoken' if i_out.endswith('Token') else 'badorigin'
        spec_ok = (mo.get('spec') == 'ran') == (m_out == 'ran')
        if m_out != i_out or not spec_ok:
            mism = {'case': case, 'impl': got, 'model': mo}
    return got, mism, viol


def check_origin_case(case, mo):
    got = impl_origin(case)
    viol = mism = None
    trusted = aslist_model(case['trusted']) if case.get('via') == 'settings' else case['trusted']
    nec, suf = origin_verdict(case['req'], trusted, case['allow_no_origin'])
    out = got['out']
    passed = out is True
    refused = (out == 'badorigin') if case['raises'] else (out is False)
    if not (passed or refused):
        viol = {'case': case, 'impl': got, 'expected': 'True, or %s' % ('BadCSRFOrigin' if case['raises'] else 'False'),
                'detail': 'the check neither passes nor fails as a bad origin'}
    elif passed and not nec:
        viol = {'case': case, 'impl': got, 'expected': 'refused', 'detail': 'origin accepted that is not an https origin of the own host / a trusted origin'}
    elif refused and suf:
        viol = {'case': case, 'impl': got, 'expected': 'passes', 'detail': 'trusted plain https origin refused'}
    elif got['left'] != case['trusted']:
        viol = {'case': case, 'impl': got, 'expected': {'left': case['trusted']}, 'detail': "the caller's trusted_origins list was changed"}
    if mo is not None:
        spec_ok = mo.get('spec') == (mo.get('out') is True)
        if mo.get('out') != out or (case.get('via') != 'settings' and mo.get('left') != got['left']) or mo.get('own') != got['own'] or not spec_ok:
            mism = {'case': case, 'impl': got, 'model': mo}
    return got, mism, viol


def check_seq_case(case, mo):
    got = impl_seq(case)
    viol = mism = None
    if got['outs'] != got['alone']:
        i = [a != b for a, b in zip(got['outs'], got['alone'])].index(True)
        viol = {'case': case, 'impl': got, 'expected': {'outs': got['alone']},
                'detail': 'verdict of check #%d depends on the checks made before it with the same trusted_origins list' % i}
    elif got['left'] != case['trusted']:
        viol = {'case': case, 'impl': got, 'expected': {'left': case['trusted']}, 'detail': "the shared trusted_origins list was changed"}
    else:
        for req, out in zip(case['reqs'], got['outs']):
            nec, suf = origin_verdict(req, case['trusted'], case['allow_no_origin'])
            passed = out is True
            refused = (out == 'badorigin') if case['raises'] else (out is False)
            if not (passed or refused) or (passed and not nec) or (refused and suf):
                viol = {'case': case, 'impl': got, 'expected': 'each verdict as the statement says', 'detail': 'a verdict of the sequence is wrong: %r for %r' % (out, req['environ'])}
                break
    if mo is not None:
        if mo.get('outs') != got['outs'] or mo.get('left') != got['left']:
            mism = {'case': case, 'impl': got, 'model': mo}
    return got, mism, viol


def check_token_case(case, mo):
    got = impl_token(case)
    viol = mism = None
    tok, hdr = ('csrf_token', 'X-CSRF-Token') if case.get('use_defaults') else (case['token'], case['header'])
    nec, suf = token_verdict(case['req'], case['storage'], tok, hdr)
    out = got['out']
    passed = out is True
    refused = (out == 'badtoken') if case['raises'] else (out is False)
    if not (passed or refused):
        viol = {'case': case, 'impl': got, 'expected': 'True, or %s' % ('BadCSRFToken' if case['raises'] else 'False'),
                'detail': 'the check neither passes nor fails as a bad token'}
    elif passed and not nec:
        viol = {'case': case, 'impl': got, 'expected': 'refused', 'detail': 'token accepted that does not equal the held token (or was not supplied in header/body)'}
    elif refused and suf:
        viol = {'case': case, 'impl': got, 'expected': 'passes', 'detail': 'the held token, supplied in the header / form body, was refused'}
    if mo is not None:
        spec_ok = mo.get('spec') == (mo.get('out') is True)
        if mo.get('out') != out or not spec_ok:
            mism = {'case': case, 'impl': got, 'model': mo}
    return got, mism, viol


def check_urlparse_case(case, mo):
    o = case['origin']
    try:
        p = urllib.parse.urlparse(o)
        got = {'scheme': p.scheme, 'netloc': p.netloc}
    except ValueError:
        got = {'err': 'valueerror'}
    _, _, bracketed = url_facts(o)
    mism = None
    if mo is not None:
        if {k: mo.get(k) for k in got} != got or ('err' in mo) != ('err' in got) or mo.get('bracketed') != bracketed:
            mism = {'case': case, 'impl': got, 'model': mo}
    return got, mism, None


def check_appseq_case(case, mo):
    got = impl_appseq(case)
    viol = None
    if got['outs'] != got['alone']:
        i = [a != b for a, b in zip(got['outs'], got['alone'])].index(True)
        viol = {'case': case, 'impl': got, 'expected': {'outs': got['alone']},
                'detail': 'verdict of request #%d through a used application differs from the same request through a fresh one' % i}
    return got, None, viol


CHECKERS = {'view': check_view, 'origin': check_origin_case, 'seq': check_seq_case, 'token': check_token_case,
            'urlparse': check_urlparse_case, 'appseq': check_appseq_case}


def check_case(case, mo):
    return CHECKERS[case['op']](case, from_model(case['op'], mo))


# ------------------------------------------------------------------------------------------------------------
# generators

HOSTS = ['example.com', 'example.com', 'example.com', 'sub.example.com', 'evil.example', 'example.com.evil.example', 'evilexample.com',
         'EXAMPLE.com', 'example.com.', 'localhost', '[::1]', '[2001:db8::1]', '127.0.0.1', 'xn--bcher-kva.example', 'b\u00fccher.example', 'a.b.example.com']
PORTS = [None, None, None, '443', '80', '8443', '6543', '0', '', '65536']
TRUSTED_POOL = ['example.com', '.example.com', 'sub.example.com', 'evil.example:8443', '.', 'null', 'EXAMPLE.COM', '.Example.com',
                'example.com:8443', '[::1]', 'localhost:6543', 'b\u00fccher.example', '.com', 'example.com.', 'https://example.com', '*.example.com']
SCHEMES = ['https', 'https', 'https', 'https', 'http', 'HTTPS', 'Https', 'ftp', '', 'https+x', 'javascript', 'wss', 'h\u00fcttps']
ODD_ORIGINS = ['null', 'NULL', 'https://[', 'https://]', 'https://[::1]', 'https://[::1]:8443', 'https://[zz]', 'https://[v1.x]', 'https://[v1]', 'https://[127.0.0.1]',
               'https://[::1', 'https://[::1]]', 'https://[[::1]', 'https://a[::1]', 'https://[2001:db8::1]', 'https://[::ffff:1.2.3.4]', 'https://[fe80::1%25eth0]',
               '//example.com', 'example.com', 'https:example.com', 'https:/example.com', 'https:///example.com', 'https:////example.com', ' https://example.com',
               'https://example.com ', 'a b https://example.com', 'https://evil.example https://example.com', 'https://example.com https://evil.example',
               'https://example.com\t', 'https://exa\nmple.com', 'https://exa\tmple.com', '\x01https://example.com', '\x1f\x00https://example.com', 'ht\ntps://example.com',
               'https://example.com#@evil.example', 'https://example.com?x=1', 'https://evil.example/https://example.com', 'https://evil.example?https://example.com',
               'https://example.com:443', 'https://example.com:', 'https://example.com.', 'https://EXAMPLE.com', 'https://user@example.com', 'https://user:pw@example.com',
               'https://example.com@evil.example', 'https://evil.example\\@example.com', 'https://evil.example\\.example.com', 'https://b\u00fccher.example',
               'https://example.com\uff0fevil.example', 'https://\u2100.example.com', 'https://example\uff0ecom', 'https://ex\u00adample.com', 'https://example.com\uff03',
               'https://', 'https:', 'https', ':', '://', 'https://:8443', 'https://.example.com', 'https://..example.com', 'https://xexample.com',
               'https://example.com.evil.example', 'https://evilexample.com', 'HTTPS://EXAMPLE.COM', 'hTTps://example.com/path?q#f', 'https://example.com/%2f',
               'http://example.com', 'https+x://example.com', '1https://example.com', 'https ://example.com', 'https://exam ple.com', '', ' ', 'https://example.com;x',
               'https://\u0131.example', 'https://\u212a.example']
METHODS = ['POST', 'POST', 'POST', 'PUT', 'PATCH', 'DELETE', 'GET', 'HEAD', 'OPTIONS', 'TRACE', 'post', 'FOO', 'PROPFIND', '']
SAFE_SETS = [DEFAULT_SAFE, DEFAULT_SAFE, [], [], ['GET'], ['GET', 'HEAD'], ['get', 'head'], ['POST'], ['GET', 'POST'], DEFAULT_SAFE + ['DELETE'], DEFAULT_SAFE + ['POST', 'PUT'],
             ['get'], ['TRACE', 'OPTIONS', 'HEAD', 'GET'], ['OPTIONS']]
HEADER_NAMES = ['X-CSRF-Token', 'X-CSRF-Token', 'X-CSRF-Token', 'x-csrf-token', 'X_CSRF_TOKEN', 'X-Other', None, '', 'X-Tok']
TOKEN_NAMES = ['csrf_token', 'csrf_token', 'csrf_token', 'tok', None, '', '\u00fcn\u00ef', 'csrf_token ']
STORED = ['abc123', '0123456789abcdef0123456789abcdef', 'Tok', 't\u00f6k\u20acn', '\U0001f600', '', None, 'a', 'abc123 ', '\u00e9', '0' * 40, 'null']
CTYPES = [FORM, FORM, FORM, FORM, '', 'application/json', 'multipart/form-data; boundary=' + BOUNDARY, FORM + '; charset=UTF-8', 'text/plain', 'APPLICATION/X-WWW-FORM-URLENCODED']
FRESH = ['f' * 40, '0123456789abcdef0123456789abcdef01234567', 'fresh-token', 'a']
CALLBACK_KINDS = [None, None, None, 'true', 'false', 'put', 'noauth']


def gen_host_env(rng, scheme):
    env = {}
    host = rng.choice(HOSTS)
    port = rng.choice(PORTS)
    r = rng.random()
    if r < 0.8:
        env['HTTP_HOST'] = host if port is None else '%s:%s' % (host, port)
    else:
        env['SERVER_NAME'] = host
        env['SERVER_PORT'] = port if port else rng.choice(['443', '80', '8443'])
    return env


def own_of_env(env, scheme):
    req = {'method': 'GET', 'scheme': scheme, 'environ': env, 'form': [], 'query': []}
    return own_host(req)


def gen_origin_value(rng, own, trusted):
    """an Origin/Referer value: mostly well-formed and aimed at the own host / a trusted pattern, salted with odd ones"""
    r = rng.random()
    if r < 0.25:
        return rng.choice(ODD_ORIGINS)
    target_pool = [own, own]
    for t in trusted:
        if t.startswith('.'):
            target_pool += [t[1:], 'sub' + t, 'deep.sub' + t, 'x' + t[1:]]
        else:
            target_pool.append(t)
    target_pool += [rng.choice(HOSTS)]
    netloc = rng.choice(target_pool)
    rr = rng.random()
    if rr < 0.1:
        netloc = netloc.upper()
    elif rr < 0.15:
        netloc = 'user@' + netloc
    elif rr < 0.2:
        netloc = netloc + rng.choice([':443', ':8443', ':', '.'])
    elif rr < 0.25:
        netloc = 'evil' + netloc
    scheme = rng.choice(SCHEMES)
    tail = rng.choice(['', '', '', '/', '/path?q=1', '?q', '#frag', '/a/b;c', ' '])
    return '%s://%s%s' % (scheme, netloc, tail) if scheme or rng.random() < 0.5 else netloc + tail


def gen_origin_headers(rng, env, scheme, trusted):
    own = own_of_env(env, scheme)
    r = rng.random()
    if r < 0.55:
        v = gen_origin_value(rng, own, trusted)
        if rng.random() < 0.12:
            v = gen_origin_value(rng, own, trusted) + ' ' + v
        env['HTTP_ORIGIN'] = v
        if rng.random() < 0.3:
            env['HTTP_REFERER'] = gen_origin_value(rng, own, trusted)
    elif r < 0.85:
        env['HTTP_REFERER'] = gen_origin_value(rng, own, trusted) if rng.random() < 0.93 else 'null'
    elif r < 0.9:
        env['HTTP_ORIGIN'] = ''
        if rng.random() < 0.5:
            env['HTTP_REFERER'] = gen_origin_value(rng, own, trusted)


def variant_token(rng, held):
    r = rng.random()
    if r < 0.45:
        return held
    if r < 0.55:
        return held[:-1]
    if r < 0.62:
        return held + rng.choice(['x', ' ', '\u20ac', '\x00'])
    if r < 0.70:
        return held.swapcase()
    if r < 0.76:
        return ''
    if r < 0.82:
        return rng.choice(['\u20ac', 't\u00f6k\u20acn', '\U0001f600', '\u0100', '\ud7ff'])
    if r < 0.88:
        return rng.choice([s_ for s_ in STORED if s_])
    if r < 0.92:
        return held.encode('utf-8').decode('latin-1')   # mojibake: same bytes read as latin-1
    return vfutil.rand_text(rng, 8, p_special=0.2, p_nonascii=0.3)


def env_key(header):
    key = header.upper()
    return {'CONTENT-TYPE': 'CONTENT_TYPE', 'CONTENT-LENGTH': 'CONTENT_LENGTH'}.get(key, 'HTTP_' + key.replace('-', '_'))


def gen_req(rng, trusted, token_name, header_name, storage, want_https=None, method=None):
    scheme = want_https if want_https is not None else rng.choice(['https', 'https', 'https', 'http'])
    env = gen_host_env(rng, scheme)
    gen_origin_headers(rng, env, scheme, trusted)
    stored = rng.choice(STORED)
    if storage == 'cookie' and stored is not None and not COOKIE_SAFE.match(stored):
        stored = 'abc123'
    fresh = rng.choice(FRESH)
    held = fresh if (stored is None or (stored == '' and storage != 'legacy')) else stored
    form, query = [], []
    placements = rng.choice([['header'], ['body'], ['query'], ['header', 'body'], ['body', 'query'], [], ['header', 'query'], ['body', 'body'], ['header_empty', 'body']])
    for pl in placements:
        v = variant_token(rng, held)
        if pl == 'header' and header_name:
            hv = v if all(ord(c) < 256 for c in v) or rng.random() < 0.5 else 'x'
            env[env_key(header_name)] = hv
        elif pl == 'header_empty' and header_name:
            env[env_key(header_name)] = ''
        elif pl == 'body':
            form.append([token_name if token_name is not None else 'csrf_token', v])
        elif pl == 'query':
            query.append([token_name if token_name is not None else 'csrf_token', v])
    if rng.random() < 0.3:
        form.insert(rng.randrange(len(form) + 1), [rng.choice(['a', 'csrf_token', 'tok', 'x']), rng.choice(['1', held, ''])])
    if rng.random() < 0.1:
        env['HTTP_X_CSRF_TOKEN'] = variant_token(rng, held).encode('utf-8').decode('latin-1') if rng.random() < 0.5 else held
    if rng.random() < 0.15:
        env['HTTP_AUTHORIZATION'] = 'Bearer x'
    ct = rng.choice(CTYPES)
    if ct:
        env['CONTENT_TYPE'] = ct
    if ct.startswith('multipart'):
        form = [[k, v] for k, v in form if k and '"' not in k and '\r' not in k + v and '\n' not in k + v and BOUNDARY not in v]
    if storage == 'cookie' and stored is not None:
        env['HTTP_COOKIE'] = 'csrf_token=' + stored if stored else 'csrf_token='
    # environ values are latin-1 decoded header bytes on a real server; non-latin-1 text can still be delivered in-process
    return {'method': method or rng.choice(METHODS), 'scheme': scheme, 'environ': env, 'form': form, 'query': query, 'stored': stored, 'fresh': fresh}


def aim_to_pass(rng, req, trusted, token_name, header_name, storage):
    """turn a random request into one that should pass both checks (then the neighbouring failures come from the
    other 65% and from the perturbations below)"""
    env = req['environ']
    req['method'] = rng.choice(['POST', 'POST', 'PUT', 'DELETE', 'PATCH'])
    env['CONTENT_TYPE'] = FORM
    stored = req['stored']
    held = req['fresh'] if (stored is None or (stored == '' and storage != 'legacy')) else stored
    for k in [k for k in env if k.startswith('HTTP_X')]:
        del env[k]
    req['form'] = [p for p in req['form'] if p[0] != token_name]
    if header_name and all(ord(c) < 256 for c in held) and rng.random() < 0.5:
        env[env_key(header_name)] = held
    elif token_name is not None:
        req['form'].append([token_name, held])
        if req['method'] != 'POST' and rng.random() < 0.5:
            req['method'] = 'POST'
    env.pop('HTTP_ORIGIN', None); env.pop('HTTP_REFERER', None)
    own = own_host(req)
    pool = [own.lower()]
    for tp in trusted:
        pool.append(('sub' + tp.lower()) if tp.startswith('.') else tp.lower())
    target = rng.choice(pool)
    val = 'https://' + target + rng.choice(['', '', '/', '/a?b#c'])
    if rng.random() < 0.6:
        env['HTTP_ORIGIN'] = val if rng.random() < 0.85 else 'https://evil.example ' + val
    else:
        env['HTTP_REFERER'] = val
    # a small share of near misses
    r = rng.random()
    if r < 0.06:
        k = 'HTTP_ORIGIN' if 'HTTP_ORIGIN' in env else 'HTTP_REFERER'
        env[k] = rng.choice(['http://' + target, 'https://x' + target, 'https://' + target + '.evil.example', val + ' https://evil.example', 'https://' + target + ':1'])
    elif r < 0.12 and req['form']:
        req['query'], req['form'] = req['form'], []


def gen_trusted(rng):
    n = rng.choice([0, 0, 1, 1, 2, 3])
    out = [rng.choice(TRUSTED_POOL) for _ in range(n)]
    if rng.random() < 0.12:
        out.append('null')
    return out


def gen_defaults(rng):
    if rng.random() < 0.2:
        return None
    if rng.random() < 0.08:
        return dict(NOARGS_DEFAULTS, safe=list(DEFAULT_SAFE))
    return {'require': rng.random() < 0.8, 'token': rng.choice(TOKEN_NAMES), 'header': rng.choice(HEADER_NAMES), 'safe': list(rng.choice(SAFE_SETS)),
            'check_origin': rng.random() < 0.8, 'allow_no_origin': rng.random() < 0.35, 'callback': rng.choice(CALLBACK_KINDS)}


VOPT_FLAGS = ['xhr', 'attr', 'decorator', 'permission', 'http_cache', 'wrapper', 'mapper', 'no_route']
PRED_METHODS = ['GET', 'HEAD', 'OPTIONS', 'TRACE', 'POST', 'PUT', 'DELETE', 'PATCH']


def admitted_methods(vopts):
    """methods the view's request_method predicate lets through (add_view adds HEAD to GET); None = no predicate"""
    rm = (vopts or {}).get('request_method')
    if rm is None:
        return None
    ms = [rm] if isinstance(rm, str) else list(rm)
    if 'GET' in ms and 'HEAD' not in ms:
        ms.append('HEAD')
    return ms


def gen_vopts(rng, kind):
    v = {}
    if rng.random() < 0.6:
        k = rng.choice([1, 1, 1, 2, 3])
        ms = rng.sample(PRED_METHODS, k)
        v['request_method'] = ms[0] if k == 1 and rng.random() < 0.7 else ms
    for f in rng.sample(VOPT_FLAGS, rng.choice([0, 0, 1, 1, 2])):
        v[f] = True
    if rng.random() < 0.2:
        v['renderer'] = rng.choice(['json', 'string'])
    if v.get('mapper'):
        v.pop('attr', None)
    if kind != 'normal':
        for f in ('no_route', 'wrapper', 'permission'):
            v.pop(f, None)
    return v


def apply_vopts(rng, case):
    """make the request one the view's predicates admit"""
    v = case.get('vopts') or {}
    ms = admitted_methods(v)
    if ms is not None and case['req']['method'] not in ms:
        case['req']['method'] = rng.choice(ms)
    if v.get('xhr'):
        case['req']['environ']['HTTP_X_REQUESTED_WITH'] = 'XMLHttpRequest'


def vopts_admit(case):
    v = case.get('vopts') or {}
    if not isinstance(v, dict) or any(k not in VOPT_FLAGS + ['request_method', 'renderer'] for k in v):
        return False
    ms = admitted_methods(v)
    if ms is not None and (not ms or case['req']['method'] not in ms or any(m not in PRED_METHODS for m in ms)):
        return False
    if v.get('xhr') and case['req']['environ'].get('HTTP_X_REQUESTED_WITH') != 'XMLHttpRequest':
        return False
    if v.get('renderer') not in (None, 'json', 'string') or any(v.get(f) not in (None, True) for f in VOPT_FLAGS):
        return False
    if v.get('mapper') and v.get('attr'):
        return False
    if case['kind'] != 'normal' and any(v.get(f) for f in ('no_route', 'wrapper', 'permission')):
        return False
    return True


def gen_view_case(rng):
    d = gen_defaults(rng)
    trusted = gen_trusted(rng)
    storage = rng.choice(['legacy', 'session', 'session', 'cookie', 'cookie'])
    dd = d or {'token': 'csrf_token', 'header': 'X-CSRF-Token'}
    explicit = rng.choice([True, True, True, True, False, None, None, None])
    kind = rng.choice(['normal'] * 8 + ['exc_only', 'exc_ctx', 'exc_api'])
    req = gen_req(rng, aslist_model(trusted), dd['token'], dd['header'], storage)
    if rng.random() < 0.35:
        aim_to_pass(rng, req, aslist_model(trusted), dd['token'], dd['header'], storage)
    if storage == 'legacy' and req['stored'] is None and not re.fullmatch(r'[0-9a-f]{40}', req['fresh']):
        req['fresh'] = 'f' * 40
    case = {'op': 'view', 'explicit': explicit, 'kind': kind, 'defaults': d, 'storage': storage, 'trusted': trusted,
            'trusted_as': rng.choice(['list', 'list', 'nl', 'sp']), 'req': req}
    if kind != 'exc_api' and rng.random() < 0.5:
        case['vopts'] = gen_vopts(rng, kind)
        apply_vopts(rng, case)
    return case


def gen_origin_case(rng):
    trusted = gen_trusted(rng)
    if rng.random() < 0.1:
        trusted = trusted + ['']
    via = rng.choice(['arg', 'arg', 'settings'])
    if via == 'settings':
        trusted = [t for t in trusted if t]
    req = gen_req(rng, trusted, 'csrf_token', 'X-CSRF-Token', 'session', want_https='https' if rng.random() < 0.9 else 'http')
    case = {'op': 'origin', 'trusted': trusted, 'via': via, 'trusted_as': rng.choice(['list', 'nl', 'sp']) if via == 'settings' else 'list',
            'allow_no_origin': rng.random() < 0.4, 'raises': rng.random() < 0.5, 'req': req}
    omit = []
    if rng.random() < 0.15:
        omit.append('allow_no_origin'); case['allow_no_origin'] = False
    if rng.random() < 0.15:
        omit.append('raises'); case['raises'] = True
    if omit:
        case['omit'] = omit
    return case


def gen_seq_case(rng):
    trusted = gen_trusted(rng)
    n = rng.choice([2, 2, 3, 4, 6])
    reqs = [gen_req(rng, trusted, 'csrf_token', 'X-CSRF-Token', 'session', want_https='https') for _ in range(n)]
    # make history matter if the list leaks: a later request whose origin is an EARLIER request's own host
    if n >= 2 and rng.random() < 0.7:
        i = rng.randrange(n - 1)
        j = rng.randrange(i + 1, n)
        own_i = own_host(reqs[i])
        reqs[i]['environ']['HTTP_ORIGIN'] = rng.choice(['https://' + own_i, 'https://elsewhere.example', 'null'])
        reqs[j]['environ']['HTTP_ORIGIN'] = 'https://' + own_i
        reqs[j]['environ'].pop('HTTP_REFERER', None)
    return {'op': 'seq', 'trusted': trusted, 'allow_no_origin': rng.random() < 0.3, 'raises': rng.random() < 0.5, 'reqs': reqs}


def gen_token_case(rng):
    storage = rng.choice(['legacy', 'session', 'cookie'])
    use_defaults = rng.random() < 0.3
    token = 'csrf_token' if use_defaults else rng.choice(TOKEN_NAMES)
    header = 'X-CSRF-Token' if use_defaults else rng.choice(HEADER_NAMES)
    req = gen_req(rng, [], token, header, storage, method=rng.choice(['POST', 'POST', 'PUT', 'DELETE', 'GET', 'PATCH']))
    case = {'op': 'token', 'storage': storage, 'token': token, 'header': header, 'use_defaults': use_defaults, 'raises': rng.random() < 0.5, 'req': req}
    if case['raises'] and rng.random() < 0.3:
        case['omit_raises'] = True
    return case


def gen_urlparse_case(rng):
    r = rng.random()
    if r < 0.4:
        o = rng.choice(ODD_ORIGINS)
    elif r < 0.8:
        o = gen_origin_value(rng, rng.choice(HOSTS), ['.example.com', 'example.com:8443'])
    else:
        o = vfutil.rand_text(rng, 14, alphabet=list('htps:/[]@.#?\\ \t\nAv1:%;+-') + ['\u00fc', '\uff0f', '\u2100', '\x01'])
    if rng.random() < 0.2 and o:
        i = rng.randrange(len(o) + 1)
        o = o[:i] + rng.choice(['[', ']', '/', ':', '\t', '\n', ' ', '#', '?', '@', '\\', '\uff0f', '%']) + o[i:]
    return {'op': 'urlparse', 'origin': o}


def gen_appseq_case(rng):
    cfg = gen_view_case(rng)
    cfg['explicit'] = True
    cfg['kind'] = 'normal'
    cfg.pop('vopts', None)
    n = rng.choice([2, 3])
    dd = cfg['defaults'] or {'token': 'csrf_token', 'header': 'X-CSRF-Token'}
    reqs = [gen_req(rng, aslist_model(cfg['trusted']), dd['token'], dd['header'], cfg['storage'], want_https='https', method='POST') for _ in range(n)]
    for q in reqs:
        if cfg['storage'] == 'legacy' and q['stored'] is None:
            q['fresh'] = 'f' * 40
    i, j = 0, n - 1
    own_i = own_host(reqs[i])
    reqs[j]['environ']['HTTP_ORIGIN'] = 'https://' + own_i
    cfg.pop('req')
    return {'op': 'appseq', 'cfg': cfg, 'reqs': reqs}


def nontrivial(case, got):
    op = case['op']
    if op == 'view':
        d = case['defaults'] or {'require': False, 'token': 'csrf_token', 'header': 'X-CSRF-Token', 'safe': DEFAULT_SAFE, 'callback': None}
        exp, why = view_expect(case)
        if exp == 'ran' and why != 'token equal and origin trusted':
            return False
        return True
    if op == 'origin':
        return case['req']['scheme'] == 'https' and picked_origin(case['req'])[0] is not None
    if op == 'seq':
        return len(case['reqs']) >= 2
    if op == 'token':
        return bool(case['req']['form'] or case['req']['query'] or any(k.startswith('HTTP_X') for k in case['req']['environ']))
    if op == 'urlparse':
        return '//' in case['origin']
    if op == 'appseq':
        return True
    return False


def record(dist, case, got):
    op = case['op']
    bump(dist['ops'], op)
    if op == 'view':
        bump(dist['view_outcome'], str(got['out']))
        exp, why = view_expect(case)
        bump(dist['view_statement'], '%s: %s' % (exp, why))
        bump(dist['storage'], case['storage'])
        bump(dist['view_kind'], case['kind'])
        bump(dist['explicit'], str(case['explicit']))
        bump(dist['method'], case['req']['method'])
        for k in (case.get('vopts') or {'none': 1}):
            bump(dist['view_options'], k)
    elif op == 'origin':
        bump(dist['origin_outcome'], str(got['out']))
        o, ref = picked_origin(case['req'])
        kind = 'none' if o is None else 'empty' if o == '' else 'null' if o == 'null' else ('referer' if ref else 'origin')
        bump(dist['origin_source'], kind)
    elif op == 'token':
        bump(dist['token_outcome'], str(got['out']))
    elif op == 'seq':
        bump(dist['seq_len'], len(case['reqs']))
        bump(dist['seq_passes'], sum(1 for o in got['outs'] if o is True))
    elif op == 'urlparse':
        bump(dist['urlparse'], 'valueerror' if 'err' in got else ('https' if got['scheme'] == 'https' else 'other-scheme') + ('+netloc' if got.get('netloc') else ''))
    elif op == 'appseq':
        bump(dist['appseq_outcomes'], ','.join(got['outs']))


def new_dist():
    return {k: {} for k in ('view_options', 'ops', 'view_outcome', 'view_statement', 'storage', 'view_kind', 'explicit', 'method', 'origin_outcome', 'origin_source',
                            'token_outcome', 'seq_len', 'seq_passes', 'urlparse', 'appseq_outcomes')}


GENS = [('view', gen_view_case, 0.40), ('origin', gen_origin_case, 0.22), ('token', gen_token_case, 0.14), ('seq', gen_seq_case, 0.08),
        ('urlparse', gen_urlparse_case, 0.15), ('appseq', gen_appseq_case, 0.01)]


def gen_case(rng):
    r = rng.random()
    acc = 0.0
    for _, g, w in GENS:
        acc += w
        if r < acc:
            return g(rng)
    return gen_view_case(rng)


def safe_check(case, mo):
    try:
        return check_case(case, mo)
    except Exception as e:   # a harness failure on one case is reported as a violation of nothing: surface it as a mismatch
        import traceback
        return ({'out': 'harness-error'}, {'case': case, 'impl': 'harness error: ' + ''.join(traceback.format_exception_only(type(e), e)).strip(),
                                           'model': mo}, None)


def valid_case(c):
    """enum fields keep their vocabulary while shrinking"""
    def vreq(q):
        return isinstance(q, dict) and q.get('scheme') in ('http', 'https') and isinstance(q.get('environ'), dict) and q.get('fresh')
    op = c.get('op')
    if op == 'view':
        d = c['defaults']
        if d is not None and d.get('noargs') and {k: v for k, v in d.items()} != NOARGS_DEFAULTS:
            return False
        if c.get('vopts') is not None and not vopts_admit(c):
            return False
        return (c['kind'] in ('normal', 'exc_only', 'exc_ctx', 'exc_api') and c['storage'] in ('legacy', 'session', 'cookie')
                and c.get('trusted_as', 'list') in ('list', 'nl', 'sp') and vreq(c['req']) and (d is None or d['callback'] in CALLBACKS)
                and not (c['storage'] == 'legacy' and c['req']['stored'] is None and not re.fullmatch(r'[0-9a-f]{40}', c['req']['fresh'])))
    if op == 'origin':
        om = c.get('omit', [])
        if any(k not in ('allow_no_origin', 'raises') for k in om) or ('allow_no_origin' in om and c['allow_no_origin'] is not False) or ('raises' in om and c['raises'] is not True):
            return False
        return c.get('via', 'arg') in ('arg', 'settings') and c.get('trusted_as', 'list') in ('list', 'nl', 'sp') and vreq(c['req'])
    if op == 'seq':
        return all(vreq(q) for q in c['reqs'])
    if op == 'token':
        return c['storage'] in ('legacy', 'session', 'cookie') and vreq(c['req']) and not (c.get('omit_raises') and c['raises'] is not True)
    if op == 'appseq':
        cc = dict(c['cfg']); cc['op'] = 'view'
        return all(valid_case(dict(cc, req=q)) for q in c['reqs'])
    return op == 'urlparse'


def shrink_violation(v, mo_needed=False):
    case = v['case']

    def still(c):
        if c.get('op') != case['op'] or not valid_case(c):
            return False
        try:
            _, _, vv = check_case(c, None)
        except Exception:
            return False
        return bool(vv) and vv.get('finding') == v.get('finding') and vv.get('detail') == v.get('detail')

    try:
        small = vfutil.shrink(case, still, max_steps=300)
        if small != case:
            _, _, vv = check_case(small, None)
            if vv:
                return vv
    except Exception:
        pass
    return v


def run(ctx):
    rng = ctx.rng
    n = ctx.n(5000, 60000)
    corpus = [c for _, c in ctx.corpus()]
    cases = list(corpus) + [gen_case(rng) for _ in range(n)]
    cases += boundary_origin_cases()
    cases += boundary_pred_cases()
    cases += boundary_cases()[: ctx.n(400, 100000)]
    minputs = [to_model(c) for c in cases]
    idx = [i for i, m in enumerate(minputs) if m is not None]
    model = [None] * len(cases)
    if ctx.driver_path:
        replies = ctx.run_model([minputs[i] for i in idx])
        for i, r in zip(idx, replies):
            model[i] = r
    mism, viol, agree = [], [], 0
    dist = new_dist()
    seen, nontriv = set(), set()
    for case, mo in zip(cases, model):
        got, m, v = safe_check(case, mo)
        if m:
            mism.append(m)
        elif mo is not None:
            agree += 1
        if v:
            viol.append(v)
        try:
            record(dist, case, got)
        except Exception:
            pass
        key = vfutil.canon(case)
        if key not in seen:
            seen.add(key)
            try:
                if nontrivial(case, got):
                    nontriv.add(key)
            except Exception:
                pass
        if ctx.time_left() < 60:
            ctx.notes.append('stopped early: time budget')
            break
    viol_known = [v for v in viol if v.get('finding')]
    viol_new = [shrink_violation(v) for v in viol if not v.get('finding')][:10]
    notes = excluded_points()
    return {'evaluations': len(cases), 'distinct_nontrivial': len(nontriv), 'rule': RULE, 'agreeing': agree,
            'samples': cases[len(corpus):len(corpus) + 3] + cases[-2:], 'mismatches': mism[:20], 'violations': viol_new + viol_known[:3],
            'distribution': dist, 'notes': notes, 'exhaustive': False,
            'assumptions': ['header / field names and trusted-origin patterns use ASCII letters or caseless characters (str.upper/lower modelled for ASCII only)',
                            'the session token is planted through a priming request and pyramid\'s real signed-cookie session; `_token_factory` / os.urandom are pinned so that a freshly generated token is a known value',
                            'pyramid.settings.aslist is applied by the harness (whitespace split) before the model sees the trusted list'],
            'trusted_base': ['WebOb request parsing (headers, POST body, cookies, host/port) beyond the modelled lookups',
                             'urllib.parse: ipaddress validation of bracketed hosts and the NFKC netloc check are inputs of the model (computed by calling urllib\'s own helpers)',
                             'extract/c12.py (ast translator for defaults, check order, codec, list copy, try/except)']}


def excluded_points():
    """points outside the hypotheses of the Lean theorems, replayed on the real code"""
    notes = []
    # legacy policy + an EMPTY stored token: a request with no token at all passes (held '' == supplied '')
    c = {'op': 'token', 'storage': 'legacy', 'token': 'csrf_token', 'header': 'X-CSRF-Token', 'raises': False,
         'req': {'method': 'POST', 'scheme': 'http', 'environ': {'HTTP_HOST': 'example.com', 'CONTENT_TYPE': FORM}, 'form': [], 'query': [], 'stored': '', 'fresh': 'f' * 40}}
    notes.append('excluded point (legacy session holding an EMPTY token, no token supplied): impl=%r — the token "equals" the held one; only the application can store an empty token' % (impl_token(c)['out'],))
    return notes


def boundary_cases():
    """the option cube x boundary requests (small, deterministic)"""
    out = []
    base_env = {'HTTP_HOST': 'example.com', 'CONTENT_TYPE': FORM}
    origins = [None, '', 'null', 'https://example.com', 'http://example.com', 'https://evil.example', 'https://sub.example.com', 'https://[', 'https://example.com:8443']
    toks = [('header', 'abc123'), ('header', 'abc12'), ('body', 'abc123'), ('query', 'abc123'), ('none', ''), ('body', '\u20ac'), ('header', 'ABC123')]
    for explicit in (True, False, None):
        for kind in ('normal', 'exc_only'):
            for dflt in (None, 'req', 'noreq', 'nonames', 'noorigin', 'allowno', 'noargs'):
                for method in ('POST', 'GET', 'DELETE'):
                    for scheme in ('https', 'http'):
                        for o in origins:
                            for place, tv in toks:
                                if scheme == 'http' and o not in (None, 'https://evil.example'):
                                    continue
                                if method == 'GET' and (o not in (None,) or place not in ('header', 'none')):
                                    continue
                                d = None
                                if dflt == 'noargs':
                                    d = dict(NOARGS_DEFAULTS, safe=list(DEFAULT_SAFE))
                                elif dflt:
                                    d = {'require': dflt != 'noreq', 'token': None if dflt == 'nonames' else 'csrf_token', 'header': None if dflt == 'nonames' else 'X-CSRF-Token',
                                         'safe': DEFAULT_SAFE, 'check_origin': dflt != 'noorigin', 'allow_no_origin': dflt == 'allowno', 'callback': None}
                                env = dict(base_env)
                                if o is not None:
                                    env['HTTP_ORIGIN'] = o
                                form, query = [], []
                                if place == 'header':
                                    env['HTTP_X_CSRF_TOKEN'] = tv
                                elif place == 'body':
                                    form = [['csrf_token', tv]]
                                elif place == 'query':
                                    query = [['csrf_token', tv]]
                                out.append({'op': 'view', 'explicit': explicit, 'kind': kind, 'defaults': d, 'storage': 'session', 'trusted': ['.example.com'] if dflt == 'req' else [],
                                            'trusted_as': 'list', 'req': {'method': method, 'scheme': scheme, 'environ': env, 'form': form, 'query': query, 'stored': 'abc123', 'fresh': 'f' * 40}})
    return out


def boundary_pred_cases():
    """small scope: safe_methods cube x {no predicate, request_method = each of GET HEAD OPTIONS TRACE POST} x the methods the
    predicate admits x {no token, held token in the header} x {explicit True, default}"""
    out = []
    for safe in (DEFAULT_SAFE, [], ['GET', 'HEAD'], ['get', 'head'], DEFAULT_SAFE + ['POST'], ['OPTIONS']):
        for pred in (None, 'GET', 'HEAD', 'OPTIONS', 'TRACE', 'POST', ['GET', 'POST']):
            vopts = {} if pred is None else {'request_method': pred}
            for method in (admitted_methods(vopts) or ['GET', 'HEAD', 'OPTIONS', 'TRACE', 'POST']):
                for explicit in (True, None):
                    for tok in (None, 'abc123'):
                        env = {'HTTP_HOST': 'example.com'}
                        if tok:
                            env['HTTP_X_CSRF_TOKEN'] = tok
                        d = {'require': True, 'token': 'csrf_token', 'header': 'X-CSRF-Token', 'safe': list(safe), 'check_origin': True,
                             'allow_no_origin': False, 'callback': None}
                        c = {'op': 'view', 'explicit': explicit, 'kind': 'normal', 'defaults': d, 'storage': 'session', 'trusted': [], 'trusted_as': 'list',
                             'req': {'method': method, 'scheme': 'http', 'environ': env, 'form': [], 'query': [], 'stored': 'abc123', 'fresh': 'f' * 40}}
                        if vopts:
                            c['vopts'] = dict(vopts)
                        out.append(c)
    return out


def boundary_origin_cases():
    """trusted list x header source x value, for check_csrf_origin directly"""
    out = []
    values = [None, '', 'null', 'https://example.com', 'https://example.com:8443', 'http://example.com', 'https://sub.example.com', 'https://evilexample.com',
              'https://[', 'https:', 'https://evil.example https://example.com', 'https://example.com https://evil.example', 'HTTPS://example.com/x?y#z']
    for trusted in ([], ['null'], ['.example.com'], ['example.com:8443'], ['.']):
        for host in ('example.com', 'example.com:8443', 'other.example'):
            for src in ('origin', 'referer'):
                for v in values:
                    for allow in (False, True):
                        env = {'HTTP_HOST': host}
                        if v is not None:
                            env['HTTP_ORIGIN' if src == 'origin' else 'HTTP_REFERER'] = v
                        elif src == 'referer':
                            continue
                        rq = {'method': 'POST', 'scheme': 'https', 'environ': env, 'form': [], 'query': [], 'stored': 'abc123', 'fresh': 'f' * 40}
                        out.append({'op': 'origin', 'trusted': trusted, 'via': 'arg', 'trusted_as': 'list', 'allow_no_origin': allow, 'raises': False, 'req': rq})
                        if not allow and trusted == [] and host == 'example.com':
                            out.append({'op': 'origin', 'trusted': trusted, 'via': 'arg', 'trusted_as': 'list', 'allow_no_origin': False, 'raises': True,
                                        'omit': ['allow_no_origin', 'raises'], 'req': rq})
    return out


def search(ctx):
    """failing-input search on the IMPLEMENTATION (no model needed): corpus, the option cube x boundary requests (exhaustive
    over that small scope), then the seeded stream at thorough volume"""
    viol, n = [], 0
    for _, case in ctx.corpus():
        n += 1
        _, _, v = safe_check(case, None)
        if v and not v.get('finding'):
            viol.append(v)
    exhaustive = True
    for case in boundary_pred_cases() + boundary_origin_cases() + boundary_cases():
        n += 1
        _, _, v = safe_check(case, None)
        if v and not v.get('finding'):
            viol.append(v)
            if len(viol) >= 5:
                break
        if ctx.time_left() < 120:
            exhaustive = False
            break
    if not viol:
        rng = ctx.rng
        for _ in range(60000):
            case = gen_case(rng)
            n += 1
            _, _, v = safe_check(case, None)
            if v and not v.get('finding'):
                viol.append(v)
                if len(viol) >= 5:
                    break
            if ctx.time_left() < 90:
                break
    return {'violations': [shrink_violation(v) for v in viol[:5]], 'searched': n, 'exhaustive': exhaustive and not viol}


def replay(ctx, rep):
    case = rep.get('case')
    if case is None:
        return {'violates': False, 'note': 'replay names broken obligations only', 'broken': rep.get('broken_obligations')}
    mi = to_model(case)
    mo = ctx.run_model([mi])[0] if (ctx.driver_path and mi is not None) else None
    got, m, v = check_case(case, mo)
    res = {'case': case, 'impl': got, 'model': from_model(case['op'], mo), 'mismatch': bool(m), 'violates': bool(v)}
    if case['op'] == 'view':
        res['statement'] = view_expect(case)
    if v:
        res['detail'] = v.get('detail'); res['expected'] = v.get('expected'); res['finding'] = v.get('finding')
    return res
